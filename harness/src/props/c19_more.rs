//! C19, extension "um": record spans from EVERY CRAM feature kind, alignment starts as deltas,
//! `query_unmapped`.
//!
//! One case = one coordinate-sorted stream over 1..3 small references written by the real CRAM
//! writer, whose records use every CIGAR operation (M I D N S H P = X; single- and multi-base
//! insertions; bases outside ACGTN, so the writer emits Substitution, ReadBase, Insertion, InsertBase,
//! Deletion, ReferenceSkip, SoftClip, Padding and HardClip features), plus the records whose end is
//! NOT `start + span - 1`: mapped reads that cover no reference base (`4S`, `2S3I`), mapped reads
//! without CIGAR, reads without bases, unmapped reads placed at their mate's position, and the
//! unplaced tail.
//!
//!   * CORRESPONDENCE (requests answered by `Noodles/Cram/DriverC19More.lean`):
//!       `c19 span`  per record: the features the real reader decoded → the real
//!                   `cram::Record::alignment_span/alignment_end`, the CIGAR of `record/cigar/iter.rs`
//!                   + `TrySimplify`, and `RecordBuf::alignment_end`;
//!       `c19 ap`    per slice: the raw AP series the real writer stored (external block 5, own ITF8
//!                   parser) and the starts the real reader decodes from it;
//!       `c19 index` / `c19 query` (the existing requests) on these richer files;
//!       `c19 qunm`  `Reader::query_unmapped` through the file's own index and through crafted
//!                   indexes (no unmapped entry, reversed, unmapped entry moved to an earlier
//!                   container, unmapped entry duplicated);
//!       `c19 apdec` MALFORMED STREAM 1: the raw AP block of a slice overwritten in place by arbitrary
//!                   i32 values (CRC32 recomputed): the real reader's starts / error vs `apDecode`;
//!       `c19 valid` MALFORMED STREAM 2: the raw FP block (feature position deltas) of a record
//!                   overwritten in place: the real reader's verdict vs `featuresValid`
//!                   (`validate_features`), accepted records also through `c19 span`.
//!   * ORACLE: decoded starts = written starts; the record end the indexer uses = the end a full scan
//!     sees = the harness's own rule; every CRAI entry = the walker-derived entry; every region query
//!     = the filtered scan; `query_unmapped` (sync and async) returns every unplaced unmapped record,
//!     each once, in file order, only records flagged unmapped, a subsequence of the scan — and
//!     exactly the unplaced ones when no placed unmapped read shares the tail containers.
use super::c19::{entry_of, fmt_entries, fmt_ids, fmt_layout, record_of, serial_of, walk, work_dir, Entry, WFile};
use crate::common::*;
use noodles_core::{Position, Region};
use noodles_cram::{self as cram, crai};
use noodles_fasta as fasta;
use noodles_sam::{
    self as sam,
    alignment::{
        io::Write as _,
        record::{cigar::op::Kind, Flags, MappingQuality},
        record_buf::{Cigar, QualityScores, Sequence},
        RecordBuf,
    },
};
use std::num::NonZero;

const DEFAULT_RPS: usize = 10240;
/// `DataSeries::AlignmentStarts` → block content id (data_series.rs)
const AP_BLOCK: i32 = 5;

// ------------------------------------------------------------------ cases

#[derive(Clone, Debug)]
struct MRec {
    serial: usize,
    rid: Option<usize>,
    /// 0 = no alignment start
    start: usize,
    /// flag 0x4
    unmapped: bool,
    /// empty = `*`
    cigar: Vec<(Kind, usize)>,
    /// number of bases stored
    seq_len: usize,
}

fn consumes_ref(k: Kind) -> bool {
    matches!(k, Kind::Match | Kind::Deletion | Kind::Skip | Kind::SequenceMatch | Kind::SequenceMismatch)
}
fn consumes_read(k: Kind) -> bool {
    matches!(k, Kind::Match | Kind::Insertion | Kind::SoftClip | Kind::SequenceMatch | Kind::SequenceMismatch)
}
fn cigar_ref_len(c: &[(Kind, usize)]) -> usize {
    c.iter().filter(|(k, _)| consumes_ref(*k)).map(|(_, n)| n).sum()
}
fn cigar_read_len(c: &[(Kind, usize)]) -> usize {
    c.iter().filter(|(k, _)| consumes_read(*k)).map(|(_, n)| n).sum()
}

impl MRec {
    /// The harness's OWN rule, written without looking at noodles: the reference bases a record
    /// covers are those its CIGAR consumes (M D N = X); CRAM has no "mapped without CIGAR", such a
    /// record reads back as `<len>M`; an unmapped read has no CIGAR.
    fn ref_span(&self) -> usize {
        if self.unmapped {
            0
        } else if self.cigar.is_empty() {
            self.seq_len
        } else {
            cigar_ref_len(&self.cigar)
        }
    }
    /// a placed record occupies at least the position it is placed at (SAM: a read covering no
    /// reference base is treated as 1 base long for overlap purposes)
    fn end(&self) -> usize {
        if self.start == 0 { 0 } else { self.start + self.ref_span().max(1) - 1 }
    }
    fn placed(&self) -> bool {
        self.rid.is_some()
    }
    fn kind(&self) -> &'static str {
        match (self.rid.is_some(), self.unmapped) {
            (false, true) => "unplaced_unmapped",
            (false, false) => "unplaced_flagged_mapped",
            (true, true) => "placed_unmapped",
            (true, false) => {
                if self.cigar.is_empty() {
                    if self.seq_len == 0 { "mapped_no_bases" } else { "mapped_no_cigar" }
                } else if cigar_ref_len(&self.cigar) == 0 {
                    "mapped_zero_span"
                } else {
                    "mapped"
                }
            }
        }
    }
}

#[derive(Clone, Debug)]
struct Case {
    id: String,
    nref: usize,
    ref_len: usize,
    recs: Vec<MRec>,
    rps: usize,
    spc: usize,
    ap_delta: bool,
    seed: u64,
    /// reference length declared in the SAM header when it differs from the sequences of the
    /// repository (positions beyond 2^28 need no bases: only unmapped reads are placed there)
    hdr_ref_len: Option<usize>,
}

/// a CIGAR that consumes exactly `span` reference bases, over every operation kind
fn gen_cigar(rng: &mut Rng, span: usize) -> Vec<(Kind, usize)> {
    let mut ops: Vec<(Kind, usize)> = vec![];
    if rng.chance(1, 6) {
        ops.push((Kind::HardClip, 1 + rng.below(3) as usize));
    }
    if rng.chance(1, 4) {
        ops.push((Kind::SoftClip, 1 + rng.below(3) as usize));
    }
    let mut rem = span;
    let mut first = true;
    while rem > 0 {
        // a reference-consuming operation
        let last_possible = rem <= 1;
        let k = if first || last_possible || rng.chance(3, 5) {
            *rng.pick(&[Kind::Match, Kind::Match, Kind::Match, Kind::SequenceMatch, Kind::SequenceMismatch])
        } else {
            *rng.pick(&[Kind::Deletion, Kind::Skip])
        };
        let cap = if matches!(k, Kind::Deletion | Kind::Skip) { (rem - 1).min(9) } else { rem.min(7) };
        let mut n = 1 + rng.below(cap.max(1) as u64) as usize;
        if rng.chance(1, 5) {
            n = if matches!(k, Kind::Deletion | Kind::Skip) { rem - 1 } else { rem }; // one long operation
        }
        let n = n.min(rem).max(1);
        ops.push((k, n));
        rem -= n;
        first = false;
        // operations that consume no reference base, between the others
        if rem > 0 {
            match rng.below(8) {
                0 => ops.push((Kind::Insertion, 1)),
                1 => ops.push((Kind::Insertion, 2 + rng.below(3) as usize)),
                2 => ops.push((Kind::Pad, 1 + rng.below(2) as usize)),
                3 if rng.chance(1, 3) => {
                    ops.push((Kind::Insertion, 1));
                    ops.push((Kind::Pad, 1));
                    ops.push((Kind::Insertion, 2));
                }
                _ => {}
            }
        }
    }
    if rng.chance(1, 5) {
        ops.push((Kind::SoftClip, 1 + rng.below(2) as usize));
    }
    if rng.chance(1, 8) {
        ops.push((Kind::HardClip, 1 + rng.below(2) as usize));
    }
    ops
}

/// a CIGAR of a mapped read that covers no reference base
fn gen_zero_span_cigar(rng: &mut Rng) -> Vec<(Kind, usize)> {
    match rng.below(5) {
        0 => vec![(Kind::SoftClip, 1 + rng.below(5) as usize)],
        1 => vec![(Kind::Insertion, 1 + rng.below(3) as usize)],
        2 => vec![(Kind::SoftClip, 2), (Kind::Insertion, 1 + rng.below(3) as usize)],
        3 => vec![(Kind::HardClip, 2), (Kind::SoftClip, 3), (Kind::HardClip, 1)],
        _ => vec![(Kind::SoftClip, 1), (Kind::Insertion, 1), (Kind::Pad, 1), (Kind::SoftClip, 2)],
    }
}

fn gen_placed(rng: &mut Rng, rid: usize, start: usize, ref_len: usize) -> MRec {
    let max_span = ref_len - start + 1;
    let r = |cigar: Vec<(Kind, usize)>, unmapped: bool, seq_len: usize| MRec { serial: 0, rid: Some(rid), start, unmapped, cigar, seq_len };
    match rng.below(16) {
        0 => {
            let c = gen_zero_span_cigar(rng);
            let n = cigar_read_len(&c);
            r(c, false, n)
        }
        1 => r(vec![], true, *rng.pick(&[0usize, 1, 4, 10, 25])), // an unmapped read placed at its mate's position
        2 => r(vec![], false, 1 + rng.below(max_span.min(12) as u64) as usize), // mapped, no CIGAR: reads back as <len>M
        3 if rng.chance(1, 2) => r(vec![], false, 0),                           // mapped, no CIGAR, no bases
        _ => {
            let span = match rng.below(5) {
                0 => 1,
                1 => max_span,
                2 => 1 + rng.below(max_span.min(60) as u64) as usize,
                _ => 1 + rng.below(max_span.min(14) as u64) as usize,
            };
            let c = gen_cigar(rng, span);
            let n = cigar_read_len(&c);
            r(c, false, n)
        }
    }
}

fn gen_case(sub: u64) -> Case {
    let mut rng = Rng::new(sub ^ 0xc19_0a0e);
    let multi_slice = rng.chance(1, 5);
    let nref = if multi_slice { 1 } else { 1 + rng.below(3) as usize };
    let ref_len = *rng.pick(&[40usize, 80, 150, 300]);
    let dense = rng.chance(1, 3);
    let mut recs = vec![];
    for rid in 0..nref {
        if nref > 1 && rng.chance(1, 7) {
            continue;
        }
        let n = if dense { rng.range(3, 12) } else { rng.below(6) } as usize;
        let mut starts: Vec<usize> = (0..n).map(|_| if rng.chance(1, 10) { 1 } else { 1 + rng.below(ref_len as u64) as usize }).collect();
        if rng.chance(1, 4) && !starts.is_empty() {
            let s = starts[0];
            starts.push(s);
        }
        starts.sort();
        for s in starts {
            recs.push(gen_placed(&mut rng, rid, s, ref_len));
        }
    }
    if rng.chance(1, if multi_slice { 4 } else { 2 }) {
        for _ in 0..rng.range(1, 4) {
            recs.push(MRec { serial: 0, rid: None, start: 0, unmapped: true, cigar: vec![], seq_len: *rng.pick(&[0usize, 4, 4, 9]) });
        }
    }
    for (i, r) in recs.iter_mut().enumerate() {
        r.serial = i;
    }
    let (rps, spc) = match if multi_slice { 6 } else { rng.below(10) } {
        0 => (DEFAULT_RPS, 1),
        1 | 2 => (1 + rng.below(3) as usize, 1),
        3 | 4 => (2 + rng.below(5) as usize, 1),
        5 => (recs.len().max(1), 1),
        6 | 7 => (1 + rng.below(4) as usize, 2 + rng.below(2) as usize),
        _ => (2 + rng.below(6) as usize, 1 + rng.below(3) as usize),
    };
    let ap_delta = !rng.chance(1, 3);
    Case { id: format!("more {sub}"), nref, ref_len, recs, rps, spc, ap_delta, seed: sub, hdr_ref_len: None }
}

fn parse_cigar(s: &str) -> Vec<(Kind, usize)> {
    let mut out = vec![];
    let mut n = 0usize;
    for c in s.chars() {
        if let Some(d) = c.to_digit(10) {
            n = n * 10 + d as usize;
        } else {
            let k = match c {
                'M' => Kind::Match,
                'I' => Kind::Insertion,
                'D' => Kind::Deletion,
                'N' => Kind::Skip,
                'S' => Kind::SoftClip,
                'H' => Kind::HardClip,
                'P' => Kind::Pad,
                '=' => Kind::SequenceMatch,
                'X' => Kind::SequenceMismatch,
                _ => panic!("corpus CIGAR"),
            };
            out.push((k, n));
            n = 0;
        }
    }
    out
}

/// hand-written boundary cases, always run first
fn corpus_case(k: usize) -> Option<Case> {
    // (rid, start, kind): kind = CIGAR | "u<len>" placed/unplaced unmapped | "*<len>" mapped without CIGAR
    type R = (Option<usize>, usize, &'static str);
    let m = |r: usize, s: usize, c: &'static str| -> R { (Some(r), s, c) };
    let u = |n: &'static str| -> R { (None, 0, n) };
    let (nref, ref_len, rps, spc, ap, rs): (usize, usize, usize, usize, bool, Vec<R>) = match k {
        // every CIGAR operation in one record, single-reference slice
        0 => (1, 80, DEFAULT_RPS, 1, true, vec![m(0, 5, "2H3S4M1I2M3I1P2D3=2N2X1S1H")]),
        // a multi-reference slice whose reference 1 holds ONLY a read covering no reference base, at position 1
        1 => (2, 40, DEFAULT_RPS, 1, true, vec![m(0, 1, "4M"), m(1, 1, "4S")]),
        // a multi-reference slice with an unmapped read placed at its mate's position, longer than the mate
        2 => (2, 40, DEFAULT_RPS, 1, true, vec![m(0, 10, "4M"), m(0, 10, "u10"), m(1, 3, "5M")]),
        // the same records in single-reference slices (the slice header carries the span)
        3 => (2, 40, 2, 1, true, vec![m(0, 10, "4M"), m(0, 10, "u10"), m(1, 3, "5M"), m(1, 7, "3S")]),
        // the query_unmapped witness: mapped, placed unmapped and unplaced reads in ONE slice
        4 => (1, 40, DEFAULT_RPS, 1, true, vec![m(0, 3, "5M"), m(0, 3, "u4"), u("u4")]),
        // no unplaced read at all: query_unmapped must return nothing
        5 => (1, 40, 2, 1, true, vec![m(0, 3, "5M"), m(0, 9, "2M2D2M"), m(0, 20, "u6")]),
        // unplaced reads only
        6 => (1, 40, 2, 1, false, vec![u("u4"), u("u0"), u("u9")]),
        // the unplaced tail starts in the middle of a container of two multi-reference slices
        7 => (2, 40, 2, 2, true, vec![m(0, 4, "3M"), m(1, 2, "2M1I2M"), m(1, 9, "u5"), u("u4"), u("u4"), u("u4")]),
        // several containers; a placed unmapped read in a container BEFORE the tail container
        8 => (2, 80, 3, 1, true, vec![m(0, 4, "3M"), m(0, 4, "u7"), m(0, 30, "10M"), m(1, 2, "6M"), m(1, 50, "2M20N2M"), u("u4"), u("u4")]),
        // descending starts inside a slice cannot occur in a sorted file, equal starts can: deltas 0
        9 => (1, 40, DEFAULT_RPS, 1, true, vec![m(0, 7, "3M"), m(0, 7, "1S2M"), m(0, 7, "4S"), m(0, 7, "u3"), m(0, 7, "*5")]),
        // absolute alignment starts, mapped reads without CIGAR and without bases
        10 => (2, 40, 3, 1, false, vec![m(0, 1, "*5"), m(0, 2, "*0"), m(0, 40, "1M"), m(1, 40, "u9"), m(1, 40, "1S1M"), u("u4")]),
        // padding, hard clips and insertions only between two matches; N bases and IUPAC codes come from the base generator
        11 => (1, 150, DEFAULT_RPS, 1, true, vec![m(0, 1, "1M1P1I1P1M"), m(0, 3, "5H10M5H"), m(0, 9, "1X1=1X1="), m(0, 20, "3M100N3M"), m(0, 149, "2M")]),
        // zero-span reads at the last position of a reference and at position 1, alone in their slices
        12 => (2, 40, 1, 1, true, vec![m(0, 1, "3I"), m(0, 40, "2S"), m(1, 1, "u25"), m(1, 40, "u25")]),
        // a long deletion ends exactly at the end of the reference
        13 => (1, 40, 2, 2, true, vec![m(0, 1, "1M38D1M"), m(0, 1, "40M"), m(0, 40, "1M"), m(0, 40, "1="), u("u4"), u("u4")]),
        // the largest alignment start an i32 holds (multi-reference slice: no reference bases are touched) …
        14 => (2, 40, DEFAULT_RPS, 1, true, vec![m(0, 1, "4M"), m(1, 2_147_483_647, "u4")]),
        // … and one more: the writer must refuse (position_to_i32), in both modes
        15 => (2, 40, DEFAULT_RPS, 1, false, vec![m(0, 1, "4M"), m(1, 2_147_483_648, "u4")]),
        _ => return None,
    };
    let recs = rs
        .into_iter()
        .enumerate()
        .map(|(i, (rid, s, c))| {
            if let Some(n) = c.strip_prefix('u') {
                MRec { serial: i, rid, start: s, unmapped: true, cigar: vec![], seq_len: n.parse().unwrap() }
            } else if let Some(n) = c.strip_prefix('*') {
                MRec { serial: i, rid, start: s, unmapped: false, cigar: vec![], seq_len: n.parse().unwrap() }
            } else {
                let cigar = parse_cigar(c);
                let n = cigar_read_len(&cigar);
                MRec { serial: i, rid, start: s, unmapped: false, cigar, seq_len: n }
            }
        })
        .collect();
    let hdr_ref_len = if k == 14 || k == 15 { Some(2_147_483_647) } else { None };
    Some(Case { id: format!("morecorpus {k}"), nref, ref_len, recs, rps, spc, ap_delta: ap, seed: 1900 + k as u64, hdr_ref_len })
}

fn reference_bases(case: &Case, rid: usize) -> Vec<u8> {
    let mut rng = Rng::new(case.seed.wrapping_mul(131).wrapping_add(rid as u64 + 7));
    (0..case.ref_len).map(|_| *rng.pick(b"ACGT")).collect()
}

fn repository(case: &Case) -> fasta::Repository {
    let records: Vec<fasta::Record> = (0..case.nref)
        .map(|rid| fasta::Record::new(fasta::record::Definition::new(format!("sq{rid}"), None), fasta::record::Sequence::from(reference_bases(case, rid))))
        .collect();
    fasta::Repository::new(records)
}

fn sam_header(case: &Case) -> sam::Header {
    use sam::header::record::value::{
        map::{self, header::tag::SORT_ORDER, ReferenceSequence},
        Map,
    };
    let hd = Map::<map::Header>::builder().insert(SORT_ORDER, "coordinate").build().unwrap();
    let refs = (0..case.nref)
        .map(|i| (bstr::BString::from(format!("sq{i}")), Map::<ReferenceSequence>::new(NonZero::new(case.hdr_ref_len.unwrap_or(case.ref_len)).unwrap())))
        .collect();
    sam::Header::builder().set_header(hd).set_reference_sequences(refs).build()
}

fn to_record_buf(case: &Case, r: &MRec) -> RecordBuf {
    let mut rng = Rng::new(case.seed.wrapping_mul(977).wrapping_add(r.serial as u64 + 3));
    let mut b = RecordBuf::builder().set_name(format!("r{}", r.serial));
    let mut bases: Vec<u8> = vec![];
    if let (Some(rid), false, false) = (r.rid, r.unmapped, r.cigar.is_empty()) {
        let reference = reference_bases(case, rid);
        let mut pos = r.start - 1;
        for (k, n) in &r.cigar {
            match k {
                Kind::Match | Kind::SequenceMatch | Kind::SequenceMismatch => {
                    for _ in 0..*n {
                        let rb = reference[pos];
                        bases.push(match rng.below(12) {
                            0 => *rng.pick(b"ACGT"),           // Substitution (or none)
                            1 => *rng.pick(b"NRYKMn"),         // Substitution to N, or ReadBase for an IUPAC code
                            2 => rb.to_ascii_lowercase(),      // equal up to case: no feature
                            _ => rb,
                        });
                        pos += 1;
                    }
                }
                Kind::Insertion | Kind::SoftClip => {
                    for _ in 0..*n {
                        bases.push(*rng.pick(b"ACGTN"));
                    }
                }
                Kind::Deletion | Kind::Skip => pos += n,
                Kind::HardClip | Kind::Pad => {}
            }
        }
        debug_assert_eq!(bases.len(), r.seq_len);
    } else {
        for _ in 0..r.seq_len {
            bases.push(*rng.pick(b"ACGT"));
        }
    }
    b = b.set_flags(if r.unmapped { Flags::UNMAPPED } else { Flags::empty() });
    if let Some(rid) = r.rid {
        b = b.set_reference_sequence_id(rid).set_alignment_start(Position::try_from(r.start).unwrap());
        if !r.unmapped {
            b = b.set_mapping_quality(MappingQuality::new(30).unwrap());
        }
    }
    if !r.cigar.is_empty() {
        let ops: Vec<sam::alignment::record::cigar::Op> = r.cigar.iter().map(|(k, n)| sam::alignment::record::cigar::Op::new(*k, *n)).collect();
        b = b.set_cigar(Cigar::from(ops));
    }
    let n = bases.len();
    b = b.set_sequence(Sequence::from(bases));
    if n > 0 {
        b = b.set_quality_scores(QualityScores::from(vec![30u8; n]));
    }
    b.build()
}

// ------------------------------------------------------------------ canonical text

fn fmt_rec(r: &MRec) -> String {
    match r.rid {
        Some(rid) => format!("{}:{}:{}:{}", r.serial, rid, r.start, r.end()),
        None => format!("{}:-:0:0", r.serial),
    }
}
fn fmt_recs(rs: &[MRec]) -> String {
    if rs.is_empty() { "-".into() } else { rs.iter().map(fmt_rec).collect::<Vec<_>>().join(";") }
}
fn fmt_file(w: &WFile, recs: &[MRec]) -> String {
    if w.containers.is_empty() {
        return "-".into();
    }
    let mut next = 0;
    w.containers
        .iter()
        .map(|c| {
            let slices = c
                .slices
                .iter()
                .map(|s| {
                    let part = &recs[next..next + s.nrec];
                    next += s.nrec;
                    format!("{}={}", s.size, fmt_recs(part))
                })
                .collect::<Vec<_>>()
                .join("+");
            format!("{}/{}/{}", c.hdr_len, c.ch_len, slices)
        })
        .collect::<Vec<_>>()
        .join("|")
}
fn fmt_opt(x: Option<usize>) -> String {
    x.map(|v| v.to_string()).unwrap_or_else(|| "-".into())
}

fn truth_entries(w: &WFile, recs: &[MRec]) -> Vec<Entry> {
    let mut out = vec![];
    let mut next = 0;
    for c in &w.containers {
        for s in &c.slices {
            let part = &recs[next..next + s.nrec];
            next += s.nrec;
            let mut keys: Vec<i64> = part.iter().map(|r| r.rid.map(|x| x as i64).unwrap_or(-1)).collect();
            keys.sort();
            keys.dedup();
            for k in keys {
                if k < 0 {
                    out.push((-1, 0, 0, c.offset, s.landmark, s.size));
                } else {
                    let on: Vec<&MRec> = part.iter().filter(|r| r.rid == Some(k as usize)).collect();
                    let lo = on.iter().map(|r| r.start).min().unwrap();
                    let hi = on.iter().map(|r| r.end()).max().unwrap();
                    out.push((k, lo, hi - lo + 1, c.offset, s.landmark, s.size));
                }
            }
        }
    }
    out
}

// ------------------------------------------------------------------ the real reader, container level

struct RealRec {
    serial: Option<usize>,
    unmapped: bool,
    rid: Option<usize>,
    start: Option<usize>,
    read_length: usize,
    features: String,
    /// `sam::alignment::Record::alignment_span` of the CRAM record (= `calculate_alignment_span`)
    span: usize,
    /// `sam::alignment::Record::alignment_end` of the CRAM record (= `Record::alignment_end`, what the indexer uses)
    end: Result<Option<usize>, String>,
    cigar: String,
    /// `RecordBuf::alignment_end` after `try_from_alignment_record` (what a scan and the query filter use)
    buf_end: Option<usize>,
}
struct RealSlice {
    recs: Vec<RealRec>,
    /// raw values of the AP data series (external block 5)
    ap: Vec<i32>,
    ap_deltas: bool,
}

fn itf8_all(mut b: &[u8]) -> Result<Vec<i32>, String> {
    let mut out = vec![];
    while !b.is_empty() {
        let b0 = b[0] as u32;
        let need = if b0 < 0x80 { 1 } else if b0 < 0xc0 { 2 } else if b0 < 0xe0 { 3 } else if b0 < 0xf0 { 4 } else { 5 };
        if b.len() < need {
            return Err("truncated ITF8 in the AP block".into());
        }
        let x = |i: usize| b[i] as u32;
        let v: u32 = match need {
            1 => b0,
            2 => ((b0 & 0x7f) << 8) | x(1),
            3 => ((b0 & 0x3f) << 16) | (x(1) << 8) | x(2),
            4 => ((b0 & 0x1f) << 24) | (x(1) << 16) | (x(2) << 8) | x(3),
            _ => ((b0 & 0x0f) << 28) | (x(1) << 20) | (x(2) << 12) | (x(3) << 4) | (x(4) & 0x0f),
        };
        out.push(v as i32);
        b = &b[need..];
    }
    Ok(out)
}

/// `[SoftClip { position: Position(1), bases: [84, 71] }, …]` → the driver's feature list
/// (same syntax as the C07 driver's `fmtFeature`)
fn parse_features_debug(d: &str) -> Option<String> {
    let num_after = |body: &str, key: &str| -> Option<u64> {
        let k = body.find(key)? + key.len();
        let s: String = body[k..].chars().take_while(|c| c.is_ascii_digit()).collect();
        s.parse().ok()
    };
    let list_after = |body: &str, key: &str| -> Option<Vec<u8>> {
        let k = body.find(key)? + key.len();
        let e = body[k..].find(']')? + k;
        let inner = &body[k..e];
        if inner.trim().is_empty() {
            return Some(vec![]);
        }
        inner.split(',').map(|x| x.trim().parse::<u8>().ok()).collect()
    };
    let a = d.rfind(", features: [")? + ", features: [".len();
    let b = d.rfind("], mapping_quality:")?;
    if b < a {
        return None;
    }
    let mut rest = &d[a..b];
    let mut out: Vec<String> = vec![];
    while !rest.trim().is_empty() {
        let open = rest.find(" { ")?;
        let name = rest[..open].trim().trim_start_matches(',').trim();
        let close = rest.find(" }")?;
        let body = &rest[open + 3..close];
        let p = num_after(body, "position: Position(")?;
        let item = match name {
            "Bases" => format!("b{p}:{}", hex(&list_after(body, "bases: [")?)),
            "Scores" => format!("q{p}:{}", hex(&list_after(body, "quality_scores: [")?)),
            "ReadBase" => format!("B{p}:{}:{}", num_after(body, "base: ")?, num_after(body, "quality_score: ")?),
            "Substitution" => format!("X{p}:{}", num_after(body, "code: ")?),
            "Insertion" => format!("I{p}:{}", hex(&list_after(body, "bases: [")?)),
            "Deletion" => format!("D{p}:{}", num_after(body, "len: ")?),
            "InsertBase" => format!("i{p}:{}", num_after(body, "base: ")?),
            "QualityScore" => format!("Q{p}:{}", num_after(body, "quality_score: ")?),
            "ReferenceSkip" => format!("N{p}:{}", num_after(body, "len: ")?),
            "SoftClip" => format!("S{p}:{}", hex(&list_after(body, "bases: [")?)),
            "Padding" => format!("P{p}:{}", num_after(body, "len: ")?),
            "HardClip" => format!("H{p}:{}", num_after(body, "len: ")?),
            _ => return None,
        };
        out.push(item);
        rest = &rest[close + 2..];
    }
    Some(if out.is_empty() { "-".into() } else { out.join(",") })
}

fn kind_char(k: Kind) -> char {
    match k {
        Kind::Match => 'M',
        Kind::Insertion => 'I',
        Kind::Deletion => 'D',
        Kind::Skip => 'N',
        Kind::SoftClip => 'S',
        Kind::HardClip => 'H',
        Kind::Pad => 'P',
        Kind::SequenceMatch => '=',
        Kind::SequenceMismatch => 'X',
    }
}

fn read_slices(bytes: &[u8], repo: &fasta::Repository) -> Result<Vec<RealSlice>, String> {
    use sam::alignment::Record as _;
    let r = guarded(|| -> std::io::Result<Vec<RealSlice>> {
        let bad = |m: &str| std::io::Error::other(m.to_string());
        let mut rd = cram::io::reader::Builder::default().set_reference_sequence_repository(repo.clone()).build_from_reader(bytes);
        let header = rd.read_header()?;
        let mut container = cram::io::reader::Container::default();
        let mut out = vec![];
        while rd.read_container(&mut container)? != 0 {
            let ch = container.compression_header()?;
            // the preservation map is crate-private: its AP flag is read off the Debug rendering
            let ap_deltas = {
                let d = format!("{ch:?}");
                if d.contains("alignment_starts_are_deltas: true") {
                    true
                } else if d.contains("alignment_starts_are_deltas: false") {
                    false
                } else {
                    return Err(bad("no alignment_starts_are_deltas in the Debug rendering of the compression header"));
                }
            };
            for slice in container.slices() {
                let slice = slice?;
                let (core, ext) = slice.decode_blocks()?;
                let ap = match ext.iter().find(|(id, _)| *id == AP_BLOCK) {
                    Some((_, b)) => itf8_all(b).map_err(|e| bad(&e))?,
                    None => vec![],
                };
                let recs = slice.records(repo.clone(), &header, &ch, &core, &ext)?;
                let mut v = vec![];
                for r in &recs {
                    let d = format!("{r:?}");
                    let features = parse_features_debug(&d).ok_or_else(|| bad("cannot parse the Debug rendering of the features"))?;
                    let read_length = {
                        let key = ", read_length: ";
                        let k = d.find(key).ok_or_else(|| bad("no read_length in Debug"))? + key.len();
                        d[k..].chars().take_while(|c| c.is_ascii_digit()).collect::<String>().parse::<usize>().map_err(|_| bad("read_length"))?
                    };
                    let ops: Vec<String> = r.cigar().iter().map(|o| o.map(|o| format!("{}{}", o.len(), kind_char(o.kind())))).collect::<std::io::Result<_>>()?;
                    let span = match r.alignment_span() {
                        Some(x) => x?,
                        None => return Err(bad("cram::Record::alignment_span returned None")),
                    };
                    // the only call that can panic on its own (usize arithmetic): keep the class
                    let end = guarded(|| r.alignment_end().transpose().map(|p| p.map(usize::from))).map(|x| x.map_err(|e| e.to_string()));
                    let end = match end {
                        Ok(Ok(e)) => Ok(e),
                        Ok(Err(e)) => Err(format!("err: {e}")),
                        Err(_) => Err("panic".to_string()),
                    };
                    let buf = RecordBuf::try_from_alignment_record(&header, r)?;
                    v.push(RealRec {
                        serial: serial_of(r.name()),
                        unmapped: r.flags()?.is_unmapped(),
                        rid: r.reference_sequence_id(&header).transpose()?,
                        start: r.alignment_start().transpose()?.map(usize::from),
                        read_length,
                        features,
                        span,
                        end,
                        cigar: if ops.is_empty() { "*".into() } else { ops.concat() },
                        buf_end: buf.alignment_end().map(usize::from),
                    });
                }
                out.push(RealSlice { recs: v, ap, ap_deltas });
            }
        }
        Ok(out)
    });
    match r {
        Ok(Ok(v)) => Ok(v),
        Ok(Err(e)) => Err(format!("{}: {e}", errclass(&e))),
        Err(p) => Err(format!("panic: {p}")),
    }
}

// ------------------------------------------------------------------ queries

type Q = (Option<usize>, Option<usize>);
type SyncReader = cram::io::Reader<std::fs::File>;

fn region_of(rid: usize, q: Q) -> Region {
    let name = format!("sq{rid}");
    let p = |n: usize| Position::try_from(n).unwrap();
    match q {
        (Some(s), Some(e)) => Region::new(name, p(s)..=p(e)),
        (Some(s), None) => Region::new(name, p(s)..),
        (None, Some(e)) => Region::new(name, ..=p(e)),
        (None, None) => Region::new(name, ..),
    }
}

fn gen_queries(rng: &mut Rng, ref_len: usize, on_ref: &[&MRec]) -> Vec<Q> {
    let mut qs: Vec<Q> = vec![(None, None), (Some(1), Some(1)), (Some(ref_len), Some(ref_len))];
    for _ in 0..5 {
        if on_ref.is_empty() {
            break;
        }
        let r = *rng.pick(on_ref);
        let e = r.end();
        qs.push(match rng.below(7) {
            0 => (Some(r.start), Some(r.start)),
            1 => (Some(e), Some(e)),
            2 => (Some(e + 1), Some(e + 1 + rng.below(6) as usize)),
            3 if r.start > 1 => (Some(r.start.saturating_sub(1 + rng.below(5) as usize).max(1)), Some(r.start - 1)),
            4 => (Some((r.start + e) / 2), None),
            5 => (None, Some((r.start + e) / 2)),
            _ => (Some(e), None),
        });
    }
    for _ in 0..2 {
        let a = 1 + rng.below(ref_len as u64) as usize;
        let b = 1 + rng.below(ref_len as u64) as usize;
        qs.push((Some(a.min(b)), Some(a.max(b))));
    }
    qs
}

fn scan_filter(recs: &[MRec], rid: usize, q: Q) -> Vec<usize> {
    let (qs, qe) = (q.0.unwrap_or(1), q.1.unwrap_or(usize::MAX));
    recs.iter().filter(|r| r.rid == Some(rid) && r.start <= qe && qs <= r.end()).map(|r| r.serial).collect()
}

fn collect_serials(it: impl Iterator<Item = std::io::Result<RecordBuf>>) -> std::io::Result<Vec<usize>> {
    let mut out = vec![];
    for r in it {
        let r = r?;
        out.push(serial_of(r.name()).ok_or_else(|| std::io::Error::other("unnamed record"))?);
    }
    Ok(out)
}

fn flat<T>(r: Result<std::io::Result<T>, String>) -> Result<T, String> {
    match r {
        Ok(Ok(v)) => Ok(v),
        Ok(Err(e)) => Err(format!("{}: {e}", errclass(&e))),
        Err(p) => Err(format!("panic: {p}")),
    }
}

fn sync_query(rd: &mut SyncReader, header: &sam::Header, index: &crai::Index, region: &Region) -> Result<Vec<usize>, String> {
    flat(guarded(|| -> std::io::Result<Vec<usize>> {
        let q = rd.query(header, index, region)?;
        collect_serials(q.records())
    }))
}

fn sync_query_unmapped(rd: &mut SyncReader, header: &sam::Header, index: &crai::Index) -> Result<Vec<usize>, String> {
    flat(guarded(|| -> std::io::Result<Vec<usize>> {
        let q = rd.query_unmapped(header, index)?;
        collect_serials(q)
    }))
}

fn async_query_unmapped(bytes: &[u8], repo: &fasta::Repository, index: &crai::Index) -> Result<Vec<usize>, String> {
    use futures::TryStreamExt;
    flat(guarded(|| {
        crate::adversary::block_on(async {
            let mut rd = cram::r#async::io::reader::Builder::default().set_reference_sequence_repository(repo.clone()).build_from_reader(std::io::Cursor::new(bytes.to_vec()));
            let header = rd.read_header().await?;
            let q = rd.query_unmapped(&header, index).await?;
            let recs: Vec<RecordBuf> = q.try_collect().await?;
            recs.iter().map(|r| serial_of(r.name()).ok_or_else(|| std::io::Error::other("unnamed record"))).collect::<std::io::Result<Vec<usize>>>()
        })
    }))
}

fn answer_text(got: &Result<Vec<usize>, String>) -> String {
    match got {
        Ok(v) => format!("recs={}", fmt_ids(v)),
        Err(e) if e.starts_with("panic") => "panic".into(),
        Err(e) => e.split(':').take(2).collect::<Vec<_>>().join(":"),
    }
}

fn is_subsequence(a: &[usize], b: &[usize]) -> bool {
    let mut it = b.iter();
    a.iter().all(|x| it.any(|y| y == x))
}

// ------------------------------------------------------------------ one case

fn run_case(ctx: &mut Ctx, case: &Case) {
    let dir = work_dir();
    std::fs::create_dir_all(&dir).ok();
    let tag = case.id.replace(' ', "-");
    let path = format!("{dir}/{tag}.cram");
    let repo = repository(case);
    let header = sam_header(case);
    let id = &case.id;
    ctx.bump(if case.ap_delta { "more:alignment_starts_as_deltas" } else { "more:alignment_starts_absolute" });
    ctx.bump_by("more:records", case.recs.len() as u64);
    for r in &case.recs {
        ctx.bump(&format!("more:record_{}", r.kind()));
        for (k, n) in &r.cigar {
            ctx.bump(&format!("more:cigar_op_{}{}", kind_char(*k), if *n == 1 { "_len1" } else { "" }));
        }
    }

    // ---- write with the real writer
    let wr = guarded(|| -> std::io::Result<()> {
        let b = cram::io::writer::Builder::default().set_reference_sequence_repository(repo.clone()).encode_alignment_start_positions_as_deltas(case.ap_delta);
        let f = std::fs::File::create(&path)?;
        let mut w = if case.rps == DEFAULT_RPS && case.spc == 1 { b.build_from_writer(f) } else { b.verif_build_from_writer_with_layout(f, case.rps, case.spc) };
        w.write_header(&header)?;
        for r in &case.recs {
            w.write_alignment_record(&header, &to_record_buf(case, r))?;
        }
        w.try_finish(&header)
    });
    match wr {
        Ok(Ok(())) => {}
        Ok(Err(e)) if e.kind() == std::io::ErrorKind::InvalidInput && e.to_string().contains("invalid slice reference sequence context") => {
            ctx.bump("more:writer_refused_mixed_container");
            let _ = std::fs::remove_file(&path);
            return;
        }
        Ok(Err(e)) if e.kind() == std::io::ErrorKind::InvalidInput && case.recs.iter().any(|r| r.start > i32::MAX as usize) => {
            // an alignment start that does not fit the AP series: the one slice of the (hand-written)
            // case is multi-reference, its register starts absent
            ctx.bump("more:writer_refused_start_beyond_i32");
            let starts = case.recs.iter().map(|r| r.start.to_string()).collect::<Vec<_>>().join(",");
            ctx.corr(format!("c19 ap {} - {starts}", case.ap_delta as u8), errclass(&e).into());
            let _ = std::fs::remove_file(&path);
            return;
        }
        Ok(Err(e)) => {
            ctx.fail("more-cram-write", format!("writing a sorted stream of {} records failed: {e}", case.recs.len()), id.clone());
            return;
        }
        Err(p) => {
            ctx.fail("more-cram-write", format!("the writer panicked: {p}"), id.clone());
            return;
        }
    }
    let bytes = std::fs::read(&path).unwrap();
    let w = match walk(&bytes) {
        Ok(w) => w,
        Err(e) => {
            ctx.fail("more-cram-layout", format!("the written file does not parse as containers/blocks: {e}"), id.clone());
            return;
        }
    };
    let total: usize = w.containers.iter().flat_map(|c| c.slices.iter()).map(|s| s.nrec).sum();
    if total != case.recs.len() || !w.eof_marker {
        ctx.fail("more-cram-layout", format!("{} records written, slice headers count {total}; EOF container present: {}", case.recs.len(), w.eof_marker), id.clone());
        return;
    }
    let wslices: Vec<&super::c19::WSlice> = w.containers.iter().flat_map(|c| c.slices.iter()).collect();
    let many = wslices.iter().filter(|s| s.ctx.0 == -2).count();
    ctx.bump_by("more:slices", wslices.len() as u64);
    ctx.bump_by("more:slices_multi_reference", many as u64);
    ctx.bump_by("more:slices_unmapped_only", wslices.iter().filter(|s| s.ctx.0 == -1).count() as u64);
    ctx.bump_by("more:containers", w.containers.len() as u64);
    let file_txt = fmt_file(&w, &case.recs);
    let truth = truth_entries(&w, &case.recs);

    // ---- (1) + (4): the real reader at the slice level: features, spans, ends, CIGARs, the AP series
    let slices = match read_slices(&bytes, &repo) {
        Ok(s) => s,
        Err(e) => {
            ctx.fail("more-cram-read", format!("container-level read of the file failed: {e}"), id.clone());
            return;
        }
    };
    if slices.len() != wslices.len() || slices.iter().zip(&wslices).any(|(a, b)| a.recs.len() != b.nrec) {
        ctx.fail("more-cram-read", "the reader's slices differ from the walker's".into(), id.clone());
        return;
    }
    let mut next = 0usize;
    for (sl, ws) in slices.iter().zip(&wslices) {
        let part = &case.recs[next..next + sl.recs.len()];
        next += sl.recs.len();
        // -- alignment starts: raw series and decoded values
        let init = if ws.ctx.0 >= 0 { Some(ws.ctx.1 as usize) } else { None };
        let written: Vec<Option<usize>> = part.iter().map(|r| if r.start > 0 { Some(r.start) } else { None }).collect();
        let decoded: Vec<Option<usize>> = sl.recs.iter().map(|r| r.start).collect();
        let show = |v: &[Option<usize>]| if v.is_empty() { "-".to_string() } else { v.iter().map(|x| x.unwrap_or(0).to_string()).collect::<Vec<_>>().join(",") };
        let vals = if sl.ap.is_empty() { "-".to_string() } else { sl.ap.iter().map(|v| v.to_string()).collect::<Vec<_>>().join(",") };
        ctx.corr(format!("c19 ap {} {} {}", sl.ap_deltas as u8, fmt_opt(init), show(&written)), format!("vals={vals} starts={}", show(&decoded)));
        ctx.eval(if part.len() >= 2 { Some(fnv(format!("{id} ap {next}").as_bytes())) } else { None });
        ctx.bump(&format!("more:ap_slice_{}_{}", if sl.ap_deltas { "deltas" } else { "absolute" }, match ws.ctx.0 { -2 => "many", -1 => "none", _ => "some" }));
        if sl.ap.iter().any(|v| *v < 0) {
            ctx.bump("more:ap_negative_delta");
        }
        if sl.ap.iter().any(|v| *v == 0) {
            ctx.bump("more:ap_zero_value");
        }
        if sl.ap_deltas != case.ap_delta {
            ctx.fail("more-ap-mode", format!("the compression header says deltas={}, the writer was asked for {}", sl.ap_deltas, case.ap_delta), id.clone());
        }
        if decoded != written {
            ctx.fail("more-ap-roundtrip", format!("alignment starts of a slice read back as {decoded:?}, written {written:?} (series {:?}, slice context {:?})", sl.ap, ws.ctx), id.clone());
        }
        if sl.ap.len() != part.len() {
            ctx.fail("more-ap-roundtrip", format!("{} AP values for {} records", sl.ap.len(), part.len()), id.clone());
        }
        // -- per record: span / end / CIGAR
        for (x, r) in sl.recs.iter().zip(part) {
            let end_txt = match &x.end {
                Ok(e) => fmt_opt(*e),
                Err(e) if e == "panic" => "panic".into(),
                Err(_) => "err".into(),
            };
            ctx.corr(
                format!("c19 span {} {} {} {}", x.unmapped as u8, fmt_opt(x.start), x.read_length, x.features),
                format!("span={} end={} cigar={} bufend={}", x.span, end_txt, x.cigar, fmt_opt(x.buf_end)),
            );
            ctx.eval(if x.features != "-" { Some(fnv(format!("{} {} {}", x.read_length, x.features, x.unmapped).as_bytes())) } else { None });
            for item in x.features.split(',') {
                if let Some(c) = item.chars().next() {
                    if c != '-' {
                        ctx.bump(&format!("more:feature_{}", match c { 'b' => "Bases", 'q' => "Scores", 'B' => "ReadBase", 'X' => "Substitution", 'I' => "Insertion", 'D' => "Deletion", 'i' => "InsertBase", 'Q' => "QualityScore", 'N' => "ReferenceSkip", 'S' => "SoftClip", 'P' => "Padding", 'H' => "HardClip", _ => "other" }));
                    }
                }
            }
            if x.features == "-" {
                ctx.bump("more:record_without_features");
            }
            if x.serial != Some(r.serial) || x.rid != r.rid || x.unmapped != r.unmapped {
                ctx.fail("more-cram-read", format!("record {} read back as serial {:?} rid {:?} unmapped {}", r.serial, x.serial, x.rid, x.unmapped), id.clone());
                continue;
            }
            if r.placed() {
                let want = Some(r.end());
                // what the scan (and the query filter) sees
                if x.buf_end != want {
                    ctx.fail("more-scan-end", format!("r{} ({}, start {}, CIGAR {:?}, {} bases): a scan sees end {:?}, the record covers up to {}", r.serial, r.kind(), r.start, x.cigar, r.seq_len, x.buf_end, r.end()), id.clone());
                }
                // what the indexer's multi-reference path uses
                if x.end != Ok(want) {
                    ctx.fail(
                        "record-end-disagrees-with-scan",
                        format!("r{} ({}, start {}, read length {}, features {}): cram::Record::alignment_end = {:?}, a scan of the same record sees {:?}", r.serial, r.kind(), r.start, x.read_length, x.features, x.end, x.buf_end),
                        id.clone(),
                    );
                }
                // the span computed from the features = the reference length of the rebuilt CIGAR
                if !r.unmapped && x.span != r.ref_span() {
                    ctx.fail("more-feature-span", format!("r{}: span from the features {} but the CIGAR {:?} covers {}", r.serial, x.span, x.cigar, r.ref_span()), id.clone());
                }
            }
        }
    }

    // ---- (2) cram::fs::index vs the walker-derived entries
    ctx.eval(if wslices.len() >= 2 || many >= 1 { Some(fnv(format!("{id} index").as_bytes())) } else { None });
    // records whose end is not `start + span - 1` (the subject of the `record-alignment-end` repair)
    let special = case.recs.iter().any(|r| matches!(r.kind(), "placed_unmapped" | "mapped_zero_span" | "mapped_no_bases"));
    let real_index: Option<crai::Index> = match guarded(|| cram::fs::index(&path)) {
        Ok(Ok(ix)) => {
            let got: Vec<Entry> = ix.iter().map(entry_of).collect();
            ctx.corr(format!("c19 index {} {file_txt}", w.start), fmt_entries(&got));
            let (mut a, mut b) = (got.clone(), truth.clone());
            a.sort();
            b.sort();
            if a != b {
                let missing: Vec<_> = b.iter().filter(|e| !a.contains(e)).collect();
                let extra: Vec<_> = a.iter().filter(|e| !b.contains(e)).collect();
                ctx.fail(
                    if special && many > 0 { "crai-entry-span-record-end" } else { "crai-entry" },
                    format!("cram::fs::index entries differ from the file's slices (ref:start:span:offset:landmark:size): missing {missing:?}, unexpected {extra:?}"),
                    id.clone(),
                );
            }
            Some(ix)
        }
        Ok(Err(e)) => {
            ctx.corr(format!("c19 index {} {file_txt}", w.start), errclass(&e).into());
            ctx.fail("crai-index-error", format!("cram::fs::index failed: {e}"), id.clone());
            None
        }
        Err(p) => {
            ctx.corr(format!("c19 index {} {file_txt}", w.start), "panic".into());
            let class = if special && many > 0 && (p.contains("unhandled interval") || p.contains("subtract with overflow")) { "crai-index-panic-record-end" } else { "crai-index-panic" };
            ctx.fail(class, format!("cram::fs::index panicked ({p}); the file has {many} multi-reference slice(s)"), id.clone());
            None
        }
    };
    let walker_index: crai::Index = truth.iter().map(record_of).collect();

    // ---- region queries (sync) through the real index, else the walker's
    let mut shared: SyncReader = match cram::io::reader::Builder::default().set_reference_sequence_repository(repo.clone()).build_from_path(&path) {
        Ok(r) => r,
        Err(e) => {
            ctx.fail("more-cram-read", format!("cannot reopen the file: {e}"), id.clone());
            return;
        }
    };
    let hdr = match flat(guarded(|| shared.read_header())) {
        Ok(h) => h,
        Err(e) => {
            ctx.fail("more-cram-read", format!("read_header failed: {e}"), id.clone());
            return;
        }
    };
    let qindex = real_index.as_ref().unwrap_or(&walker_index);
    let mut qrng = Rng::new(case.seed ^ 0x0dd5_eed5);
    let mut reported = std::collections::BTreeSet::new();
    for rid in 0..case.nref {
        let on_ref: Vec<&MRec> = case.recs.iter().filter(|r| r.rid == Some(rid)).collect();
        for q in gen_queries(&mut qrng, case.ref_len, &on_ref) {
            let expect = scan_filter(&case.recs, rid, q);
            let got = sync_query(&mut shared, &hdr, qindex, &region_of(rid, q));
            let (qs, qe) = (q.0.unwrap_or(1), q.1.unwrap_or(usize::MAX));
            ctx.eval(if on_ref.len() >= 2 { Some(fnv(format!("{id} q {rid} {qs} {qe}").as_bytes())) } else { None });
            ctx.bump(if expect.is_empty() { "more:queries_hitting_nothing" } else { "more:queries_with_hits" });
            ctx.corr(format!("c19 query {} {file_txt} {rid} {qs} {qe}", w.start), answer_text(&got));
            if got.as_ref().ok() != Some(&expect) && reported.insert("q") {
                let class = match &got {
                    Err(_) => "more-query-error",
                    Ok(_) => "more-query-mismatch",
                };
                ctx.fail(class, format!("query sq{rid}:{qs}-{qe} returned {got:?}, a full scan keeps {expect:?}"), id.clone());
            }
        }
    }

    // ---- (3) query_unmapped
    let flagged: Vec<usize> = case.recs.iter().filter(|r| r.unmapped).map(|r| r.serial).collect();
    let unplaced: Vec<usize> = case.recs.iter().filter(|r| r.rid.is_none() && r.unmapped).map(|r| r.serial).collect();
    // the first container that holds an unplaced record, and whether a PLACED unmapped read sits in
    // it or after it (then the answer may legitimately-by-the-code contain that read: the quirk)
    let mut tail_has_placed_unmapped = false;
    {
        let mut next = 0usize;
        let mut in_tail = false;
        for c in &w.containers {
            let n: usize = c.slices.iter().map(|s| s.nrec).sum();
            let part = &case.recs[next..next + n];
            next += n;
            if part.iter().any(|r| r.rid.is_none()) {
                in_tail = true;
            }
            if in_tail && part.iter().any(|r| r.placed() && r.unmapped) {
                tail_has_placed_unmapped = true;
            }
        }
    }
    ctx.bump(if unplaced.is_empty() { "more:qunm_file_without_unplaced" } else { "more:qunm_file_with_unplaced" });
    if tail_has_placed_unmapped {
        ctx.bump("more:qunm_placed_unmapped_in_tail_container");
    }
    let check_unmapped = |ctx: &mut Ctx, how: &str, got: &Result<Vec<usize>, String>| match got {
        Err(e) => ctx.fail(
            if unplaced.is_empty() && e.starts_with("err:eof") { "query-unmapped-error-no-unplaced" } else { "query-unmapped-error" },
            format!("query_unmapped ({how}) failed: {e}; the file has {} unplaced record(s)", unplaced.len()),
            id.clone(),
        ),
        Ok(v) => {
            let only_unplaced: Vec<usize> = v.iter().copied().filter(|s| unplaced.contains(s)).collect();
            if only_unplaced != unplaced {
                ctx.fail("query-unmapped-incomplete", format!("query_unmapped ({how}) returned {v:?}; the unplaced unmapped records of the file are {unplaced:?}"), id.clone());
            } else if v.iter().any(|s| !flagged.contains(s)) {
                ctx.fail("query-unmapped-mapped-record", format!("query_unmapped ({how}) returned a record that is not flagged unmapped: {v:?}"), id.clone());
            } else if !is_subsequence(v, &(0..case.recs.len()).collect::<Vec<_>>()) {
                ctx.fail("query-unmapped-order", format!("query_unmapped ({how}) answer is not in file order / repeats a record: {v:?}"), id.clone());
            } else if !tail_has_placed_unmapped && *v != unplaced {
                ctx.fail("query-unmapped-extra", format!("query_unmapped ({how}) returned {v:?}; no placed read shares the tail containers, expected exactly {unplaced:?}"), id.clone());
            } else if *v != unplaced {
                ctx.bump("more:qunm_answer_includes_placed_unmapped");
            }
        }
    };
    let fl = fmt_ids(&flagged);
    // (a) through the file's own index
    if let Some(ix) = &real_index {
        let got = sync_query_unmapped(&mut shared, &hdr, ix);
        ctx.eval(if !unplaced.is_empty() { Some(fnv(format!("{id} qunm").as_bytes())) } else { None });
        ctx.corr(format!("c19 qunm {} {file_txt} {fl} own", w.start), answer_text(&got));
        check_unmapped(ctx, "own index", &got);
        let got = async_query_unmapped(&bytes, &repo, ix);
        ctx.eval(None);
        ctx.bump("more:qunm_async");
        check_unmapped(ctx, "async, own index", &got);
    }
    // (b) through the walker's index (same entries; keeps this half observable if the indexer fails)
    {
        let got = sync_query_unmapped(&mut shared, &hdr, &walker_index);
        ctx.eval(None);
        ctx.corr(format!("c19 qunm {} {file_txt} {fl} {}", w.start, fmt_entries(&truth)), answer_text(&got));
        check_unmapped(ctx, "walker index", &got);
    }
    // (c) crafted indexes: the model must predict the answer; the oracle says nothing (not the file's index)
    let mut crafted: Vec<(&str, Vec<Entry>)> = vec![];
    crafted.push(("reversed", truth.iter().rev().cloned().collect()));
    crafted.push(("no_unmapped_entry", truth.iter().filter(|e| e.0 >= 0).cloned().collect()));
    if let (Some(first), Some(un)) = (w.containers.first(), truth.iter().find(|e| e.0 < 0)) {
        // the unmapped entry claims the first container
        let mut v = truth.clone();
        let k = v.iter().position(|e| e.0 < 0).unwrap();
        v[k] = (-1, 0, 0, first.offset, un.4, un.5);
        crafted.push(("unmapped_entry_at_first_container", v));
        // a second unmapped entry, for the LAST container, put first
        let last = w.containers.last().unwrap();
        let mut v = truth.clone();
        v.insert(0, (-1, 0, 0, last.offset, last.slices[0].landmark, last.slices[0].size));
        crafted.push(("extra_unmapped_entry_first", v));
    }
    if let Some(last) = w.containers.last() {
        // the only unmapped entry names the EOF container: a container header is read, nothing follows
        let mut v: Vec<Entry> = truth.iter().filter(|e| e.0 >= 0).cloned().collect();
        v.push((-1, 0, 0, last.offset + last.hdr_len + last.body_len, 0, 0));
        crafted.push(("unmapped_entry_at_eof_container", v));
    }
    crafted.push(("empty", vec![]));
    for (name, es) in crafted {
        let ix: crai::Index = es.iter().map(record_of).collect();
        let got = sync_query_unmapped(&mut shared, &hdr, &ix);
        ctx.eval(None);
        ctx.bump(&format!("more:qunm_crafted_{name}"));
        ctx.corr(format!("c19 qunm {} {file_txt} {fl} {}", w.start, fmt_entries(&es)), answer_text(&got));
    }

    let _ = std::fs::remove_file(&path);
    ctx.bump("more:files");
    if case.seed % 16 == 0 {
        ctx.sample(|| format!("{id}: {} refs of {} bp, {} records, rps {} spc {} -> {}", case.nref, case.ref_len, case.recs.len(), case.rps, case.spc, fmt_layout(&w)));
    }
}

// ------------------------------------------------------------------ hostile AP series

fn itf8_at(b: &[u8], p: &mut usize) -> Option<i32> {
    let b0 = *b.get(*p)? as u32;
    let need = if b0 < 0x80 { 1 } else if b0 < 0xc0 { 2 } else if b0 < 0xe0 { 3 } else if b0 < 0xf0 { 4 } else { 5 };
    let v = itf8_all(b.get(*p..*p + need)?).ok()?;
    *p += need;
    v.first().copied()
}

/// the 5-byte ITF8 form holds every 32-bit value (it is not canonical for small ones; the reader
/// goes by the first byte)
fn itf8_5(v: i32) -> [u8; 5] {
    let u = v as u32;
    [0xf0 | ((u >> 28) & 0x0f) as u8, (u >> 20) as u8, (u >> 12) as u8, (u >> 4) as u8, (u & 0x0f) as u8]
}

/// (offset of the data, length) of the raw external block `cid` among the blocks of a container body
fn find_raw_block(bytes: &[u8], body: usize, body_len: usize, cid: i32) -> Option<(usize, usize, usize)> {
    let mut p = body;
    while p < body + body_len {
        let p0 = p;
        let method = *bytes.get(p)?;
        let ctype = *bytes.get(p + 1)?;
        p += 2;
        let id = itf8_at(bytes, &mut p)?;
        let csize = itf8_at(bytes, &mut p)? as usize;
        let _rsize = itf8_at(bytes, &mut p)?;
        let d0 = p;
        p += csize + 4;
        if ctype == 4 && id == cid && method == 0 {
            return Some((p0, d0, csize));
        }
    }
    None
}

/// A MALFORMED STREAM for `read_alignment_start`: one multi-reference slice of unmapped reads placed
/// beyond 2^28 in descending order (so every AP value, absolute or delta, is stored in the 5-byte ITF8
/// form and can be overwritten in place by ANY i32), AP block stored raw; the block's CRC32 is
/// recomputed. The real reader's decoded starts / error class vs `apDecode`.
fn hostile_ap(ctx: &mut Ctx, sub: u64) {
    let mut rng = Rng::new(sub ^ 0xa9_de17a);
    let id = format!("moreap {sub}");
    let deltas = rng.chance(2, 3);
    let n = rng.range(2, 5) as usize;
    let mut start = 400_000_000usize + rng.below(1_000_000) as usize;
    let mut recs = vec![];
    for i in 0..n {
        recs.push(MRec { serial: i, rid: Some(if i < n / 2 { 0 } else { 1 }), start, unmapped: true, cigar: vec![], seq_len: 4 });
        start -= 1 + rng.below(2_000_000) as usize;
    }
    // unsorted on purpose: descending starts
    let case = Case { id: id.clone(), nref: 2, ref_len: 40, recs, rps: n, spc: 1, ap_delta: deltas, seed: sub, hdr_ref_len: Some(2_147_483_647) };
    let repo = repository(&case);
    let header = sam_header(&case);
    let wr = flat(guarded(|| -> std::io::Result<Vec<u8>> {
        use cram::container::compression_header::data_series_encodings::DataSeries;
        let map = cram::container::BlockContentEncoderMap::builder().set_data_series_encoder(DataSeries::AlignmentStarts, None).build();
        let b = cram::io::writer::Builder::default().set_reference_sequence_repository(repo.clone()).encode_alignment_start_positions_as_deltas(deltas).set_block_content_encoder_map(map);
        let mut w = b.verif_build_from_writer_with_layout(Vec::new(), n, 1);
        w.write_header(&header)?;
        for r in &case.recs {
            w.write_alignment_record(&header, &to_record_buf(&case, r))?;
        }
        w.try_finish(&header)?;
        Ok(w.get_ref().clone())
    }));
    let bytes = match wr {
        Ok(b) => b,
        Err(e) => {
            ctx.fail("more-cram-write", format!("writing {n} placed unmapped reads beyond 2^28 failed: {e}"), id);
            return;
        }
    };
    let Ok(w) = walk(&bytes) else {
        ctx.fail("more-cram-layout", "the written file does not parse".into(), id);
        return;
    };
    let c = &w.containers[0];
    let Some((blk, d0, len)) = find_raw_block(&bytes, c.offset + c.hdr_len, c.body_len, AP_BLOCK) else {
        ctx.fail("more-cram-layout", "no raw AP block in the container".into(), id);
        return;
    };
    let original = itf8_all(&bytes[d0..d0 + len]).unwrap_or_default();
    if len != 5 * n || original.len() != n || c.slices.len() != 1 || c.slices[0].ctx.0 != -2 {
        ctx.fail("more-cram-layout", format!("AP block of {len} bytes for {n} records (values {original:?}), slice context {:?}", c.slices[0].ctx), id);
        return;
    }
    for round in 0..4 {
        // the register before each value, following the ORIGINAL stream up to the first change
        let mut vals = original.clone();
        if round > 0 {
            let k = rng.below(n as u64) as usize;
            let prev: i64 = if deltas { if k == 0 { 0 } else { case.recs[k - 1].start as i64 } } else { 0 };
            vals[k] = match rng.below(10) {
                0 => (-prev) as i32,                                   // lands on 0: no alignment start
                1 => (-prev - 1) as i32,                               // one below
                2 => (i32::MAX as i64 - prev) as i32,                  // lands on i32::MAX
                3 => ((i32::MAX as i64 - prev + 1).min(i32::MAX as i64)) as i32, // one above: overflow (deltas)
                4 => i32::MIN,
                5 => i32::MAX,
                6 => -1,
                7 => 0,
                8 => 1 + rng.below(1000) as i32,
                _ => rng.next() as i32,
            };
            if rng.chance(1, 4) {
                let k2 = rng.below(n as u64) as usize;
                vals[k2] = *rng.pick(&[0, -1, 1, i32::MIN, i32::MAX, 5]);
            }
        }
        let mut patched = bytes.clone();
        for (i, v) in vals.iter().enumerate() {
            patched[d0 + 5 * i..d0 + 5 * i + 5].copy_from_slice(&itf8_5(*v));
        }
        let crc = crc32(&patched[blk..d0 + len]);
        patched[d0 + len..d0 + len + 4].copy_from_slice(&crc.to_le_bytes());
        // which branch of `read_alignment_start` the values must take (the harness's own arithmetic)
        {
            let mut reg: i64 = 0;
            let mut branch = "all_decoded";
            for v in &vals {
                let x = if deltas { reg + *v as i64 } else { *v as i64 };
                if deltas && (x > i32::MAX as i64 || x < i32::MIN as i64) {
                    branch = "checked_add_overflow";
                    break;
                }
                if x < 0 {
                    branch = "negative_start";
                    break;
                }
                reg = x;
            }
            ctx.bump(&format!("more:apdec_expect_{}_{branch}", if deltas { "deltas" } else { "absolute" }));
        }
        let got = read_slices(&patched, &repo);
        let req = format!("c19 apdec {} - {}", deltas as u8, vals.iter().map(|v| v.to_string()).collect::<Vec<_>>().join(","));
        ctx.eval(Some(fnv(req.as_bytes())));
        match got {
            Ok(sl) => {
                let starts: Vec<String> = sl.iter().flat_map(|s| s.recs.iter()).map(|r| r.start.unwrap_or(0).to_string()).collect();
                ctx.bump(if round == 0 { "more:apdec_unchanged" } else { "more:apdec_accepted" });
                if starts.iter().any(|s| s == "0") {
                    ctx.bump("more:apdec_start_absent");
                }
                ctx.corr(req, format!("starts={}", starts.join(",")));
            }
            Err(e) if e.starts_with("panic") => {
                ctx.corr(req, "panic".into());
                ctx.fail("more-ap-hostile-panic", format!("the reader panicked on AP values {vals:?}: {e}"), id.clone());
            }
            Err(e) => {
                ctx.bump(&format!("more:apdec_{}", e.split(':').take(2).collect::<Vec<_>>().join(":")));
                ctx.corr(req, e.split(':').take(2).collect::<Vec<_>>().join(":"));
            }
        }
    }
    ctx.bump("more:apdec_files");
}

// ------------------------------------------------------------------ hostile feature positions

/// `DataSeries::FeaturePositionDeltas` → block content id
const FP_BLOCK: i32 = 16;

/// the feature list with the positions replaced (`S1:4e47,X7:0` + [3, 9] → `S3:4e47,X9:0`)
fn with_positions(features: &str, pos: &[usize]) -> String {
    features
        .split(',')
        .zip(pos)
        .map(|(item, p)| {
            let tag = &item[..1];
            let rest = &item[1..];
            let colon = rest.find(':').unwrap_or(rest.len());
            format!("{tag}{p}{}", &rest[colon..])
        })
        .collect::<Vec<_>>()
        .join(",")
}

/// A MALFORMED STREAM for `validate_features`: one mapped record with a rich CIGAR, the FP series
/// (feature position deltas) stored raw and overwritten in place (1-byte ITF8 values, CRC32
/// recomputed): features that overlap, run backwards, repeat a position or leave the read. The real
/// reader's verdict (record accepted / InvalidData) vs `featuresValid`; an accepted record is also
/// sent through `c19 span`.
fn hostile_fp(ctx: &mut Ctx, sub: u64) {
    let mut rng = Rng::new(sub ^ 0xf9_0517);
    let id = format!("morefp {sub}");
    let start = 1 + rng.below(20) as usize;
    let span = 8 + rng.below(50) as usize;
    let cigar = gen_cigar(&mut rng, span);
    let n = cigar_read_len(&cigar);
    let rec = MRec { serial: 0, rid: Some(0), start, unmapped: false, cigar, seq_len: n };
    let case = Case { id: id.clone(), nref: 1, ref_len: 300, recs: vec![rec], rps: 1, spc: 1, ap_delta: true, seed: sub, hdr_ref_len: None };
    let repo = repository(&case);
    let header = sam_header(&case);
    let wr = flat(guarded(|| -> std::io::Result<Vec<u8>> {
        use cram::container::compression_header::data_series_encodings::DataSeries;
        let map = cram::container::BlockContentEncoderMap::builder().set_data_series_encoder(DataSeries::FeaturePositionDeltas, None).build();
        let b = cram::io::writer::Builder::default().set_reference_sequence_repository(repo.clone()).set_block_content_encoder_map(map);
        let mut w = b.build_from_writer(Vec::new());
        w.write_header(&header)?;
        w.write_alignment_record(&header, &to_record_buf(&case, &case.recs[0]))?;
        w.try_finish(&header)?;
        Ok(w.get_ref().clone())
    }));
    let bytes = match wr {
        Ok(b) => b,
        Err(e) => {
            ctx.fail("more-cram-write", format!("writing one mapped record failed: {e}"), id);
            return;
        }
    };
    let original = match read_slices(&bytes, &repo) {
        Ok(s) if s.len() == 1 && s[0].recs.len() == 1 => s,
        other => {
            ctx.fail("more-cram-read", format!("reading the unpatched file failed: {:?}", other.err()), id);
            return;
        }
    };
    let x0 = &original[0].recs[0];
    if x0.features == "-" {
        ctx.bump("more:fp_record_without_features");
        return;
    }
    let Ok(w) = walk(&bytes) else {
        ctx.fail("more-cram-layout", "the written file does not parse".into(), id);
        return;
    };
    let c = &w.containers[0];
    let Some((blk, d0, len)) = find_raw_block(&bytes, c.offset + c.hdr_len, c.body_len, FP_BLOCK) else {
        ctx.fail("more-cram-layout", "no raw FP block in the container".into(), id);
        return;
    };
    let deltas0 = itf8_all(&bytes[d0..d0 + len]).unwrap_or_default();
    let nf = x0.features.split(',').count();
    let positions = |d: &[i32]| -> Vec<usize> {
        let mut p = 0usize;
        d.iter().map(|x| { p += *x as usize; p }).collect()
    };
    if deltas0.len() != nf || len != nf || with_positions(&x0.features, &positions(&deltas0)) != x0.features {
        // a delta of two bytes (position ≥ 128) or a layout this patcher does not understand
        ctx.bump("more:fp_skipped_not_one_byte_deltas");
        return;
    }
    for round in 0..5 {
        let mut d = deltas0.clone();
        if round > 0 {
            for _ in 0..1 + rng.below(2) {
                let k = rng.below(nf as u64) as usize;
                d[k] = match rng.below(6) {
                    0 => 0,                                           // same position as the previous feature (or 0: no position)
                    1 => 1,
                    2 => (d[k] + 1 + rng.below(3) as i32).min(127),   // shifted right
                    3 => (d[k] - 1 - rng.below(3) as i32).max(0),     // shifted left
                    4 => (x0.read_length as i32).min(127),            // towards the end of the read
                    _ => rng.below(128) as i32,
                };
            }
        }
        let mut patched = bytes.clone();
        for (i, v) in d.iter().enumerate() {
            patched[d0 + i] = *v as u8;
        }
        let crc = crc32(&patched[blk..d0 + len]);
        patched[d0 + len..d0 + len + 4].copy_from_slice(&crc.to_le_bytes());
        let feats = with_positions(&x0.features, &positions(&d));
        let req = format!("c19 valid {} {}", x0.read_length, feats);
        ctx.eval(Some(fnv(req.as_bytes())));
        match read_slices(&patched, &repo) {
            Ok(sl) => {
                let x = &sl[0].recs[0];
                ctx.bump(if round == 0 { "more:fp_unchanged" } else { "more:fp_accepted" });
                if x.features != feats {
                    ctx.fail("more-fp-recompute", format!("harness: the reader decoded features {}, the patcher expected {feats}", x.features), id.clone());
                    continue;
                }
                ctx.corr(req, "ok".into());
                let end_txt = match &x.end {
                    Ok(e) => fmt_opt(*e),
                    Err(e) if e == "panic" => "panic".into(),
                    Err(_) => "err".into(),
                };
                ctx.corr(
                    format!("c19 span {} {} {} {}", x.unmapped as u8, fmt_opt(x.start), x.read_length, x.features),
                    format!("span={} end={} cigar={} bufend={}", x.span, end_txt, x.cigar, fmt_opt(x.buf_end)),
                );
                // the property of (1), on features the writer did not lay out: the indexer's end = the scan's end
                if x.end != Ok(x.buf_end) {
                    ctx.fail("record-end-disagrees-with-scan", format!("patched feature positions {feats} (read length {}): cram::Record::alignment_end = {:?}, a scan sees {:?}", x.read_length, x.end, x.buf_end), id.clone());
                }
            }
            Err(e) if e.starts_with("panic") => {
                ctx.corr(req, "panic".into());
                ctx.fail("more-fp-hostile-panic", format!("the reader panicked on feature positions {feats}: {e}"), id.clone());
            }
            Err(e) => {
                let class = e.split(':').take(2).collect::<Vec<_>>().join(":");
                ctx.bump(&format!("more:fp_{class}{}", if e.contains("overlap") { "_overlap" } else if e.contains("out of range of the read") { "_out_of_read" } else { "_other" }));
                ctx.corr(req, class);
            }
        }
    }
    ctx.bump("more:fp_files");
}

/// `true` if the replay words were this module's
pub fn replay(ctx: &mut Ctx, case: &[String]) -> bool {
    let k: u64 = case.get(1).and_then(|s| s.parse().ok()).unwrap_or(0);
    match case.first().map(|s| s.as_str()) {
        Some("morecorpus") => {
            if let Some(c) = corpus_case(k as usize) {
                run_case(ctx, &c)
            }
            true
        }
        Some("more") => {
            run_case(ctx, &gen_case(k));
            true
        }
        Some("moreap") => {
            hostile_ap(ctx, k);
            true
        }
        Some("morefp") => {
            hostile_fp(ctx, k);
            true
        }
        _ => false,
    }
}

pub fn run(ctx: &mut Ctx) {
    let mut k = 0;
    while let Some(c) = corpus_case(k) {
        run_case(ctx, &c);
        ctx.bump("more:corpus_cases");
        k += 1;
    }
    let n = ctx.n(160, 6_000);
    for it in 0..n {
        run_case(ctx, &gen_case(ctx.seed.wrapping_mul(2_000_003).wrapping_add(it)));
    }
    for it in 0..ctx.n(60, 3_000) {
        hostile_ap(ctx, ctx.seed.wrapping_mul(3_000_017).wrapping_add(it));
    }
    for it in 0..ctx.n(80, 4_000) {
        hostile_fp(ctx, ctx.seed.wrapping_mul(4_000_037).wrapping_add(it));
    }
}
