//! C08 extension — the adaptive arithmetic coder (`noodles-cram/src/codecs/aac`) inside the model.
//!
//! Correspondence (`c08 aac…` request lines; the real code answers here, the Lean model
//! `lean/Noodles/Cram/Aac.lean` answers through `DriverC08Aac.lean`):
//!   * `aacenc <flags> <input> <bz>`  `aac::encode` — byte-identical output (or the error class),
//!     for every flag byte; `<bz>` is what bzip2 returned for the data that reaches the EXT stage;
//!   * `aacdec <n> <stream> <unbz>`   `aac::decode` on the encoder's own output — exact answer;
//!   * `aacdecx <n> <stream>`         `aac::decode` on a damaged stream (truncated, one payload bit
//!     flipped, wrong outer size, trailing bytes) — `acc <bytes>` / `rej` only (an `Err` of any
//!     kind and a panic are both `rej`).
//!
//! Oracle: for every flag byte and input, `decode(encode(x), |x|) == x` and no panic; an encoder
//! that refuses (`Err`) is not a violation (it is counted; since the `write_symbol_count` fix the
//! model predicts that it never happens, and the correspondence compares that too). The bzip2 law the model assumes
//! (`unbz (bz x) |x| = x`) is validated on every EXT payload.
use crate::common::*;
use noodles_cram::codecs::aac;
use noodles_cram::verif as v;

const ORDER: u8 = 0x01;
const RESERVED: u8 = 0x02;
const EXT: u8 = 0x04;
const STRIPE: u8 = 0x08;
const NOSZ: u8 = 0x10;
const CAT: u8 = 0x20;
const RLE: u8 = 0x40;
const PACK: u8 = 0x80;

fn cls<T>(r: Result<std::io::Result<T>, String>) -> Result<T, String> {
    match r {
        Ok(Ok(x)) => Ok(x),
        Ok(Err(e)) => Err(errclass(&e).to_string()),
        Err(_) => Err("panic".into()),
    }
}

fn enc(fl: u8, src: &[u8]) -> Result<Vec<u8>, String> {
    cls(guarded(|| v::aac_encode(aac::Flags::from(fl), src)))
}

fn dec(stream: &[u8], n: usize) -> Result<Vec<u8>, String> {
    cls(guarded(|| v::aac_decode(stream, n)))
}

fn fmt_bytes(b: &[u8]) -> String {
    if b.len() <= 64 { hex(b) } else { format!("{}:{}", b.len(), crc32(b)) }
}

fn skip_uint7(s: &[u8], mut i: usize) -> Option<usize> {
    loop {
        let b = *s.get(i)?;
        i += 1;
        if b & 0x80 == 0 {
            return Some(i);
        }
    }
}

fn read_uint7(s: &[u8], mut i: usize) -> Option<(usize, usize)> {
    let mut n = 0usize;
    loop {
        let b = *s.get(i)?;
        i += 1;
        n = (n << 7) | (b & 0x7f) as usize;
        if b & 0x80 == 0 {
            return Some((n, i));
        }
    }
}

/// The byte ranges of a well-formed stream that hold entropy-coded (or raw / bzip2) payload: for
/// a flat stream everything after flags, size and bit-pack meta data; for a striped stream every
/// chunk without its own flag byte. Flips are confined to these (sizes, flag bytes and the
/// bit-pack map stay intact), so the outcome does not depend on how a decoder treats absurd sizes.
fn payload_regions(s: &[u8]) -> Option<Vec<(usize, usize)>> {
    let fl = *s.first()?;
    let mut i = 1;
    if fl & NOSZ == 0 {
        i = skip_uint7(s, i)?;
    }
    if fl & STRIPE != 0 {
        let x = *s.get(i)? as usize;
        i += 1;
        let mut sizes = vec![];
        for _ in 0..x {
            let (c, j) = read_uint7(s, i)?;
            sizes.push(c);
            i = j;
        }
        let mut out = vec![];
        for c in sizes {
            if c >= 2 && i + c <= s.len() {
                out.push((i + 1, i + c));
            }
            i += c;
        }
        return Some(out);
    }
    if fl & PACK != 0 {
        let nsym = *s.get(i)? as usize;
        i += 1 + nsym;
        i = skip_uint7(s, i)?;
    }
    if i <= s.len() { Some(vec![(i, s.len())]) } else { None }
}

// ------------------------------------------------------------------------------------------------
// inputs

/// hand-written boundary inputs, run first under many flag bytes: (bytes, shape, all 256 flags?)
fn corpus() -> Vec<(Vec<u8>, &'static str, bool)> {
    let mut v: Vec<(Vec<u8>, &'static str, bool)> = vec![
        (vec![], "empty", true),
        (vec![0], "len1", true),
        (vec![1], "len1", true),
        (vec![254], "len1", true),
        // a byte 0xff: the symbol count is 256, written as 0 (refused before the fix)
        (vec![255], "has-ff", true),
        (vec![0, 0], "len2", true),
        (vec![0, 1], "len2", true),
        (vec![3, 3, 3], "len3", true),
        (vec![1, 2, 3], "len3", true),
        (vec![254, 255], "has-ff", true),
        (vec![255, 0, 255], "has-ff", true),
        (b"noodles".to_vec(), "text", true),
        (b"noooooooodles".to_vec(), "text-run", true),
        (b"ACGTACGTNNACGTTTTTTTTGA".to_vec(), "text", true),
        // two symbols: the packed bytes are ff 00 (a byte 0xff reaches the entropy coder)
        ([vec![9u8; 8], vec![4u8; 8]].concat(), "pack-to-ff", true),
        ([vec![4u8; 8], vec![9u8; 8], vec![4u8; 3]].concat(), "pack-to-ff", true),
        // four symbols, 4 per byte: 3,3,3,3 packs to ff
        (vec![10, 20, 30, 40, 40, 40, 40, 40, 10], "pack-to-ff", true),
        // 16 symbols, 2 per byte: f,f packs to ff; 17 symbols: PACK is dropped
        ((0..16u8).chain([15, 15]).collect(), "pack-16", true),
        ((0..17u8).collect(), "pack-17", true),
        ((0..5u8).map(|x| x * 50).collect(), "pack-5", true),
        ((0..3u8).map(|x| x * 100 + 1).cycle().take(11).collect(), "pack-3", true),
        (vec![7; 9], "single-symbol", true),
    ];
    // run lengths 1..=10 (parts 0..3, then the 256 / 257 contexts), ended by another symbol
    for k in 1..=10usize {
        let mut d = vec![5u8; k];
        d.push(6);
        v.push((d, "run-k", k <= 8));
    }
    // runs that end the input (the decoder's `take(len)` ends exactly at the output's end)
    v.push(([vec![1u8, 2], vec![3u8; 7]].concat(), "run-at-end", true));
    v.push(([vec![3u8; 4], vec![2u8; 3], vec![3u8; 6]].concat(), "run-at-end", true));
    // stripes: lengths 0..9 are above; 4k-1, 4k, 4k+1
    for n in [4usize, 5, 7, 8, 31, 32, 33] {
        v.push(((0..n).map(|i| b"ACGTN"[i * 7 % 5]).collect(), "len-4-edge", true));
    }
    v.push(((0..=254u8).collect(), "all-255", false));
    v.push(((0..=255u8).collect(), "has-ff", false));
    // renormalisation (`total_freq > (1 << 16) - 17` after `+= 16`): n + 16 t crosses 65519 after
    // 4094 symbols for n = 16, after 4095 for n = 15 (15 + 16 * 4094 = 65519 exactly: NOT yet)
    for n in [4093usize, 4094, 4095, 4096, 4097, 8192] {
        v.push((vec![0u8; n], "renorm-1-symbol", false));
    }
    for (k, n) in [(15u8, 4094usize), (15, 4095), (15, 4096), (16, 4093), (16, 4094), (16, 4095), (31, 4095), (47, 4095), (2, 4095)] {
        // symbol k-1 first (so the alphabet has exactly k symbols), then a skewed mix
        let mut rng = Rng::new(k as u64 * 10_007 + n as u64);
        let mut d = vec![k - 1];
        while d.len() < n {
            d.push(if rng.chance(3, 4) { 0 } else { rng.below(k as u64) as u8 });
        }
        v.push((d, "renorm-alphabet-k", false));
    }
    // order 1: one context sees more than 4094 symbols; RLE: the model of symbol 5, then context
    // 257 see more than 4095 parts
    v.push(((0..8400).map(|i| if i % 2 == 0 { 5u8 } else { 6 }).collect(), "renorm-rle-context", false));
    v.push((vec![9u8; 12_400], "renorm-rle-continue", false));
    v.push(((0..9000).map(|i| (i % 3) as u8).collect(), "renorm-order1", false));
    v
}

const KS: [usize; 22] = [1, 2, 3, 4, 5, 8, 15, 16, 17, 31, 32, 33, 47, 63, 64, 100, 127, 128, 200, 254, 255, 256];

/// (bytes, shape)
fn gen_input(sub: u64, cap: usize) -> (Vec<u8>, &'static str) {
    let mut rng = Rng::new(sub ^ 0xAAC0);
    let len = |rng: &mut Rng| super::c08::gen_len(rng, cap);
    match rng.below(10) {
        0 => {
            // alphabet of k symbols 0..k, uniform
            let k = *rng.pick(&KS) as u64;
            let n = len(&mut rng);
            ((0..n).map(|_| rng.below(k) as u8).collect(), "alphabet-k-uniform")
        }
        1 => {
            // alphabet of k symbols, skewed (geometric)
            let k = *rng.pick(&KS) as u64;
            let n = len(&mut rng);
            let d = (0..n)
                .map(|_| {
                    let mut s = 0u64;
                    while s + 1 < k && rng.chance(2, 5) {
                        s += 1;
                    }
                    if rng.chance(1, 40) { (k - 1) as u8 } else { s as u8 }
                })
                .collect();
            (d, "alphabet-k-skewed")
        }
        2 => {
            // runs of assorted lengths over a small alphabet
            const RL: [usize; 14] = [1, 1, 2, 3, 4, 5, 6, 7, 8, 9, 10, 50, 300, 1000];
            let k = 1 + rng.below(6);
            let n = len(&mut rng);
            let mut d = vec![];
            while d.len() < n {
                let s = rng.below(k) as u8 * 7;
                let l = *rng.pick(&RL);
                d.extend(std::iter::repeat(s).take(l));
            }
            d.truncate(n);
            (d, "runs")
        }
        3 => {
            // one dominant symbol, length around the renormalisation point(s)
            let base = *rng.pick(&[4080usize, 4090, 4094, 8180, 8190]);
            let n = (base + rng.below(24) as usize).min(cap.max(1));
            let k = *rng.pick(&[1u64, 2, 3, 15, 16, 17, 31]);
            let d = (0..n).map(|i| if i == 0 { (k - 1) as u8 } else if rng.chance(1, 50) { rng.below(k) as u8 } else { 0 }).collect();
            (d, "renorm-dominant")
        }
        4 => {
            // contains 0xff (symbol count 256)
            let n = 1 + rng.below(40) as usize;
            let mut d: Vec<u8> = (0..n).map(|_| rng.below(4) as u8 * 3).collect();
            let p = rng.below(n as u64) as usize;
            d[p] = 255;
            (d, "has-ff")
        }
        5 => {
            let n = rng.below(4) as usize;
            (rng.bytes(n).into_iter().map(|b| b % 200).collect(), "len0to3")
        }
        6 => {
            // k distinct symbols with arbitrary values at the bit-pack thresholds
            let k = *rng.pick(&[1usize, 2, 3, 4, 5, 16, 17]);
            let mut vals: Vec<u8> = vec![];
            while vals.len() < k {
                let x = rng.below(255) as u8;
                if !vals.contains(&x) {
                    vals.push(x);
                }
            }
            let n = len(&mut rng).min(2000);
            let mut d: Vec<u8> = vals.clone();
            while d.len() < n.max(k) {
                d.push(if rng.chance(1, 2) { *vals.iter().max().unwrap() } else { *rng.pick(&vals) });
            }
            (d, "pack-threshold")
        }
        7 => {
            // periodic: every order-1 context sees one successor
            let p = 1 + rng.below(5) as usize;
            let n = len(&mut rng);
            ((0..n).map(|i| (i % p) as u8 * 11).collect(), "periodic")
        }
        _ => {
            let (d, _) = super::c08::gen_input(sub, cap);
            (d, "generic")
        }
    }
}

fn gen_flags(rng: &mut Rng) -> u8 {
    let base = (if rng.chance(1, 2) { ORDER } else { 0 })
        | (if rng.chance(1, 2) { RLE } else { 0 })
        | (if rng.chance(1, 3) { PACK } else { 0 })
        | (if rng.chance(1, 3) { NOSZ } else { 0 })
        | (if rng.chance(1, 8) { RESERVED } else { 0 });
    match rng.below(20) {
        0..=10 => base,
        11..=13 => base | STRIPE,
        14 | 15 => base | CAT,
        16 | 17 => base | EXT,
        _ => rng.below(256) as u8,
    }
}

// ------------------------------------------------------------------------------------------------
// branch counters. The real Model / RangeCoder are private, so which of their branches a case
// takes is observed on a line-by-line copy of the order-0 / order-1 / run-length ENCODERS kept
// here; its counters are recorded only when it produces the real encoder's bytes, so they are the
// real code's (`aac_shadow_encoder_differs` counts the cases where it does not). (The decoder mirrors every one of these branches.)

#[derive(Default)]
struct Counters {
    carry_set: u64,
    shift_write: u64,
    shift_write_ff: u64,
    shift_write_carry: u64,
    shift_write_carry_ff: u64,
    shift_count_ff: u64,
    norm_rounds: [u64; 4],
    renormalize: u64,
    swap: u64,
    no_swap: u64,
    search_first: u64,
    search_later: u64,
    rle_parts: [u64; 4],
    rle_ctx_initial: u64,
    rle_ctx_continue: u64,
}

struct ShadowCoder {
    low: u32,
    range: u32,
    carry: bool,
    cache: u32,
    ff_num: u32,
    out: Vec<u8>,
}

impl ShadowCoder {
    fn new() -> Self {
        ShadowCoder { low: 0, range: u32::MAX, carry: false, cache: 0, ff_num: 0, out: vec![] }
    }
    fn shift_low(&mut self, k: &mut Counters) {
        if self.low < 0xff00_0000 || self.carry {
            if !self.carry {
                if self.ff_num > 0 { k.shift_write_ff += 1 } else { k.shift_write += 1 }
                self.out.push(self.cache as u8);
                self.out.extend(std::iter::repeat(0xff).take(self.ff_num as usize));
            } else {
                if self.ff_num > 0 { k.shift_write_carry_ff += 1 } else { k.shift_write_carry += 1 }
                self.out.push((self.cache + 1) as u8);
                self.out.extend(std::iter::repeat(0x00).take(self.ff_num as usize));
            }
            self.ff_num = 0;
            self.cache = self.low >> 24;
            self.carry = false;
        } else {
            k.shift_count_ff += 1;
            self.ff_num += 1;
        }
        self.low <<= 8;
    }
    fn encode(&mut self, lo: u32, f: u32, tot: u32, k: &mut Counters) {
        let old = self.low;
        self.range /= tot;
        self.low = self.low.wrapping_add(lo * self.range);
        self.range *= f;
        if self.low < old {
            self.carry = true;
            k.carry_set += 1;
        }
        let mut rounds = 0;
        while self.range < 1 << 24 {
            self.range <<= 8;
            self.shift_low(k);
            rounds += 1;
        }
        k.norm_rounds[rounds.min(3)] += 1;
    }
    fn finish(&mut self, k: &mut Counters) {
        for _ in 0..5 {
            self.shift_low(k);
        }
    }
}

#[derive(Clone)]
struct ShadowModel {
    syms: Vec<u8>,
    freqs: Vec<u32>,
    total: u32,
}

impl ShadowModel {
    fn new(n: usize) -> Self {
        ShadowModel { syms: (0..n).map(|i| i as u8).collect(), freqs: vec![1; n], total: n as u32 }
    }
    fn encode(&mut self, rc: &mut ShadowCoder, sym: u8, k: &mut Counters) {
        let (mut acc, mut x) = (0, 0);
        while self.syms[x] != sym {
            acc += self.freqs[x];
            x += 1;
        }
        if x == 0 { k.search_first += 1 } else { k.search_later += 1 }
        rc.encode(acc, self.freqs[x], self.total, k);
        self.freqs[x] += 16;
        self.total += 16;
        if self.total > (1 << 16) - 17 {
            k.renormalize += 1;
            let mut t = 0;
            for f in &mut self.freqs {
                *f -= *f / 2;
                t += *f;
            }
            self.total = t;
        }
        if x > 0 && self.freqs[x] > self.freqs[x - 1] {
            k.swap += 1;
            self.freqs.swap(x, x - 1);
            self.syms.swap(x, x - 1);
        } else {
            k.no_swap += 1;
        }
    }
}

/// the entropy stage of `aac::encode`: order 0 / 1, with or without run lengths
fn shadow_entropy(data: &[u8], order1: bool, rle: bool, k: &mut Counters) -> Vec<u8> {
    let n = data.iter().max().map_or(0, |&m| m as usize) + 1;
    let mut models = vec![ShadowModel::new(n); if order1 { n } else { 1 }];
    let mut rle_models = vec![ShadowModel::new(4); 258];
    let mut rc = ShadowCoder::new();
    let mut i = 0;
    let mut prev = 0usize;
    while i < data.len() {
        let sym = data[i];
        models[if order1 { prev } else { 0 }].encode(&mut rc, sym, k);
        i += 1;
        if rle {
            let mut len = 0;
            while i < data.len() && data[i] == sym {
                len += 1;
                i += 1;
            }
            let mut ctx = sym as usize;
            let mut parts = 0;
            loop {
                let part = len.min(3);
                rle_models[ctx].encode(&mut rc, part as u8, k);
                parts += 1;
                len -= part;
                if part != 3 {
                    break;
                }
                ctx = if ctx < 256 { k.rle_ctx_initial += 1; 256 } else { k.rle_ctx_continue += 1; 257 };
            }
            k.rle_parts[parts.min(3)] += 1;
        }
        prev = sym as usize;
    }
    rc.finish(k);
    let mut out = vec![n as u8]; // 256 is written as 0
    out.extend(rc.out);
    out
}

/// run the copy on a flat entropy-coded stream and compare; the counters go to the histogram
fn shadow_check(ctx: &mut Ctx, fl: u8, src: &[u8], stream: &[u8]) {
    let f = stream[0];
    if f & (STRIPE | CAT | EXT) != 0 {
        return;
    }
    let Some(regions) = payload_regions(stream) else { return };
    let Some(&(start, _)) = regions.first() else { return };
    // the data that reached the entropy stage: the same stream with CAT
    let data = if f & PACK != 0 {
        match enc(fl | CAT, src) {
            Ok(c) => payload_regions(&c).and_then(|r| r.first().map(|r| c[r.0..].to_vec())),
            Err(_) => None,
        }
    } else {
        Some(src.to_vec())
    };
    let Some(data) = data else { return };
    let mut k = Counters::default();
    let body = shadow_entropy(&data, f & ORDER != 0, f & RLE != 0, &mut k);
    if body != stream[start..] {
        // not a property violation: the copy is only a probe for the branch counters (the bytes
        // themselves are compared with the Lean model by the correspondence)
        ctx.bump("aac_shadow_encoder_differs");
        return;
    }
    for (name, v) in [
        ("rc:carry-set", k.carry_set),
        ("rc:shift-write", k.shift_write),
        ("rc:shift-write-with-ff", k.shift_write_ff),
        ("rc:shift-write-carry", k.shift_write_carry),
        ("rc:shift-write-carry-with-ff", k.shift_write_carry_ff),
        ("rc:shift-count-ff", k.shift_count_ff),
        ("rc:norm-rounds-0", k.norm_rounds[0]),
        ("rc:norm-rounds-1", k.norm_rounds[1]),
        ("rc:norm-rounds-2", k.norm_rounds[2]),
        ("rc:norm-rounds-3+", k.norm_rounds[3]),
        ("model:renormalize", k.renormalize),
        ("model:swap", k.swap),
        ("model:no-swap", k.no_swap),
        ("model:found-at-0", k.search_first),
        ("model:found-later", k.search_later),
        ("rle:run-1-part", k.rle_parts[1]),
        ("rle:run-2-parts", k.rle_parts[2]),
        ("rle:run-3+-parts", k.rle_parts[3]),
        ("rle:context-256", k.rle_ctx_initial),
        ("rle:context-257", k.rle_ctx_continue),
    ] {
        ctx.bump_by(&format!("aac_code_branch:{name}"), v);
    }
    ctx.bump("aac_shadow_encoder_agrees");
}

// ------------------------------------------------------------------------------------------------
// one case

fn branch_of(fl: u8) -> &'static str {
    if fl & STRIPE != 0 {
        "stripe"
    } else if fl & CAT != 0 {
        "cat"
    } else if fl & EXT != 0 {
        "ext"
    } else if fl & RLE != 0 {
        if fl & ORDER != 0 { "rle-o1" } else { "rle-o0" }
    } else if fl & ORDER != 0 {
        "o1"
    } else {
        "o0"
    }
}

fn size_class(n: usize) -> &'static str {
    match n {
        0 => "0",
        1..=3 => "1-3",
        4..=63 => "4-63",
        64..=1023 => "64-1023",
        1024..=4092 => "1024-4092",
        _ => ">4092",
    }
}

fn case_str(fl: u8, src: &[u8]) -> String {
    format!("aacrt {fl:02x} x{}", hex(src))
}

/// correspondence + oracle for one (flag byte, input); `damage` adds the damaged-stream requests
fn one_case(ctx: &mut Ctx, fl: u8, src: &[u8], shape: &str, damage: bool, rng: &mut Rng) {
    ctx.bump(&format!("aac_shape:{shape}"));
    ctx.bump(&format!("aac_size:{}", size_class(src.len())));
    ctx.bump(&format!("aac_branch:{}", branch_of(fl)));
    if fl & PACK != 0 {
        ctx.bump("aac_flag:pack");
    }
    if fl & NOSZ != 0 {
        ctx.bump("aac_flag:nosz");
    }
    let key = fnv(&[&[fl][..], src].concat());
    let real = enc(fl, src);
    // the EXT stage: what went into bzip2 (the same stream with CAT instead) and what came out
    let mut bz: Vec<u8> = vec![];
    let mut unbz: Vec<u8> = vec![];
    if let Ok(stream) = &real {
        if stream[0] & (EXT | STRIPE | CAT) == EXT {
            let hdr = payload_regions(stream).and_then(|r| r.first().copied()).map(|r| r.0);
            let cat = enc(fl | CAT, src).ok();
            let data = match (&cat, hdr) {
                (Some(c), Some(h)) if c.len() >= h => Some(c[h..].to_vec()),
                _ => None,
            };
            match (data, hdr) {
                (Some(data), Some(h)) => {
                    bz = stream[h..].to_vec();
                    let mut out = vec![0; data.len()];
                    ctx.eval(None);
                    match cls(guarded(|| v::bzip2_decode(&bz, &mut out))) {
                        Ok(()) if out == data => ctx.bump("aac_bzip2_law_validated"),
                        _ => ctx.fail("aac-bzip2-law", format!("bzip2 does not decompress its own output for the {}-byte EXT payload", data.len()), case_str(fl, src)),
                    }
                    unbz = data;
                }
                _ => ctx.fail("aac-harness", "cannot locate the EXT payload".into(), case_str(fl, src)),
            }
        }
    }
    ctx.corr(format!("c08 aacenc {fl:02x} {} {}", hex(src), hex(&bz)), match &real { Ok(e) => fmt_bytes(e), Err(c) => c.clone() });
    ctx.eval(if src.len() >= 2 { Some(key) } else { None });
    let stream = match real {
        Ok(s) => s,
        Err(c) if c == "panic" => {
            ctx.fail("aac-encode-panic", format!("aac::encode({fl:#04x}, {} bytes) panicked", src.len()), case_str(fl, src));
            return;
        }
        Err(c) => {
            ctx.bump(&format!("aac_refused:{c}"));
            return;
        }
    };
    ctx.bump(&format!("aac_final_flags_changed:{}", stream[0] != fl));
    shadow_check(ctx, fl, src, &stream);
    let back = dec(&stream, src.len());
    ctx.corr(format!("c08 aacdec {} {} {}", src.len(), hex(&stream), hex(&unbz)), match &back { Ok(d) => fmt_bytes(d), Err(c) => c.clone() });
    match &back {
        Ok(d) if d == src => {}
        Ok(d) => ctx.fail("aac-wrong-data", format!("aac::decode(encode({fl:#04x}, x)) returned {} bytes that differ from the {} input bytes", d.len(), src.len()), case_str(fl, src)),
        Err(c) if c == "panic" => ctx.fail("aac-decode-panic", format!("aac::decode panicked on the output of encode({fl:#04x}, {} bytes)", src.len()), case_str(fl, src)),
        Err(c) => ctx.fail("aac-decode-error", format!("aac::decode rejects the output of encode({fl:#04x}, {} bytes): {c}", src.len()), case_str(fl, src)),
    }
    if !damage || stream.len() > 2500 || stream[0] & (EXT | STRIPE | CAT) == EXT {
        return;
    }
    let damaged = |ctx: &mut Ctx, kind: &str, n: usize, s: &[u8]| {
        let r = dec(s, n);
        ctx.bump(&format!("aac_damaged:{kind}:{}", if r.is_ok() { "acc" } else { "rej" }));
        if let Err(c) = &r {
            ctx.bump(&format!("aac_damaged_error:{c}"));
        }
        ctx.corr(format!("c08 aacdecx {n} {}", hex(s)), match r { Ok(d) => format!("acc {}", fmt_bytes(&d)), Err(_) => "rej".into() });
    };
    // truncation: header, meta data, payload, the last bytes
    let cut = match rng.below(4) {
        0 => rng.below(6.min(stream.len() as u64)) as usize,
        1 => stream.len() - 1,
        2 => stream.len().saturating_sub(1 + rng.below(6) as usize),
        _ => rng.below(stream.len() as u64) as usize,
    };
    damaged(ctx, "truncated", src.len(), &stream[..cut]);
    // one flipped payload bit
    if let Some(regions) = payload_regions(&stream) {
        let total: usize = regions.iter().map(|r| r.1 - r.0).sum();
        if total > 0 {
            let mut k = rng.below(total as u64) as usize;
            for (a, b) in regions {
                if k < b - a {
                    let mut m = stream.clone();
                    m[a + k] ^= 1 << rng.below(8);
                    damaged(ctx, "bitflip", src.len(), &m);
                    break;
                }
                k -= b - a;
            }
        }
    }
    // a wrong outer size (it is used under NO_SIZE only)
    if stream[0] & NOSZ != 0 {
        let n = match rng.below(4) {
            0 => src.len().saturating_sub(1),
            1 => src.len() + 1,
            2 => 0,
            _ => src.len() + 1 + rng.below(40) as usize,
        };
        damaged(ctx, "wrong-size", n, &stream);
    }
    // bytes after the end of the stream (every stage ignores what follows its data)
    if rng.chance(1, 3) {
        let mut m = stream.clone();
        let k = 1 + rng.below(6) as usize;
        m.extend(rng.bytes(k));
        damaged(ctx, "trailing", src.len(), &m);
    }
}

/// hand-written malformed streams: one for every rejecting (and every silently tolerant) branch
/// of `decode.rs`, `decode/stripe.rs`, `bit_pack::decode` and `Model::decode`: (stream, outer size, what)
fn malformed_corpus() -> Vec<(Vec<u8>, usize, &'static str)> {
    fn uint7(n: usize) -> Vec<u8> {
        let mut v = vec![(n & 0x7f) as u8];
        let mut n = n >> 7;
        while n > 0 {
            v.insert(0, 0x80 | (n & 0x7f) as u8);
            n >>= 7;
        }
        v
    }
    // `depth` stripes of one chunk around a one-byte CAT stream (NO_SIZE everywhere)
    fn nested(depth: usize) -> Vec<u8> {
        let mut s = vec![NOSZ | CAT, 0x61];
        for _ in 0..depth {
            let mut o = vec![NOSZ | STRIPE, 1];
            o.extend(uint7(s.len()));
            o.extend(&s);
            s = o;
        }
        s
    }
    let mut v: Vec<(Vec<u8>, usize, &'static str)> = vec![
        (vec![], 0, "empty-input"),
        (vec![0x00], 0, "size-missing"),
        (vec![0x00, 0x81], 0, "size-unterminated"),
        (vec![0x00, 0x81, 0x81, 0x81, 0x81, 0x81, 0x01], 0, "size-6-bytes"),
        (vec![0x00, 0x00], 0, "symbol-count-missing"),
        (vec![0x00, 0x00, 0x01], 0, "range-coder-header-missing"),
        (vec![0x00, 0x00, 0x01, 0x00, 0x00, 0x00], 0, "range-coder-header-short"),
        (vec![0x00, 0x00, 0x01, 0x00, 0x00, 0x00, 0x00, 0x00], 0, "size-0-order-0"),
        (vec![0x00, 0x04, 0x01, 0x00, 0xff, 0xff, 0xff, 0xff], 0, "frequency-not-below-total"),
        (vec![0x00, 0x02, 0x00, 0x00, 0x00, 0x00, 0x00, 0x00, 0x00, 0x00, 0x00], 0, "symbol-count-0-is-256"),
        (vec![0x01, 0x02, 0x00, 0x00, 0x00, 0x01, 0x02, 0x03, 0x04, 0x05, 0x06], 0, "symbol-count-0-is-256-order-1"),
        (vec![0x40, 0x03, 0x00, 0x00, 0x00, 0x00, 0x00, 0x00, 0x00, 0x00, 0x00, 0x00, 0x00, 0x00, 0x00, 0x00, 0x00], 0, "symbol-count-0-is-256-rle"),
        (vec![0x41, 0x03, 0x02, 0x00, 0x7f, 0xf7, 0xff, 0xff], 0, "rle-order-1-parts-clamped"),
        (vec![0x20, 0x03, 0x61, 0x62, 0x63], 0, "cat-exact"),
        (vec![0x20, 0x03, 0x61, 0x62, 0x63, 0x64], 0, "cat-trailing"),
        (vec![0x20, 0x03, 0x61, 0x62], 0, "cat-short"),
        (vec![0x30, 0x61, 0x62], 2, "cat-nosz"),
        (vec![0x30, 0x61, 0x62], 3, "cat-nosz-short"),
        (vec![0x04, 0x03, 0x01, 0x02, 0x03], 0, "ext-not-bzip2"),
        (vec![0xa0, 0x02], 0, "pack-count-missing"),
        (vec![0xa0, 0x02, 0x00, 0x00], 0, "pack-count-0"),
        (vec![0xa0, 0x02, 0x03, 0x41, 0x43], 0, "pack-map-short"),
        (vec![0xa0, 0x02, 0x02, 0x41, 0x43], 0, "pack-length-missing"),
        (vec![0xa0, 0x08, 0x02, 0x41, 0x43, 0x00], 0, "pack-data-short-zero-fill"),
        (vec![0xa0, 0x03, 0x02, 0x41, 0x43, 0x02, 0x05, 0xff], 0, "pack-data-long-ignored"),
        (vec![0xa0, 0x04, 0x03, 0x41, 0x43, 0x47, 0x01, 0xff], 0, "pack-value-outside-map"),
        (vec![0xa0, 0x04, 0x03, 0x41, 0x43, 0x47, 0x01, 0x24], 0, "pack-3-symbols"),
        (vec![0xa0, 0x05, 0x01, 0x41, 0x00], 0, "pack-1-symbol"),
        ([vec![0xa0, 0x02, 17], (0..17).collect(), vec![0x01, 0x10]].concat(), 0, "pack-17-symbols"),
        ([vec![0xa0, 0x03, 16], (0..16).collect(), vec![0x02, 0xf0, 0x07]].concat(), 0, "pack-16-symbols"),
        (vec![0x08, 0x02], 0, "stripe-count-missing"),
        (vec![0x08, 0x02, 0x00], 0, "stripe-count-0"),
        (vec![0x08, 0x02, 0x02, 0x02], 0, "stripe-sizes-short"),
        (vec![0x08, 0x02, 0x02, 0x02, 0x05, 0x30, 0x61], 0, "stripe-chunk-short"),
        (vec![0x08, 0x02, 0x02, 0x02, 0x02, 0x30, 0x61, 0x30, 0x62], 0, "stripe-2-chunks"),
        (vec![0x08, 0x03, 0x02, 0x03, 0x02, 0x30, 0x61, 0x63, 0x30, 0x62], 0, "stripe-2-chunks-uneven"),
        (vec![0x08, 0x00, 0x02, 0x01, 0x01, 0x30, 0x30], 0, "stripe-size-0"),
        (vec![0x08, 0x01, 0x01, 0x04, 0x20, 0x02, 0x61, 0x62], 0, "stripe-chunk-too-long"),
        (vec![0x08, 0x02, 0x01, 0x03, 0x20, 0x01, 0x61], 0, "stripe-chunk-too-short"),
        (vec![0x08, 0x01, 0x03, 0x02, 0x00, 0x00, 0x30, 0x61], 0, "stripe-empty-chunks"),
    ];
    for d in [0usize, 1, 2, 7, 8, 9, 12] {
        v.push((nested(d), 1, "stripe-nested"));
    }
    v
}

fn malformed_case(ctx: &mut Ctx, stream: &[u8], n: usize, what: &str) {
    let r = dec(stream, n);
    ctx.bump(&format!("aac_malformed:{what}:{}", match &r { Ok(_) => "acc".to_string(), Err(c) => c.clone() }));
    ctx.corr(format!("c08 aacdecx {n} {}", hex(stream)), match r { Ok(d) => format!("acc {}", fmt_bytes(&d)), Err(_) => "rej".into() });
}

// ------------------------------------------------------------------------------------------------
// entry points

const BIG_FLAGS: [u8; 14] = [0x00, 0x01, 0x40, 0x41, 0x80, 0x81, 0xc0, 0xc1, 0x08, 0x10, 0x51, 0x20, 0x04, 0x84];

pub fn run(ctx: &mut Ctx) {
    let t0 = std::time::Instant::now();
    // corpus first
    for (i, (src, shape, all)) in corpus().iter().enumerate() {
        let mut rng = Rng::new(ctx.seed.wrapping_mul(7_000_003) ^ i as u64);
        if *all {
            for fl in 0..=255u8 {
                // damaged streams for the flag bytes without the reserved bit
                one_case(ctx, fl, src, shape, fl & RESERVED == 0, &mut rng);
            }
        } else {
            for fl in BIG_FLAGS {
                one_case(ctx, fl, src, shape, false, &mut rng);
            }
        }
    }
    ctx.bump_by("aac_corpus_inputs", corpus().len() as u64);
    for (stream, n, what) in malformed_corpus() {
        malformed_case(ctx, &stream, n, what);
    }
    // generated inputs
    let n = ctx.n(260, 6000);
    let cap = if ctx.tier_thorough { 9000 } else { 5000 };
    for it in 0..n {
        let sub = ctx.seed.wrapping_mul(9_000_011).wrapping_add(it);
        let (src, shape) = gen_input(sub, cap);
        let mut rng = Rng::new(sub ^ 0xF1A6);
        for _ in 0..2 {
            let fl = gen_flags(&mut rng);
            one_case(ctx, fl, &src, shape, true, &mut rng);
        }
    }
    ctx.bump_by("aac_harness_ms", t0.elapsed().as_millis() as u64);
    ctx.sample(|| "c08 aacenc 41 6e6f6f6f6f6f6f6f6f646c6573 -".into());
}

/// `aacrt <flag byte, hex> x<input, hex>`
pub fn replay(ctx: &mut Ctx, case: &[String]) -> bool {
    // `aacall`: the whole extension alone (development aid)
    if case.first().map(|s| s.as_str()) == Some("aacall") {
        run(ctx);
        return true;
    }
    if case.first().map(|s| s.as_str()) != Some("aacrt") {
        return false;
    }
    if case.len() >= 3 {
        if let Ok(fl) = u8::from_str_radix(&case[1], 16) {
            let src = case[2].strip_prefix('x').map(unhex).unwrap_or_default();
            let mut rng = Rng::new(fnv(&src) ^ fl as u64);
            one_case(ctx, fl, &src, "replay", true, &mut rng);
        }
    }
    true
}
