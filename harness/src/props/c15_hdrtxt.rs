//! C15 / hdrtxt: the SAM and VCF header TEXT parsers on hostile byte strings, compared with the
//! `Res`-valued Lean transcriptions `lean/Noodles/Hostile/{SamHeaderText,VcfHeaderText}.lean`
//! (request words `c15 hdrtxt sam <hex>` / `c15 hdrtxt vcf <hex> <dm lines>`, handled by
//! `DriverC15HdrTxt.lean`).
//!
//! * correspondence: the real `sam::header::Parser` / `vcf::header::Parser` fed line by line
//!   (`parse_partial`, then `finish`) under `guarded()`; the answer is `ok <digest>` (line kinds,
//!   ids, lengths, other-field counts, sample names), `err@<index of the failing line>` or
//!   `panic@<line>`. A hand-written boundary corpus runs first, then every truncation / single-byte
//!   deletion / substitution / insertion of small valid headers, structured token mutations,
//!   generated valid headers and streams of glued fragments / arbitrary bytes.
//! * oracle: no panic in `parse_partial` / `finish` (`hdrtxt-panic-sam`, `hdrtxt-panic-vcf`); for
//!   valid UTF-8 the whole-text entry points `str::parse::<sam::Header>` / `vcf::Header::from_str`
//!   agree with the line-by-line form (`hdrtxt-stream-whole-*`); an Ok header survives `Debug` and
//!   re-serialisation through the writer (`hdrtxt-panic-touch-*`).
//!
//! The reserved-definition tables of noodles-vcf (`validate_{info,format}_definition`) are a model
//! parameter: the harness tells the driver on which line the real parser reported a
//! `…DefinitionMismatch` (read off the error's `Debug`).
use crate::common::*;
use noodles_sam as sam;
use noodles_vcf as vcf;

thread_local! {
    static ONLY: std::cell::Cell<Option<u64>> = const { std::cell::Cell::new(None) };
}

/// `str::lines` on bytes (the model's `SamHdr.lines`): an LF-terminated piece loses one trailing
/// CR, a final piece without LF is kept as it is, an empty final piece is dropped
fn lines(s: &[u8]) -> Vec<&[u8]> {
    s.split_inclusive(|&b| b == b'\n')
        .map(|l| match l.strip_suffix(b"\n") {
            Some(l) => l.strip_suffix(b"\r").unwrap_or(l),
            None => l,
        })
        .collect()
}

fn list(items: Vec<String>) -> String {
    if items.is_empty() { "~".into() } else { items.join(",") }
}

fn sam_digest(h: &sam::Header) -> String {
    let hd = match h.header() {
        Some(m) => format!("{}.{}/{}", m.version().major(), m.version().minor(), m.other_fields().len()),
        None => "-".into(),
    };
    let sq = list(h.reference_sequences().iter().map(|(n, m)| format!("{}:{}:{}", hex(n), usize::from(m.length()), m.other_fields().len())).collect());
    let rg = list(h.read_groups().iter().map(|(n, m)| format!("{}:{}", hex(n), m.other_fields().len())).collect());
    let pg = list(h.programs().as_ref().iter().map(|(n, m)| format!("{}:{}", hex(n), m.other_fields().len())).collect());
    let co = list(h.comments().iter().map(|c| hex(c)).collect());
    format!("ok hd={hd} sq={sq} rg={rg} pg={pg} co={co}")
}

fn vcf_digest(h: &vcf::Header) -> String {
    use vcf::header::record::value::Collection;
    let ids = |it: Vec<&String>| list(it.into_iter().map(|s| hex(s.as_bytes())).collect());
    let others = list(
        h.other_records()
            .iter()
            .map(|(k, c)| match c {
                Collection::Unstructured(v) => format!("{}:u:{}", hex(k.as_ref().as_bytes()), v.len()),
                Collection::Structured(m) => format!("{}:s:{}", hex(k.as_ref().as_bytes()), list(m.keys().map(|s| hex(s.as_bytes())).collect())),
            })
            .collect(),
    );
    format!(
        "ok ff={}.{} info={} filter={} format={} alt={} contig={} other={} samples={}",
        h.file_format().major(),
        h.file_format().minor(),
        ids(h.infos().keys().collect()),
        ids(h.filters().keys().collect()),
        ids(h.formats().keys().collect()),
        ids(h.alternative_alleles().keys().collect()),
        ids(h.contigs().keys().collect()),
        others,
        ids(h.sample_names().iter().collect()),
    )
}

/// (answer, Ok header) of the line-by-line SAM parse
fn real_sam(input: &[u8]) -> (String, Option<sam::Header>) {
    let mut p = sam::header::Parser::default();
    for (k, l) in lines(input).into_iter().enumerate() {
        match guarded(|| p.parse_partial(l)) {
            Ok(Ok(())) => {}
            Ok(Err(_)) => return (format!("err@{k}"), None),
            Err(_) => return (format!("panic@{k}"), None),
        }
    }
    match guarded(move || p.finish()) {
        Ok(h) => (sam_digest(&h), Some(h)),
        Err(_) => ("panic@finish".into(), None),
    }
}

/// (answer, definition-mismatch lines, Ok header) of the line-by-line VCF parse
fn real_vcf(input: &[u8]) -> (String, Vec<usize>, Option<vcf::Header>) {
    let mut p = vcf::header::Parser::default();
    let ls = lines(input);
    let n = ls.len();
    for (k, l) in ls.into_iter().enumerate() {
        match guarded(|| p.parse_partial(l).map(|_| ())) {
            Ok(Ok(())) => {}
            Ok(Err(e)) => {
                let dm = if format!("{e:?}").contains("DefinitionMismatch") { vec![k] } else { vec![] };
                return (format!("err@{k}"), dm, None);
            }
            Err(_) => return (format!("panic@{k}"), vec![], None),
        }
    }
    match guarded(move || p.finish()) {
        Ok(Ok(h)) => (vcf_digest(&h), vec![], Some(h)),
        Ok(Err(_)) => (format!("err@{n}"), vec![], None),
        Err(_) => (format!("panic@{n}"), vec![], None),
    }
}

fn branches(ctx: &mut Ctx, fmt: &str, input: &[u8], ans: &str) {
    let head = ans.split(['@', ' ']).next().unwrap_or("?");
    ctx.bump(&format!("hdrtxt:{fmt}:{head}"));
    let ls = lines(input);
    ctx.bump(&format!("hdrtxt:{fmt}:lines={}", if ls.len() > 8 { "9+".into() } else { ls.len().to_string() }));
    if std::str::from_utf8(input).is_err() {
        ctx.bump(&format!("hdrtxt:{fmt}:non-utf8"));
    }
    if input.windows(2).any(|w| w == b"\r\n") {
        ctx.bump(&format!("hdrtxt:{fmt}:crlf"));
    }
    // which line kind failed / was reached last
    let k: Option<usize> = ans.split('@').nth(1).and_then(|s| s.parse().ok());
    if let Some(k) = k {
        let kind: String = match ls.get(k) {
            None => "finish".into(),
            Some(l) if fmt == "sam" => String::from_utf8_lossy(&l[..l.len().min(3)]).into_owned(),
            Some(l) => {
                let e = l.iter().position(|&b| b == b'=' || b == b'\t').unwrap_or(l.len()).min(12);
                String::from_utf8_lossy(&l[..e]).into_owned()
            }
        };
        let kind: String = kind.chars().map(|c| if c.is_ascii_graphic() { c } else { '?' }).collect();
        let known = ["@HD", "@SQ", "@RG", "@PG", "@CO", "finish", "##fileformat", "##INFO", "##FILTER", "##FORMAT", "##ALT", "##contig", "##META", "##PEDIGREE", "#CHROM"];
        let kind = if known.contains(&kind.as_str()) { kind } else if kind.starts_with("##") { "##other".into() } else { "other".into() };
        ctx.bump(&format!("hdrtxt:{fmt}:{head}-at:{kind}"));
    }
    for l in &ls {
        if fmt == "vcf" {
            for (pat, name) in [(&b"\\\""[..], "escaped-quote"), (b"\\\\", "escaped-backslash"), (b"=\"", "quoted"), (b"Values=[", "values-list"), (b"IDX=", "idx"), (b"Number=", "number"), (b"length=", "length")] {
                if l.windows(pat.len()).any(|w| w == pat) {
                    ctx.bump(&format!("hdrtxt:vcf:has:{name}"));
                }
            }
        } else {
            for (pat, name) in [(&b"\tVN:"[..], "vn"), (b"\tLN:", "ln"), (b"\tSN:", "sn"), (b"\tID:", "id")] {
                if l.windows(pat.len()).any(|w| w == pat) {
                    ctx.bump(&format!("hdrtxt:sam:has:{name}"));
                }
            }
        }
    }
}

fn touch_sam(ctx: &mut Ctx, h: &sam::Header, case: &str) {
    if let Err(p) = guarded(|| {
        let _ = format!("{h:?}");
        let mut w = sam::io::Writer::new(Vec::new());
        let _ = w.write_header(h);
    }) {
        ctx.fail("hdrtxt-panic-touch-sam", format!("Debug / write_header of a parsed header panicked: {p}"), case.to_string());
    }
}

fn touch_vcf(ctx: &mut Ctx, h: &vcf::Header, case: &str) {
    if let Err(p) = guarded(|| {
        let _ = format!("{h:?}");
        let mut w = vcf::io::Writer::new(Vec::new());
        let _ = w.write_header(h);
        let _ = h.string_maps();
    }) {
        ctx.fail("hdrtxt-panic-touch-vcf", format!("Debug / write_header of a parsed header panicked: {p}"), case.to_string());
    }
}

fn emit(ctx: &mut Ctx, fmt: &str, input: &[u8]) {
    let hx = hex(input);
    let key = fnv(format!("{fmt} {hx}").as_bytes());
    if let Some(o) = ONLY.with(|o| o.get()) {
        if o != key {
            return;
        }
    }
    let case = format!("hdrtxt {fmt} {hx}");
    ctx.eval(Some(key));
    if fmt == "sam" {
        let (ans, h) = real_sam(input);
        branches(ctx, fmt, input, &ans);
        if ans.starts_with("panic") {
            ctx.fail("hdrtxt-panic-sam", format!("sam::header::Parser panicked ({ans}) on {hx}"), case.clone());
        }
        if let Ok(s) = std::str::from_utf8(input) {
            match guarded(|| s.parse::<sam::Header>()) {
                Err(p) => ctx.fail("hdrtxt-panic-sam", format!("str::parse::<sam::Header> panicked: {p} on {hx}"), case.clone()),
                Ok(r) => {
                    let whole = match &r { Ok(h) => sam_digest(h), Err(_) => "err".into() };
                    let same = if ans.starts_with("ok") { whole == ans } else { whole == "err" && ans.starts_with("err") };
                    if !same && !ans.starts_with("panic") {
                        ctx.fail("hdrtxt-stream-whole-sam", format!("line by line: {ans}; whole text: {whole}; input {hx}"), case.clone());
                    }
                }
            }
        }
        if let Some(h) = &h {
            touch_sam(ctx, h, &case);
        }
        ctx.corr(format!("c15 hdrtxt sam {hx}"), ans);
    } else {
        let (ans, dm, h) = real_vcf(input);
        branches(ctx, fmt, input, &ans);
        if !dm.is_empty() {
            ctx.bump("hdrtxt:vcf:definition-mismatch");
        }
        if ans.starts_with("panic") {
            ctx.fail("hdrtxt-panic-vcf", format!("vcf::header::Parser panicked ({ans}) on {hx}"), case.clone());
        }
        if let Ok(s) = std::str::from_utf8(input) {
            match guarded(|| s.parse::<vcf::Header>()) {
                Err(p) => ctx.fail("hdrtxt-panic-vcf", format!("vcf::Header::from_str panicked: {p} on {hx}"), case.clone()),
                Ok(r) => {
                    let whole = match &r { Ok(h) => vcf_digest(h), Err(_) => "err".into() };
                    let same = if ans.starts_with("ok") { whole == ans } else { whole == "err" && ans.starts_with("err") };
                    if !same && !ans.starts_with("panic") {
                        ctx.fail("hdrtxt-stream-whole-vcf", format!("line by line: {ans}; whole text: {whole}; input {hx}"), case.clone());
                    }
                }
            }
        }
        if let Some(h) = &h {
            touch_vcf(ctx, h, &case);
        }
        let d = if dm.is_empty() { "-".to_string() } else { dm.iter().map(|k| k.to_string()).collect::<Vec<_>>().join(",") };
        ctx.corr(format!("c15 hdrtxt vcf {hx} {d}"), ans);
    }
}

// ---------------------------------------------------------------- inputs

const SAM_SEEDS: &[&str] = &[
    "@HD\tVN:1.6\tSO:coordinate\n@SQ\tSN:sq0\tLN:8\tM5:ab\n@RG\tID:rg0\tSM:s\n@PG\tID:pg0\tPN:n\n@CO\tndls\n",
    "@HD\tVN:1.5\tSO:unsorted\tSO:x\n@SQ\tSN:a\tLN:13\r\n@SQ\tLN:4\tSN:b\n@CO\t\n",
];

const VCF_HDR: &str = "#CHROM\tPOS\tID\tREF\tALT\tQUAL\tFILTER\tINFO";

fn vcf_seeds() -> Vec<String> {
    vec![
        format!("##fileformat=VCFv4.3\n##INFO=<ID=XX,Number=1,Type=Integer,Description=\"a \\\"q\\\" \\\\ b\",IDX=0>\n##FILTER=<ID=q10,Description=\"d\">\n##FORMAT=<ID=XG,Number=LA,Type=String,Description=\"g\">\n##META=<ID=A,Type=String,Values=[a, b]>\n{VCF_HDR}\tFORMAT\ts0\ts1\n"),
        format!("##fileformat=VCFv4.2\n##ALT=<ID=DEL,Description=\"d\">\n##contig=<ID=sq0,length=8,md5=x>\n##foo=bar\n##bar=<ID=z,k=v>\n##META=<ID=A,Type=String,Values=[a]>\n##PEDIGREE=<Child=c,Father=f>\n{VCF_HDR}\r\n"),
    ]
}

fn sam_corpus() -> Vec<Vec<u8>> {
    let t: &[&str] = &[
        "", "\n", "\r\n", "@", "@H", "@HD", "@HD\t", "@HD\tV", "@HD\tVN", "@HD\tVN:", "@HD\tVN:1", "@HD\tVN:1.", "@HD\tVN:.6", "@HD\tVN:1.6", "@HD\tVN:1.6\t",
        "@HD\tVN:1.6.1", "@HD\tVN:+1.6", "@HD\tVN:-1.6", "@HD\tVN:4294967295.4294967295", "@HD\tVN:4294967296.0", "@HD\tVN:1.4294967296", "@HD\tVN:1.6x",
        "@HD\tSO:x", "@HD\tVN:1.6\tVN:1.6", "@HD\tVN:1.5\tVN:1.6", "@HD\tVN:1.5\tSO:a\tSO:b", "@HD\tVN:1.6\tSO:a\tSO:b", "@HD\tVN:0.9\tVN:1.7", "@HD\tSO:a\tSO:b\tVN:1.0",
        "@HD\tXX:1\tVN:1.4\tXX:2", "@HD\tVN:x\tVN:1.5", "@HD VN:1.6", "@HD\tVN1.6", "@HD\tVN:1.6\n@HD\tVN:1.6", "@CO\tx\n@HD\tVN:1.6", "@HD\tVN:1.5\n@SQ\tSN:a\tLN:1\tLN:2",
        "@SQ", "@SQ\t", "@SQ\tSN:a", "@SQ\tLN:1", "@SQ\tSN:a\tLN:0", "@SQ\tSN:a\tLN:", "@SQ\tSN:a\tLN:x", "@SQ\tSN:a\tLN:8x", "@SQ\tSN:a\tLN:+8", "@SQ\tSN:a\tLN:-8", "@SQ\tSN:a\tLN:+",
        "@SQ\tSN:a\tLN:18446744073709551615", "@SQ\tSN:a\tLN:18446744073709551616", "@SQ\tSN:a\tLN:538522340430300790495419781092981030533", "@SQ\tSN:a\tLN:8\tLN:9", "@SQ\tSN:a\tSN:b\tLN:8",
        "@SQ\tSN:\tLN:8", "@SQ\tSN:a\tLN:8\n@SQ\tSN:a\tLN:9", "@SQ\tSN:a\tLN:8\n@SQ\tSN:b\tLN:9", "@SQ\tSN:a\tLN:8\t", "@SQ\tSN:a\tLN:8\tX", "@SQ\tSN:a\tLN:8\tXY", "@SQ\tSN:a\tLN:8\tXY:", "@SQ\tSN:a\tLN:8\tXY;1",
        "@SQ\tSN:a\t\tLN:8", "@SQ\tSN:a\tLN:08", "@SQ\tSN:\u{e9}\tLN:8", "@SQ\tSN:a\0b\tLN:8", "@RG", "@RG\tID:a", "@RG\tID:a\tID:b", "@RG\tSM:x", "@RG\tID:a\n@RG\tID:a", "@RG\tID:a\tPL:x\tPL:y",
        "@PG\tID:a", "@PG\tPN:x", "@PG\tID:a\n@PG\tID:a", "@PG\tID:a\tPP:b\n@PG\tID:b", "@CO", "@CO\t", "@COx", "@CO\tx\ty", "@CO x", "@XX\tx", "@hd\tVN:1.6", "HD\tVN:1.6", "x", "\t",
        "@HD\tVN:1.6\n\n@SQ\tSN:a\tLN:1", "@HD\tVN:1.6\r\n@SQ\tSN:a\tLN:1\r\n", "@HD\tVN:1.6\r\r\n", "@HD\tVN:1.6\r", "@SQ\tSN:a\tLN:1\r", "@CO\tx\r\n@CO\ty\n\n",
    ];
    let mut v: Vec<Vec<u8>> = t.iter().map(|s| s.as_bytes().to_vec()).collect();
    v.push(b"@HD\tVN:1.6\xff".to_vec());
    v.push(b"@SQ\tSN:\xff\xfe\tLN:8".to_vec());
    v.push(b"@CO\t\x80\x80".to_vec());
    v.push(b"@\xc3\xa9".to_vec());
    v
}

fn vcf_corpus() -> Vec<Vec<u8>> {
    let ff = "##fileformat=VCFv4.3\n";
    let ff2 = "##fileformat=VCFv4.2\n";
    let firsts: &[&str] = &[
        "", "\n", "#", "##", "##fileformat", "##fileformat=", "##fileformat=VCF", "##fileformat=VCFv", "##fileformat=VCFv4", "##fileformat=VCFv4.", "##fileformat=VCFv.3", "##fileformat=VCFv4.3",
        "##fileformat=VCFv4.3.1", "##fileformat=VCFv4294967295.4294967295", "##fileformat=VCFv4294967296.0", "##fileformat=VCFv4.x", "##fileformat=VCFv+4.3", "##fileformat=vcfv4.3",
        "##INFO=<ID=a,Number=1,Type=Integer,Description=\"d\">", "##fileformat=VCFv4.3\n##fileformat=VCFv4.3", "#CHROM\tPOS\tID\tREF\tALT\tQUAL\tFILTER\tINFO", "##=VCFv4.3", "##\u{e9}=x", "@HD",
    ];
    let bodies: &[&str] = &[
        "", "##INFO", "##INFO=", "##INFO=<", "##INFO=<>", "##INFO=<ID", "##INFO=<ID=", "##INFO=<ID=a", "##INFO=<ID=a>", "##INFO=<ID=a,", "##INFO=<ID=a,>",
        "##INFO=<ID=a,Number=1,Type=Integer,Description=\"d\">", "##INFO=<ID=a,Number=1,Type=Integer,Description=\"d\"", "##INFO=<ID=a,Number=1,Type=Integer,Description=\"d",
        "##INFO=<ID=a,Number=1,Type=Integer,Description=\"d\\", "##INFO=<ID=a,Number=1,Type=Integer,Description=\"d\\\"", "##INFO=<ID=a,Number=1,Type=Integer,Description=\"d\\x\">",
        "##INFO=<ID=a,Number=1,Type=Integer,Description=\"d\\\\\">", "##INFO=<ID=a,Number=1,Type=Integer,Description=\"\\\"\\\\\\\"\">", "##INFO=<ID=a,Number=1,Type=Integer,Description=\"d\">x",
        "##INFO=<ID=a,Number=1,Type=Integer,Description=\"d\"x=y>", "##INFO=<ID=a,Number=1,Type=Integer,Description=\"d\"Number=2>", "##INFO=<ID=a,Number=,Type=Integer,Description=\"d\">",
        "##INFO=<ID=a,Number=A,Type=Flag,Description=\"d\">", "##INFO=<ID=a,Number=LA,Type=Integer,Description=\"d\">", "##INFO=<ID=a,Number=+1,Type=Integer,Description=\"d\">",
        "##INFO=<ID=a,Number=-1,Type=Integer,Description=\"d\">", "##INFO=<ID=a,Number=18446744073709551615,Type=Integer,Description=\"d\">", "##INFO=<ID=a,Number=18446744073709551616,Type=Integer,Description=\"d\">",
        "##INFO=<ID=a,Number=1x,Type=Integer,Description=\"d\">", "##INFO=<ID=a,Number=+,Type=Integer,Description=\"d\">", "##INFO=<ID=a,Number=1,Type=,Description=\"d\">", "##INFO=<ID=a,Number=1,Type=integer,Description=\"d\">",
        "##INFO=<ID=a,Number=1,Type=Integer>", "##INFO=<ID=a,Number=1,Description=\"d\">", "##INFO=<ID=a,Type=Integer,Description=\"d\">", "##INFO=<Number=1,Type=Integer,Description=\"d\">",
        "##INFO=<ID=a,ID=b,Number=1,Type=Integer,Description=\"d\">", "##INFO=<ID=a,Number=1,Number=1,Type=Integer,Description=\"d\">", "##INFO=<ID=a,Number=1,Type=Integer,Description=\"d\",x=1,x=2>",
        "##INFO=<ID=a,Number=1,Type=Integer,Description=\"d\",IDX=1>", "##INFO=<ID=a,Number=1,Type=Integer,Description=\"d\",IDX=>", "##INFO=<ID=a,Number=1,Type=Integer,Description=\"d\",IDX=-1>",
        "##INFO=<ID=a,Number=1,Type=Integer,Description=\"d\",IDX=99999999999999999999>", "##INFO=<ID=a,Number=1,Type=Integer,Description=\"d\",IDX=1,IDX=2>",
        "##INFO=<ID=NS,Number=1,Type=Integer,Description=\"d\">", "##INFO=<ID=NS,Number=2,Type=Integer,Description=\"d\">", "##INFO=<ID=NS,Number=1,Type=Float,Description=\"d\">",
        "##FORMAT=<ID=GT,Number=1,Type=String,Description=\"d\">", "##FORMAT=<ID=GT,Number=1,Type=Integer,Description=\"d\">", "##FORMAT=<ID=a,Number=1,Type=Flag,Description=\"d\">",
        "##FORMAT=<ID=a,Number=P,Type=Integer,Description=\"d\">", "##FORMAT=<ID=a,Number=M,Type=Character,Description=\"d\">", "##FORMAT=<ID=a,Number=LG,Type=Float,Description=\"d\",IDX=3>",
        "##INFO=<ID=a,Number=1,Type=Integer,Description=\"d\">\n##INFO=<ID=a,Number=1,Type=Integer,Description=\"d\">", "##INFO=<ID=a,Number=1,Type=Integer,Description=\"d\">\n##FORMAT=<ID=a,Number=1,Type=Integer,Description=\"d\">",
        "##FILTER=<ID=a,Description=\"d\">", "##FILTER=<ID=a>", "##FILTER=<Description=\"d\">", "##FILTER=<ID=a,Description=d>", "##FILTER=<ID=a,Description=\"d\",IDX=x>", "##FILTER=<ID=a,Description=\"d\">\n##FILTER=<ID=a,Description=\"e\">",
        "##FILTER=<ID=\"a\",Description=\"d\">", "##FILTER=<ID=,Description=>", "##FILTER=<ID=a,Description=\"\u{e9}\">", "##FILTER=<=a,Description=\"d\">", "##FILTER=<ID=a,Description=\"d\",>", "##FILTER=<ID=a,,Description=\"d\">",
        "##ALT=<ID=DEL,Description=\"d\">", "##ALT=<ID=DEL>", "##ALT=<ID=DEL,Description=\"d\">\n##ALT=<ID=DEL,Description=\"d\">", "##ALT=<ID=DEL,Description=\"d\",IDX=x>",
        "##contig=<ID=a>", "##contig=<ID=a,length=1>", "##contig=<ID=a,length=x>", "##contig=<ID=a,length=>", "##contig=<ID=a,length=1,length=2>", "##contig=<ID=a,md5=x,URL=y,IDX=2,z=w>", "##contig=<ID=a>\n##contig=<ID=a>", "##contig=<length=1>", "##contig=<ID=a,IDX=x>", "##contig=a",
        "##foo=bar", "##foo=", "##foo", "##foo=<", "##foo=<bar>", "##foo=<ID=a>", "##foo=<ID=a>\n##foo=<ID=a>", "##foo=<ID=a>\n##foo=<ID=b>", "##foo=<ID=a>\n##foo=bar", "##foo=bar\n##foo=<ID=a>", "##foo=bar\n##foo=bar", "##foo=<k=v>", "##foo=<ID=a,k=v,k=w>", "##foo=x<ID=a>",
        "##META=<ID=a,Type=String,Number=.,Values=[x, y]>", "##META=<ID=a,Values=[x>", "##META=<ID=a,Values=x>", "##META=<ID=a,Values=[x]y>", "##META=<ID=a,Values=[x],>", "##META=<Values=[x]>", "##META=<ID=a", "##META=<ID=a,", "##META=<>", "##META=<ID>", "##META=a", "##META=<ID=a,ID=b>", "##META=<ID=a>\n##META=<ID=a>", "##META=<ID=a,Values=[\u{e9}]>",
        "##PEDIGREE=<ID=a,Father=b>", "##PEDIGREE=<Child=a,Father=b>", "##PEDIGREE=<Derived=a,Original=b>", "##PEDIGREE=<Child=a,ID=b>", "##PEDIGREE=<Father=b>", "##PEDIGREE=<ID=a,x=\"q\\\"r\">",
        "#CHROM", "#CHROMX", "#CHROM\tPOS", "#CHROM\tPOS\tID\tREF\tALT\tQUAL\tFILTER", "#CHROM\tPOS\tID\tREF\tALT\tQUAL\tFILTER\tINFO\t", "#CHROM\tPOS\tID\tREF\tALT\tQUAL\tFILTER\tINFO\tFORMAT", "#CHROM\tPOS\tID\tREF\tALT\tQUAL\tFILTER\tINFO\tFORMAT\t",
        "#CHROM\tPOS\tID\tREF\tALT\tQUAL\tFILTER\tINFO\tFORMAT\ta\ta", "#CHROM\tPOS\tID\tREF\tALT\tQUAL\tFILTER\tINFO\tFORMAT\ta\t\t", "#CHROM\tPOS\tID\tREF\tALT\tQUAL\tFILTER\tINFO\tFMT\ta", "#CHROM\tPOS\tID\tREF\tALT\tQUAL\tFILTER\tINFO\ta", "#CHROM POS", "#CHROM\tPOS\tID\tREF\tALT\tQUAL\tFILTER\tinfo",
        "#CHROM\tPOS\tID\tREF\tALT\tQUAL\tFILTER\tINFO\n##foo=bar", "#CHROM\tPOS\tID\tREF\tALT\tQUAL\tFILTER\tINFO\n\n", "#CHROM\tPOS\tID\tREF\tALT\tQUAL\tFILTER\tINFO\tFORMAT\t\u{e9}\r\n", "x", "#x", "##x", "", "\n#CHROM\tPOS\tID\tREF\tALT\tQUAL\tFILTER\tINFO",
    ];
    let mut v: Vec<Vec<u8>> = firsts.iter().map(|s| s.as_bytes().to_vec()).collect();
    for b in bodies {
        for f in [ff, ff2] {
            v.push(format!("{f}{b}").into_bytes());
            if !b.starts_with("#CHROM") {
                v.push(format!("{f}{b}\n{VCF_HDR}\n").into_bytes());
            }
        }
    }
    for raw in [&b"##foo=\xff"[..], b"##\xff=x", b"##FILTER=<ID=\xff,Description=\"d\">", b"##FILTER=<\xff=a>", b"##FILTER=<ID=a,Description=\"\xff\">", b"##META=<ID=a,Values=[\xff]>", b"#CHROM\tPOS\tID\tREF\tALT\tQUAL\tFILTER\tINFO\tFORMAT\t\xff", b"##FILTER=<ID=a\0,Description=\"\0\">"] {
        let mut x = ff.as_bytes().to_vec();
        x.extend_from_slice(raw);
        v.push(x);
    }
    v
}

const SUBS: &[u8] = b"\t\n\r:@.=<>,\"\\[]#0 \0\xff\xc3";
const INS: &[u8] = b"\t\n\r=,\"\\>\xe9";

fn byte_mutants(ctx: &mut Ctx, fmt: &str, seed: &[u8], rng: &mut Rng) {
    for i in 0..=seed.len() {
        emit(ctx, fmt, &seed[..i]);
    }
    let (nsub, nins) = if ctx.tier_thorough { (SUBS.len(), INS.len()) } else { (3, 2) };
    for i in 0..seed.len() {
        let mut d = seed.to_vec();
        d.remove(i);
        emit(ctx, fmt, &d);
        for j in 0..nsub {
            let b = if ctx.tier_thorough { SUBS[j] } else { *rng.pick(SUBS) };
            let mut d = seed.to_vec();
            d[i] = b;
            emit(ctx, fmt, &d);
        }
        for j in 0..nins {
            let b = if ctx.tier_thorough { INS[j] } else { *rng.pick(INS) };
            let mut d = seed.to_vec();
            d.insert(i, b);
            emit(ctx, fmt, &d);
        }
    }
}

const HOSTILE: &[&str] = &["", "0", "-1", "+1", "18446744073709551616", "99999999999999999999999", "\"", "\\", "\"\\", "<", ">", ",", "=", "ID", "ID=", ":", "\t", "\r", "\0", "\u{e9}", ".", "1.", ".1", "[", "]", "x\"y", "\"x\\\"", "A", "Flag", "VN:1.6", "LN:1"];

/// every token (maximal run without a structural byte) replaced by every hostile token
fn token_mutants(ctx: &mut Ctx, fmt: &str, seed: &[u8], rng: &mut Rng) {
    let is_sep = |b: u8| matches!(b, b'\t' | b'\n' | b':' | b'=' | b',' | b'<' | b'>' | b'"');
    let mut i = 0;
    while i < seed.len() {
        if is_sep(seed[i]) {
            i += 1;
            continue;
        }
        let mut j = i;
        while j < seed.len() && !is_sep(seed[j]) {
            j += 1;
        }
        let n = if ctx.tier_thorough { HOSTILE.len() } else { 6 };
        for k in 0..n {
            let t = if ctx.tier_thorough { HOSTILE[k] } else { *rng.pick(HOSTILE) };
            let mut d = seed[..i].to_vec();
            d.extend_from_slice(t.as_bytes());
            d.extend_from_slice(&seed[j..]);
            emit(ctx, fmt, &d);
        }
        i = j;
    }
    // whole lines duplicated, dropped, swapped
    let ls: Vec<&[u8]> = seed.split_inclusive(|&b| b == b'\n').collect();
    for a in 0..ls.len() {
        let mut dup: Vec<u8> = vec![];
        let mut drop: Vec<u8> = vec![];
        let mut first: Vec<u8> = ls[a].to_vec();
        for (k, l) in ls.iter().enumerate() {
            dup.extend_from_slice(l);
            if k == a {
                dup.extend_from_slice(l);
            } else {
                drop.extend_from_slice(l);
                first.extend_from_slice(l);
            }
        }
        emit(ctx, fmt, &dup);
        emit(ctx, fmt, &drop);
        emit(ctx, fmt, &first);
        emit(ctx, fmt, &seed.iter().flat_map(|&b| if b == b'\n' { vec![b'\r', b'\n'] } else { vec![b] }).collect::<Vec<u8>>());
    }
}

fn gen_word(rng: &mut Rng) -> String {
    let n = rng.range(1, 6);
    (0..n).map(|_| *rng.pick(b"abcXYZ019_.-") as char).collect()
}

fn gen_sam(rng: &mut Rng) -> Vec<u8> {
    let mut s = String::new();
    if rng.chance(4, 5) {
        s += &format!("@HD\tVN:1.{}", rng.below(8));
        if rng.chance(1, 2) { s += "\tSO:coordinate"; }
        if rng.chance(1, 6) { s += "\tSO:unsorted"; }
        s += "\n";
    }
    for i in 0..rng.below(4) {
        let name = if rng.chance(1, 8) { "dup".to_string() } else { format!("{}{i}", gen_word(rng)) };
        if rng.chance(1, 2) { s += &format!("@SQ\tSN:{name}\tLN:{}", rng.range(1, 100000)); } else { s += &format!("@SQ\tLN:{}\tSN:{name}", rng.range(0, 5)); }
        for _ in 0..rng.below(3) { s += &format!("\t{}:{}", rng.pick(&["M5", "UR", "AS", "xx", "SN", "LN"]), gen_word(rng)); }
        s += if rng.chance(1, 10) { "\r\n" } else { "\n" };
    }
    for i in 0..rng.below(3) {
        s += &format!("@RG\tID:{}{}", gen_word(rng), if rng.chance(1, 6) { String::new() } else { i.to_string() });
        for _ in 0..rng.below(3) { s += &format!("\t{}:{}", rng.pick(&["SM", "PL", "LB", "ID"]), gen_word(rng)); }
        s += "\n";
    }
    for i in 0..rng.below(3) {
        s += &format!("@PG\tID:p{i}\tPN:{}\n", gen_word(rng));
    }
    for _ in 0..rng.below(3) { s += &format!("@CO\t{}\n", gen_word(rng)); }
    s.into_bytes()
}

fn gen_vcf(rng: &mut Rng) -> Vec<u8> {
    let mut s = format!("##fileformat=VCFv4.{}\n", rng.below(6));
    let q = |rng: &mut Rng| -> String { if rng.chance(1, 4) { format!("\"{} \\\"{}\\\" \\\\\"", gen_word(rng), gen_word(rng)) } else { format!("\"{}\"", gen_word(rng)) } };
    for _ in 0..rng.below(9) {
        let id = if rng.chance(1, 6) { rng.pick(&["NS", "DP", "GT", "AF", "dup"]).to_string() } else { gen_word(rng) };
        match rng.below(9) {
            0 | 1 => s += &format!("##INFO=<ID={id},Number={},Type={},Description={}{}>\n", rng.pick(&["1", "0", "A", "R", "G", ".", "2", "LA"]), rng.pick(&["Integer", "Float", "Flag", "Character", "String"]), q(rng), if rng.chance(1, 4) { format!(",IDX={}", rng.below(9)) } else { String::new() }),
            2 => s += &format!("##FORMAT=<ID={id},Number={},Type={},Description={}>\n", rng.pick(&["1", "A", "R", "G", ".", "LA", "LR", "LG", "P", "M"]), rng.pick(&["Integer", "Float", "Character", "String", "Flag"]), q(rng)),
            3 => s += &format!("##FILTER=<ID={id},Description={}>\n", q(rng)),
            4 => s += &format!("##ALT=<ID={id},Description={}>\n", q(rng)),
            5 => s += &format!("##contig=<ID={id}{}{}>\n", if rng.chance(1, 2) { format!(",length={}", rng.below(99999)) } else { String::new() }, if rng.chance(1, 3) { format!(",{}={}", gen_word(rng), q(rng)) } else { String::new() }),
            6 => s += &format!("##{}={}\n", rng.pick(&["foo", "bar", "source"]), if rng.chance(1, 2) { gen_word(rng) } else { format!("<ID={id},k={}>", gen_word(rng)) }),
            7 => s += &format!("##META=<ID={id},Type=String,Number=.,Values=[{}, {}]>\n", gen_word(rng), gen_word(rng)),
            _ => s += &format!("##PEDIGREE=<{}={id},Father={}>\n", rng.pick(&["ID", "Child", "Derived"]), gen_word(rng)),
        }
    }
    s += VCF_HDR;
    if rng.chance(2, 3) {
        s += "\tFORMAT";
        for i in 0..rng.below(4) { s += &format!("\t{}{}", gen_word(rng), if rng.chance(1, 6) { String::new() } else { i.to_string() }); }
    }
    s += if rng.chance(1, 8) { "\r\n" } else { "\n" };
    s.into_bytes()
}

/// a stream of glued fragments and arbitrary bytes
fn gen_junk(rng: &mut Rng, frags: &[&[u8]]) -> Vec<u8> {
    let mut v = vec![];
    for _ in 0..rng.range(1, 14) {
        if rng.chance(1, 5) {
            let n = rng.range(1, 4) as usize;
            v.extend(rng.bytes(n));
        } else {
            let f: &[u8] = *rng.pick(frags);
            v.extend_from_slice(f);
        }
    }
    v
}

const SAM_FRAGS: &[&[u8]] = &[b"@", b"HD", b"SQ", b"RG", b"PG", b"CO", b"\t", b"\t", b"\n", b"\r\n", b"VN:", b"1.6", b"1.5", b"SN:", b"LN:", b"ID:", b"a", b"8", b":", b".", b"XY:z", b"@HD\tVN:1.6\n", b"@SQ\tSN:a\tLN:8", b"\xff"];
const VCF_FRAGS: &[&[u8]] = &[b"##", b"#CHROM", b"fileformat=", b"VCFv4.3", b"VCFv4.2", b"\n", b"\r\n", b"=", b"<", b">", b",", b"\"", b"\\", b"ID=", b"a", b"Number=", b"1", b"Type=", b"Integer", b"Description=", b"\"d\"", b"IDX=", b"INFO", b"FILTER", b"FORMAT", b"ALT", b"contig", b"META", b"PEDIGREE", b"Values=", b"[", b"]", b"Child=", b"\t", b"POS\tID\tREF\tALT\tQUAL\tFILTER\tINFO", b"FORMAT", b"##fileformat=VCFv4.3\n", b"\xff"];

pub fn run(ctx: &mut Ctx) {
    let mut rng = Rng::new(ctx.seed ^ 0x6864_7274_7874);
    for c in sam_corpus() {
        emit(ctx, "sam", &c);
    }
    for c in vcf_corpus() {
        emit(ctx, "vcf", &c);
    }
    for s in SAM_SEEDS {
        byte_mutants(ctx, "sam", s.as_bytes(), &mut rng);
        token_mutants(ctx, "sam", s.as_bytes(), &mut rng);
    }
    for s in vcf_seeds() {
        byte_mutants(ctx, "vcf", s.as_bytes(), &mut rng);
        token_mutants(ctx, "vcf", s.as_bytes(), &mut rng);
    }
    let n = ctx.n(400, 4000);
    for i in 0..n {
        let mut r = Rng::new(ctx.seed.wrapping_mul(0x9e37_79b9).wrapping_add(i));
        let s = gen_sam(&mut r);
        emit(ctx, "sam", &s);
        let v = gen_vcf(&mut r);
        emit(ctx, "vcf", &v);
        let j = gen_junk(&mut r, SAM_FRAGS);
        emit(ctx, "sam", &j);
        let j = gen_junk(&mut r, VCF_FRAGS);
        emit(ctx, "vcf", &j);
        // one random byte edit of a generated valid header
        for (fmt, base) in [("sam", s), ("vcf", v)] {
            if base.is_empty() { continue; }
            let mut d = base.clone();
            let at = r.below(d.len() as u64) as usize;
            match r.below(3) {
                0 => { d.remove(at); }
                1 => d[at] = *r.pick(SUBS),
                _ => d.insert(at, *r.pick(INS)),
            }
            emit(ctx, fmt, &d);
        }
    }
}

/// replay case `hdrtxt <sam|vcf> <hex>`
pub fn replay(ctx: &mut Ctx, case: &[String]) -> bool {
    if case.first().map(|s| s.as_str()) != Some("hdrtxt") {
        return false;
    }
    let fmt = case.get(1).cloned().unwrap_or_default();
    let input = unhex(case.get(2).map(|s| s.as_str()).unwrap_or("-"));
    emit(ctx, if fmt == "vcf" { "vcf" } else { "sam" }, &input);
    true
}
