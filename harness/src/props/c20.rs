//! C20 — format autodetection picks the written format; conversions keep content
//! (noodles-util generic alignment / variant readers and writers).
//!
//! Correspondence (`c20 …` requests, model `lean/Noodles/Util/Detect.lean`):
//!   adet / vdet  the reader builder's choice on a first `fill_buf` window, with and without the
//!                `set_format` / `set_compression_method` overrides, at many first-read sizes. The
//!                real choice is observed through the public API only: the format is the variant
//!                `read_record` installs in the caller's `Record`; the compression is that of the
//!                format's OWN reader (sam/bam/cram/vcf/bcf `io::Reader`, raw or over
//!                `bgzf::io::Reader`, built here without noodles-util) whose complete observable
//!                behaviour on the same bytes — header, records field by field, byte counts, error
//!                messages — equals the generic reader's. Where both compressions behave alike
//!                (e.g. the empty stream) the compression is not compared (request flag `f`,
//!                histogram `*_compression_not_observable`). The inflated prefix of the window is
//!                observed with the harness's own `MultiGzDecoder` exactly as `read_exact` sees it
//!                and passed on the request line (the BGZF layer is a parameter of the model).
//!   awr / vwr    the writer builder's dispatch: kind of stream actually written (sniffed by the
//!                harness's own member parser + magic numbers) for every requested / defaulted
//!                (format, compression).
//!   alead/vlead  the first bytes the format writers put on the stream.
//! Oracle: write with the generic writer → read with the generic reader that is told nothing →
//! same format and compression, same header, same records (harness's own field-by-field rendering
//! through the `Record` traits, compared with the generator's intent up to the documented normal
//! forms: BAM upper-cases bases, CRAM turns `=`/`X` into `M`, a BCF vector holding one missing
//! element is the missing value); reader → writer → reader for every source/target pair, through
//! `records()` and through `read_record`; the laws the model assumes of the BGZF layer on every
//! window used; the writer builders against their documented contract.
//!
//! Oracle classes: writer-kind, detect-open, detect-format, detect-compression, auto-not-explicit,
//! roundtrip-{header,records,read}[-cram], convert-{header,records,failed}[-cram], panic[-cram],
//! bgzf-law, generator-text-rejected, short-first-read (known finding F11c).
//! Replay cases: `adoc <sub>`, `vdoc <sub>`, `acorpus <i>`, `vcorpus <i>`, `short <i>`,
//! `awriter …` / `vwriter …`, `window …`; `show adoc|vdoc <sub>` prints a generated document.
//!
//! Kept out of the generators on purpose (defects or quirks of OTHER properties, found while
//! building this one): an empty SAM `B` array is written `B:c` and refused by the SAM reader (C06);
//! a one-base read of quality 9 is written `*` (SAM text ambiguity); the BCF writer panics
//! (`todo!`) on an INFO field whose value is missing (`AC=.`), writes unreadable records for GT
//! columns of mixed ploidy >= 3, rejects a missing haploid GT and drops the phasing of missing
//! alleles (C10); a BAM/BCF reader forced onto other bytes allocates what they say l_text is (C15).
use super::c01::{raw_inflate, split_members};
use crate::adversary::{Delivery, SchedReader};
use crate::common::*;
use noodles_core::Position;
use noodles_fasta as fasta;
use noodles_sam::{
    self as sam,
    alignment::{
        record::{
            cigar::{op::Kind, Op},
            data::field::{value::Array as RArray, Tag, Value as RValue},
            Flags, MappingQuality,
        },
        record_buf::{
            data::field::{value::Array as BArray, Value as BValue},
            Cigar, QualityScores, Sequence,
        },
        RecordBuf,
    },
};
use noodles_util::alignment::{
    self,
    io::{CompressionMethod as ACm, Format as AFmt},
};
use noodles_util::variant::{
    self,
    io::{CompressionMethod as VCm, Format as VFmt},
};
use noodles_vcf as vcf;
use std::io::Read;
use std::num::NonZero;

// ------------------------------------------------------------------ shared small things

#[derive(Clone, Copy, Debug, PartialEq, Eq, Hash)]
pub enum Comp {
    Plain,
    Bgzf,
}
impl Comp {
    pub fn s(self) -> &'static str {
        match self {
            Comp::Plain => "plain",
            Comp::Bgzf => "bgzf",
        }
    }
}
pub fn acm(c: Comp) -> Option<ACm> {
    match c {
        Comp::Plain => None,
        Comp::Bgzf => Some(ACm::Bgzf),
    }
}
pub fn vcm(c: Comp) -> Option<VCm> {
    match c {
        Comp::Plain => None,
        Comp::Bgzf => Some(VCm::Bgzf),
    }
}
pub fn afmt_s(f: AFmt) -> &'static str {
    match f {
        AFmt::Sam => "sam",
        AFmt::Bam => "bam",
        AFmt::Cram => "cram",
    }
}
pub fn vfmt_s(f: VFmt) -> &'static str {
    match f {
        VFmt::Vcf => "vcf",
        VFmt::Bcf => "bcf",
    }
}
fn opt_s(s: Option<&'static str>) -> &'static str {
    s.unwrap_or("-")
}
fn err_text(e: &std::io::Error) -> String {
    format!("{}:{}", errclass(e), e)
}

const WINDOW: usize = 8192; // BufReader::new default capacity

/// the first `fill_buf` window of a stream whose first `read` delivers `k` bytes
fn window(stream: &[u8], k: usize) -> &[u8] {
    &stream[..stream.len().min(k).min(WINDOW)]
}

fn reader_for(stream: &[u8], k: usize) -> SchedReader {
    SchedReader::new(stream.to_vec(), vec![Delivery::Chunk(k.max(1))], usize::MAX)
}

/// What flate2's `MultiGzDecoder` delivers from `window`: up to `want` bytes, then the error class
/// it raises when asked for more (`None`: clean end, `Ok(0)`).
pub fn observe_inflate(window: &[u8], want: usize) -> (Vec<u8>, Option<&'static str>) {
    let mut d = flate2::bufread::MultiGzDecoder::new(window);
    let mut out = vec![0u8; want];
    let mut got = 0;
    while got < want {
        match d.read(&mut out[got..]) {
            Ok(0) => {
                out.truncate(got);
                return (out, None);
            }
            Ok(n) => got += n,
            Err(e) if e.kind() == std::io::ErrorKind::Interrupted => {}
            Err(e) => {
                out.truncate(got);
                return (out, Some(&errclass(&e)[4..]));
            }
        }
    }
    (out, None)
}

/// Harness's own view of a byte stream: is it a sequence of BGZF members (then the inflated
/// payload), and which magic number does the payload start with.
pub fn sniff(stream: &[u8]) -> (Comp, Vec<u8>) {
    if stream.len() >= 2 && stream[0] == 0x1f && stream[1] == 0x8b {
        if let Ok(ms) = split_members(stream) {
            let mut out = vec![];
            let mut ok = true;
            for m in ms {
                match raw_inflate(m.cdata, m.isize as usize) {
                    Some(d) => out.extend_from_slice(&d),
                    None => ok = false,
                }
            }
            if ok {
                return (Comp::Bgzf, out);
            }
        }
    }
    (Comp::Plain, stream.to_vec())
}
pub fn sniff_a(stream: &[u8]) -> (&'static str, Comp) {
    let (c, p) = sniff(stream);
    let f = if p.starts_with(b"BAM\x01") {
        "bam"
    } else if p.starts_with(b"CRAM") && p.len() >= 26 && p[4] <= 7 {
        "cram"
    } else {
        "sam"
    };
    (f, c)
}
pub fn sniff_v(stream: &[u8]) -> (&'static str, Comp) {
    let (c, p) = sniff(stream);
    let f = if p.starts_with(b"BCF\x02") {
        "bcf"
    } else if p.starts_with(b"##fileformat=VCF") {
        "vcf"
    } else {
        "?"
    };
    (f, c)
}

// ------------------------------------------------------------------ alignment documents

#[derive(Clone, Debug, PartialEq)]
pub enum Aux {
    Char(u8),
    Int(i64),
    Float(u32),
    Str(Vec<u8>),
    Hex(Vec<u8>),
    ArrI(char, Vec<i64>),
    ArrF(Vec<u32>),
}

#[derive(Clone, Debug, Default, PartialEq)]
pub struct ARec {
    pub name: Option<Vec<u8>>,
    pub flags: u16,
    pub rid: Option<usize>,
    pub pos: Option<usize>,
    pub mapq: Option<u8>,
    pub cigar: Vec<(char, usize)>,
    pub mrid: Option<usize>,
    pub mpos: Option<usize>,
    pub tlen: i32,
    pub seq: Vec<u8>,
    pub qual: Vec<u8>,
    pub aux: Vec<([u8; 2], Aux)>,
}

#[derive(Clone, Debug)]
pub struct ADoc {
    /// 0 = `sam::Header::default()` (writes nothing), 1 = @HD only, 2 = @HD + @SQ, 3 = + @RG @PG @CO
    pub hkind: u8,
    pub recs: Vec<ARec>,
}

const NREF: usize = 2;
const REF_LEN: usize = 2000;

pub fn ref_seq(i: usize) -> Vec<u8> {
    (0..REF_LEN).map(|j| b"ACGT"[(j * 7 + j / 3 + i * 5 + (j * j) % 11) % 4]).collect()
}
pub fn repository() -> fasta::Repository {
    let recs: Vec<fasta::Record> = (0..NREF)
        .map(|i| fasta::Record::new(fasta::record::Definition::new(format!("sq{i}"), None), fasta::record::Sequence::from(ref_seq(i))))
        .collect();
    fasta::Repository::new(recs)
}

pub fn a_header(hkind: u8) -> sam::Header {
    use sam::header::record::value::{
        map::{self, header::Version, Program, ReadGroup, ReferenceSequence},
        Map,
    };
    if hkind == 0 {
        return sam::Header::default();
    }
    let mut b = sam::Header::builder().set_header(Map::<map::Header>::new(Version::new(1, 6)));
    if hkind >= 2 {
        for i in 0..NREF {
            b = b.add_reference_sequence(format!("sq{i}"), Map::<ReferenceSequence>::new(NonZero::new(REF_LEN).unwrap()));
        }
    }
    if hkind >= 3 {
        b = b.add_read_group("rg0", Map::<ReadGroup>::default()).add_program("pg0", Map::<Program>::default()).add_comment("noodles C20");
    }
    b.build()
}

fn kind_of(c: char) -> Kind {
    match c {
        'M' => Kind::Match,
        'I' => Kind::Insertion,
        'D' => Kind::Deletion,
        'N' => Kind::Skip,
        'S' => Kind::SoftClip,
        'H' => Kind::HardClip,
        'P' => Kind::Pad,
        '=' => Kind::SequenceMatch,
        _ => Kind::SequenceMismatch,
    }
}
fn char_of(k: Kind) -> char {
    match k {
        Kind::Match => 'M',
        Kind::Insertion => 'I',
        Kind::Deletion => 'D',
        Kind::Skip => 'N',
        Kind::SoftClip => 'S',
        Kind::HardClip => 'H',
        Kind::Pad => 'P',
        Kind::SequenceMatch => '=',
        Kind::SequenceMismatch => 'X',
    }
}

pub fn to_record_buf(r: &ARec) -> RecordBuf {
    let mut b = RecordBuf::builder().set_flags(Flags::from(r.flags)).set_template_length(r.tlen);
    if let Some(n) = &r.name {
        b = b.set_name(n.clone());
    }
    if let Some(x) = r.rid {
        b = b.set_reference_sequence_id(x);
    }
    if let Some(x) = r.pos {
        b = b.set_alignment_start(Position::try_from(x).unwrap());
    }
    if let Some(x) = r.mapq {
        b = b.set_mapping_quality(MappingQuality::new(x).unwrap());
    }
    if let Some(x) = r.mrid {
        b = b.set_mate_reference_sequence_id(x);
    }
    if let Some(x) = r.mpos {
        b = b.set_mate_alignment_start(Position::try_from(x).unwrap());
    }
    let ops: Vec<Op> = r.cigar.iter().map(|&(c, n)| Op::new(kind_of(c), n)).collect();
    b = b.set_cigar(Cigar::from(ops)).set_sequence(Sequence::from(r.seq.clone())).set_quality_scores(QualityScores::from(r.qual.clone()));
    let mut data = sam::alignment::record_buf::Data::default();
    for (tag, v) in &r.aux {
        let v = match v {
            Aux::Char(c) => BValue::Character(*c),
            Aux::Int(n) => int_value(*n),
            Aux::Float(bits) => BValue::Float(f32::from_bits(*bits)),
            Aux::Str(s) => BValue::String(s.clone().into()),
            Aux::Hex(s) => BValue::Hex(s.clone().into()),
            Aux::ArrI(t, xs) => BValue::Array(match t {
                'c' => BArray::Int8(xs.iter().map(|&x| x as i8).collect()),
                'C' => BArray::UInt8(xs.iter().map(|&x| x as u8).collect()),
                's' => BArray::Int16(xs.iter().map(|&x| x as i16).collect()),
                'S' => BArray::UInt16(xs.iter().map(|&x| x as u16).collect()),
                'i' => BArray::Int32(xs.iter().map(|&x| x as i32).collect()),
                _ => BArray::UInt32(xs.iter().map(|&x| x as u32).collect()),
            }),
            Aux::ArrF(xs) => BValue::Array(BArray::Float(xs.iter().map(|&x| f32::from_bits(x)).collect())),
        };
        data.insert(Tag::new(tag[0], tag[1]), v);
    }
    b.set_data(data).build()
}

/// an integer in the narrowest BAM type (as a BAM encoder would choose), so every width occurs
fn int_value(n: i64) -> BValue {
    if n >= 0 {
        if n <= u8::MAX as i64 {
            BValue::UInt8(n as u8)
        } else if n <= u16::MAX as i64 {
            BValue::UInt16(n as u16)
        } else {
            BValue::UInt32(n as u32)
        }
    } else if n >= i8::MIN as i64 {
        BValue::Int8(n as i8)
    } else if n >= i16::MIN as i64 {
        BValue::Int16(n as i16)
    } else {
        BValue::Int32(n as i32)
    }
}

/// Field-by-field rendering through the `sam::alignment::Record` trait (harness's own code).
pub fn render_a(header: &sam::Header, r: &dyn sam::alignment::Record) -> std::io::Result<ARec> {
    let mut o = ARec { name: r.name().map(|n| n.to_vec()), flags: u16::from(r.flags()?), ..Default::default() };
    o.rid = r.reference_sequence_id(header).transpose()?;
    o.pos = r.alignment_start().transpose()?.map(usize::from);
    o.mapq = r.mapping_quality().transpose()?.map(u8::from);
    for op in r.cigar().iter() {
        let op = op?;
        o.cigar.push((char_of(op.kind()), op.len()));
    }
    o.mrid = r.mate_reference_sequence_id(header).transpose()?;
    o.mpos = r.mate_alignment_start().transpose()?.map(usize::from);
    o.tlen = r.template_length()?;
    o.seq = r.sequence().iter().collect();
    for q in r.quality_scores().iter() {
        o.qual.push(q?);
    }
    for f in r.data().iter() {
        let (tag, v) = f?;
        let t: [u8; 2] = [tag.as_ref()[0], tag.as_ref()[1]];
        let v = match v {
            RValue::Character(c) => Aux::Char(c),
            RValue::Float(x) => Aux::Float(x.to_bits()),
            RValue::String(s) => Aux::Str(s.to_vec()),
            RValue::Hex(s) => Aux::Hex(s.to_vec()),
            RValue::Array(a) => match a {
                RArray::Int8(v) => Aux::ArrI('c', v.iter().map(|x| x.map(i64::from)).collect::<std::io::Result<_>>()?),
                RArray::UInt8(v) => Aux::ArrI('C', v.iter().map(|x| x.map(i64::from)).collect::<std::io::Result<_>>()?),
                RArray::Int16(v) => Aux::ArrI('s', v.iter().map(|x| x.map(i64::from)).collect::<std::io::Result<_>>()?),
                RArray::UInt16(v) => Aux::ArrI('S', v.iter().map(|x| x.map(i64::from)).collect::<std::io::Result<_>>()?),
                RArray::Int32(v) => Aux::ArrI('i', v.iter().map(|x| x.map(i64::from)).collect::<std::io::Result<_>>()?),
                RArray::UInt32(v) => Aux::ArrI('I', v.iter().map(|x| x.map(i64::from)).collect::<std::io::Result<_>>()?),
                RArray::Float(v) => Aux::ArrF(v.iter().map(|x| x.map(f32::to_bits)).collect::<std::io::Result<_>>()?),
            },
            other => Aux::Int(other.as_int().unwrap()),
        };
        o.aux.push((t, v));
    }
    Ok(o)
}

pub fn show_arec(r: &ARec) -> String {
    let cig: String = r.cigar.iter().map(|(c, n)| format!("{n}{c}")).collect();
    let aux: Vec<String> = r.aux.iter().map(|(t, v)| format!("{}{}:{:?}", t[0] as char, t[1] as char, v)).collect();
    format!(
        "{} f={} rid={:?} pos={:?} mapq={:?} cigar={} mrid={:?} mpos={:?} tlen={} seq={} qual={} aux=[{}]",
        r.name.as_ref().map(|n| String::from_utf8_lossy(n).into_owned()).unwrap_or("*".into()),
        r.flags,
        r.rid,
        r.pos,
        r.mapq,
        if cig.is_empty() { "*".into() } else { cig },
        r.mrid,
        r.mpos,
        r.tlen,
        String::from_utf8_lossy(&r.seq),
        hex(&r.qual),
        aux.join(",")
    )
}

// ---- generators

fn gen_name(rng: &mut Rng, serial: usize) -> Vec<u8> {
    match rng.below(12) {
        0 => format!("CRAM{serial}").into_bytes(),
        1 => b"CRAM".to_vec(),
        2 => format!("BAM{serial}").into_bytes(),
        3 => format!("BCF{serial}").into_bytes(),
        4 => {
            // any graphic characters except '@'
            let n = 1 + rng.below(20) as usize;
            let v = (0..n).map(|_| loop { let c = 0x21 + rng.below(0x5e) as u8; if c != b'@' { break c; } }).collect::<Vec<u8>>();
            if v == b"*" { b"**".to_vec() } else { v } // `*` alone is the missing name
        }
        _ => format!("r{serial}").into_bytes(),
    }
}

fn gen_aux(rng: &mut Rng) -> Vec<([u8; 2], Aux)> {
    let mut v = vec![];
    let n = if rng.chance(1, 2) { 0 } else { 1 + rng.below(5) };
    for i in 0..n {
        let tag = [b'X', b'a' + i as u8];
        let a = match rng.below(9) {
            0 => Aux::Char(b'!' + rng.below(90) as u8),
            1 => Aux::Int(*rng.pick(&[0i64, 1, 127, 128, 255, 256, 65535, 65536, 2147483647, 4294967295])),
            2 => Aux::Int(-*rng.pick(&[1i64, 128, 129, 32768, 32769, 2147483648])),
            3 => Aux::Float(rng.pick(&[0.0f32, 1.5, -0.25, 3.0e10, 1.0e-3, 16777216.0]).to_bits()),
            4 => Aux::Str((0..rng.below(12)).map(|_| b' ' + rng.below(95) as u8).collect()),
            5 => Aux::Hex((0..2 * rng.below(5)).map(|_| *rng.pick(b"0123456789ABCDEF")).collect()),
            6 => {
                let t = *rng.pick(&['c', 'C', 's', 'S', 'i', 'I']);
                let (lo, hi): (i64, i64) = match t {
                    'c' => (-128, 127),
                    'C' => (0, 255),
                    's' => (-32768, 32767),
                    'S' => (0, 65535),
                    'i' => (-2147483648, 2147483647),
                    _ => (0, 4294967295),
                };
                let n = 1 + rng.below(5); // an empty B array is written `B:c` and refused by the SAM reader (C06's business)
                Aux::ArrI(t, (0..n).map(|_| match rng.below(3) { 0 => lo, 1 => hi, _ => lo + rng.below((hi - lo) as u64) as i64 }).collect())
            }
            7 => Aux::ArrF((0..1 + rng.below(4)).map(|_| rng.pick(&[0.5f32, -2.0, 1.0e6]).to_bits()).collect()),
            _ => Aux::Int(rng.below(1000) as i64),
        };
        v.push((tag, a));
    }
    v
}

/// `cram_safe`: stay inside what the CRAM writer is known to keep (C07's business otherwise).
fn gen_arec(rng: &mut Rng, serial: usize, hkind: u8, cram_safe: bool) -> ARec {
    let mut r = ARec { name: Some(gen_name(rng, serial)), ..Default::default() };
    if !cram_safe && rng.chance(1, 25) {
        r.name = None;
    }
    let mapped = hkind >= 2 && rng.chance(3, 4);
    let bases: &[u8] = if rng.chance(1, 6) && !cram_safe { b"ACGTNacgtn" } else { b"ACGTN" };
    if mapped {
        let rid = rng.below(NREF as u64) as usize;
        r.rid = Some(rid);
        let pos = 1 + rng.below(REF_LEN as u64 - 400) as usize;
        r.pos = Some(pos);
        r.mapq = Some(rng.below(61) as u8);
        // cigar: [S] (M|=|X) { (I|D|N) M } [S]
        let mut cig: Vec<(char, usize)> = vec![];
        if rng.chance(1, 4) {
            cig.push(('S', 1 + rng.below(5) as usize));
        }
        let m = *rng.pick(&['M', 'M', 'M', '=', 'X']);
        cig.push((m, 1 + rng.below(30) as usize));
        for _ in 0..rng.below(3) {
            cig.push((*rng.pick(&['I', 'D', 'N']), 1 + rng.below(6) as usize));
            cig.push(('M', 1 + rng.below(20) as usize));
        }
        if rng.chance(1, 4) {
            cig.push(('S', 1 + rng.below(5) as usize));
        }
        let read_len: usize = cig.iter().filter(|(c, _)| matches!(c, 'M' | 'I' | 'S' | '=' | 'X')).map(|x| x.1).sum();
        // read bases: the reference along M/=, a different base along X, so that `=`/`X` are truthful
        let reference = ref_seq(rid);
        let mut rp = pos - 1;
        for &(c, n) in &cig {
            match c {
                'M' | '=' | 'X' => {
                    for _ in 0..n {
                        let rb = reference[rp];
                        let b = if c == 'X' || (c == 'M' && rng.chance(1, 10)) { *rng.pick(&[b'A', b'C', b'G', b'T']) } else { rb };
                        let b = if c == 'X' && b == rb { if rb == b'A' { b'C' } else { b'A' } } else if c == '=' { rb } else { b };
                        r.seq.push(b);
                        rp += 1;
                    }
                }
                'I' | 'S' => {
                    for _ in 0..n {
                        r.seq.push(*rng.pick(bases));
                    }
                }
                _ => rp += n,
            }
        }
        debug_assert_eq!(r.seq.len(), read_len);
        r.cigar = cig;
        if rng.chance(1, 2) {
            r.flags |= 0x10;
        }
    } else {
        r.flags |= 0x4;
        let n = 1 + rng.below(40) as usize;
        r.seq = (0..n).map(|_| *rng.pick(bases)).collect();
    }
    r.qual = (0..r.seq.len()).map(|_| 2 + rng.below(40) as u8).collect();
    if r.qual == [9] {
        r.qual = vec![10]; // SAM text: a one-base read of quality 9 is written `*`, i.e. missing
    }
    if !cram_safe {
        match rng.below(10) {
            0 => r.qual.clear(), // QUAL *
            1 if !mapped => {
                r.seq.clear(); // SEQ * (then QUAL must be * too)
                r.qual.clear();
            }
            _ => {}
        }
        if rng.chance(1, 5) && hkind >= 2 {
            // a paired read: mate fields are data, nothing is recomputed by SAM/BAM
            r.flags |= 0x1 | if rng.chance(1, 2) { 0x40 } else { 0x80 };
            r.mrid = Some(rng.below(NREF as u64) as usize);
            r.mpos = Some(1 + rng.below(REF_LEN as u64 - 1) as usize);
            r.tlen = rng.below(600) as i32 - 300;
        }
    }
    for f in [0x100u16, 0x200, 0x400, 0x800] {
        if rng.chance(1, 12) && (!cram_safe || f != 0x800) {
            r.flags |= f;
        }
    }
    r.aux = gen_aux(rng);
    if hkind >= 3 && rng.chance(1, 3) {
        r.aux.push(([b'R', b'G'], Aux::Str(b"rg0".to_vec())));
    }
    r
}

pub fn gen_adoc(rng: &mut Rng, cram_safe: bool) -> ADoc {
    let hkind = *rng.pick(&[0u8, 0, 1, 2, 2, 2, 3, 3]);
    let n = match rng.below(12) {
        0 | 1 => 0,
        2 | 3 => 1,
        4 => 400 + rng.below(400) as usize, // several KiB: the first window cuts the first BGZF member
        _ => 2 + rng.below(8) as usize,
    };
    let recs = (0..n).map(|i| gen_arec(rng, i, hkind, cram_safe)).collect();
    ADoc { hkind, recs }
}

// ---- the generic writer / reader

thread_local! {
    /// the CRAM version the next `a_write` asks for: 3.1 when a CRAM 3.1 codec is selected
    static CRAM_31: std::cell::Cell<bool> = const { std::cell::Cell::new(false) };
}

fn a_write(fo: Option<AFmt>, co: Option<Comp>, header: &sam::Header, recs: &[RecordBuf]) -> std::io::Result<Vec<u8>> {
    let mut out = Vec::new();
    {
        let mut b = alignment::io::writer::Builder::default().set_reference_sequence_repository(repository());
        if CRAM_31.with(|c| c.get()) {
            // selecting a CRAM 3.1 codec makes the writer emit a 3.1 file definition
            use noodles_cram::{codecs::{rans_nx16, Encoder}, container::BlockContentEncoderMap};
            b = b.set_block_content_encoder_map(BlockContentEncoderMap::builder().set_default_encoder(Some(Encoder::RansNx16(rans_nx16::Flags::empty()))).build());
        }
        if let Some(f) = fo {
            b = b.set_format(f);
        }
        if let Some(c) = co {
            b = b.set_compression_method(acm(c));
        }
        let mut w = b.build_from_writer(&mut out)?;
        w.write_header(header)?;
        for r in recs {
            w.write_record(header, r)?;
        }
        w.finish(header)?;
    }
    Ok(out)
}

fn a_builder(fo: Option<AFmt>, co: Option<Comp>) -> alignment::io::reader::Builder {
    let mut b = alignment::io::reader::Builder::default().set_reference_sequence_repository(repository());
    if let Some(f) = fo {
        b = b.set_format(f);
    }
    if let Some(c) = co {
        b = b.set_compression_method(acm(c));
    }
    b
}

fn variant_of(r: &alignment::Record) -> &'static str {
    match r {
        alignment::Record::Sam(_) => "sam",
        alignment::Record::Bam(_) => "bam",
        alignment::Record::Cram(_) => "cram",
    }
}

/// Everything observable of one reader configuration on one stream.
#[derive(Debug, PartialEq, Clone)]
struct Seen {
    open: Result<(), String>,
    variant: Option<&'static str>,
    header: String,
    records: Vec<String>,
}

/// A reader configuration as the transcript sees it: the util reader, or a format's own reader.
trait ASource {
    fn header(&mut self) -> std::io::Result<sam::Header>;
    /// (result of read_record, kind of record delivered, its rendering when one was read)
    fn next(&mut self, h: &sam::Header) -> (std::io::Result<usize>, &'static str, Option<std::io::Result<ARec>>);
}
fn rendered(res: &std::io::Result<usize>, h: &sam::Header, rec: &dyn sam::alignment::Record) -> Option<std::io::Result<ARec>> {
    match res {
        Ok(n) if *n > 0 => Some(render_a(h, rec)),
        _ => None,
    }
}
struct UtilA<R: Read>(alignment::io::Reader<R>, alignment::Record);
impl<R: Read> ASource for UtilA<R> {
    fn header(&mut self) -> std::io::Result<sam::Header> {
        self.0.read_header()
    }
    fn next(&mut self, h: &sam::Header) -> (std::io::Result<usize>, &'static str, Option<std::io::Result<ARec>>) {
        let res = self.0.read_record(h, &mut self.1);
        let r = rendered(&res, h, &self.1);
        (res, variant_of(&self.1), r)
    }
}
struct SamSrc<R: std::io::BufRead>(sam::io::Reader<R>, sam::Record);
impl<R: std::io::BufRead> ASource for SamSrc<R> {
    fn header(&mut self) -> std::io::Result<sam::Header> {
        self.0.read_header()
    }
    fn next(&mut self, h: &sam::Header) -> (std::io::Result<usize>, &'static str, Option<std::io::Result<ARec>>) {
        let res = self.0.read_record(&mut self.1);
        let r = rendered(&res, h, &self.1);
        (res, "sam", r)
    }
}
struct BamSrc<R: Read>(noodles_bam::io::Reader<R>, noodles_bam::Record);
impl<R: Read> ASource for BamSrc<R> {
    fn header(&mut self) -> std::io::Result<sam::Header> {
        self.0.read_header()
    }
    fn next(&mut self, h: &sam::Header) -> (std::io::Result<usize>, &'static str, Option<std::io::Result<ARec>>) {
        let res = self.0.read_record(&mut self.1);
        let r = rendered(&res, h, &self.1);
        (res, "bam", r)
    }
}
struct CramSrc<R: Read>(noodles_cram::io::BufReader<R>, RecordBuf);
impl<R: Read> ASource for CramSrc<R> {
    fn header(&mut self) -> std::io::Result<sam::Header> {
        self.0.get_mut().read_header()
    }
    fn next(&mut self, h: &sam::Header) -> (std::io::Result<usize>, &'static str, Option<std::io::Result<ARec>>) {
        let res = self.0.read_record_buf(h, &mut self.1);
        let r = rendered(&res, h, &self.1);
        (res, "cram", r)
    }
}

fn a_transcript(src: &mut dyn ASource, max_records: usize) -> Seen {
    let mut seen = Seen { open: Ok(()), variant: None, header: String::new(), records: vec![] };
    let header = match src.header() {
        Ok(h) => {
            seen.header = format!("ok refs={} rg={} pg={} co={}", h.reference_sequences().len(), h.read_groups().len(), h.programs().as_ref().len(), h.comments().len());
            h
        }
        Err(e) => {
            seen.header = err_text(&e);
            sam::Header::default()
        }
    };
    loop {
        let (res, kind, rec) = src.next(&header);
        if seen.variant.is_none() {
            seen.variant = Some(kind);
        }
        match (res, rec) {
            (Ok(n), Some(Ok(x))) => seen.records.push(format!("{n}:{}", show_arec(&x))),
            (Ok(n), Some(Err(e))) => seen.records.push(format!("{n}:field-{}", err_text(&e))),
            (Ok(_), None) => {
                seen.records.push("end".into());
                break;
            }
            (Err(e), _) => {
                seen.records.push(err_text(&e));
                break;
            }
        }
        if seen.records.len() >= max_records {
            break;
        }
    }
    seen
}

/// the util reader with the given overrides; the probe record starts as a `Cram` record, the
/// reader installs its own kind (a CRAM reader leaves it `Cram`)
fn a_see(fo: Option<AFmt>, co: Option<Comp>, stream: &[u8], k: usize, max_records: usize) -> Seen {
    match a_builder(fo, co).build_from_reader(reader_for(stream, k)) {
        Ok(r) => a_transcript(&mut UtilA(r, alignment::Record::Cram(RecordBuf::default())), max_records),
        Err(e) => Seen { open: Err(err_text(&e)), variant: None, header: String::new(), records: vec![] },
    }
}

/// the format's OWN reader for `(f, c)`, built without noodles-util: the reference the
/// autodetecting reader is compared with
fn a_see_direct(f: AFmt, c: Comp, stream: &[u8], k: usize, max_records: usize) -> Seen {
    use std::io::BufReader;
    let inner = BufReader::new(reader_for(stream, k));
    match (f, c) {
        (AFmt::Sam, Comp::Plain) => a_transcript(&mut SamSrc(sam::io::Reader::new(inner), sam::Record::default()), max_records),
        (AFmt::Sam, Comp::Bgzf) => a_transcript(&mut SamSrc(sam::io::Reader::new(noodles_bgzf::io::Reader::new(inner)), sam::Record::default()), max_records),
        (AFmt::Bam, Comp::Plain) => a_transcript(&mut BamSrc(noodles_bam::io::Reader::from(inner), noodles_bam::Record::default()), max_records),
        (AFmt::Bam, Comp::Bgzf) => a_transcript(&mut BamSrc(noodles_bam::io::Reader::new(inner), noodles_bam::Record::default()), max_records),
        (AFmt::Cram, Comp::Plain) => {
            let r = noodles_cram::io::reader::Builder::default().set_reference_sequence_repository(repository()).build_from_reader(inner);
            a_transcript(&mut CramSrc(noodles_cram::io::BufReader::new(r), RecordBuf::default()), max_records)
        }
        // there is no bgzipped CRAM; never equal to a successful transcript
        (AFmt::Cram, Comp::Bgzf) => Seen { open: Err("no such reader".into()), variant: None, header: String::new(), records: vec![] },
    }
}


// ------------------------------------------------------------------ variant documents

#[derive(Clone, Debug, PartialEq)]
pub enum VVal {
    Int(i32),
    Float(u32),
    Flag,
    Missing,
    Char(char),
    Str(String),
    Geno(String),
    AInt(Vec<Option<i32>>),
    AFloat(Vec<Option<u32>>),
    AChar(Vec<Option<char>>),
    AStr(Vec<Option<String>>),
}

#[derive(Clone, Debug, Default, PartialEq)]
pub struct VRec {
    pub chrom: String,
    pub pos: usize,
    pub ids: Vec<String>,
    pub refb: String,
    pub alts: Vec<String>,
    pub qual: Option<u32>,
    /// None = missing (`.`), Some(["PASS"]) = pass
    pub filters: Option<Vec<String>>,
    pub info: Vec<(String, VVal)>,
    pub keys: Vec<String>,
    pub samples: Vec<Vec<Option<VVal>>>,
}

#[derive(Clone, Debug)]
pub struct VDoc {
    pub version: (u32, u32),
    pub nsamples: usize,
    pub recs: Vec<VRec>,
    /// additional FILTER lines f000, f001, … (a dictionary with more than 128 entries makes
    /// BCF string-map indices need Int16)
    pub extra_filters: usize,
}

const FLOATS: [&str; 8] = ["0.5", "1.25", "30", "0.001", "-2.5", "1e-05", "100000", "3.14"];

fn fbits(s: &str) -> u32 {
    s.parse::<f32>().unwrap().to_bits()
}
fn ftext(bits: u32) -> &'static str {
    FLOATS.iter().copied().find(|s| fbits(s) == bits).unwrap()
}

pub fn v_header_text(d: &VDoc) -> String {
    let mut s = format!("##fileformat=VCFv{}.{}\n", d.version.0, d.version.1);
    for (id, n, t) in [("DP", "1", "Integer"), ("AF", "A", "Float"), ("DB", "0", "Flag"), ("AA", "1", "String"), ("AC", "A", "Integer"), ("XS", ".", "String"), ("XC", "1", "Character"), ("XI", ".", "Integer"), ("XF", "2", "Float")] {
        s += &format!("##INFO=<ID={id},Number={n},Type={t},Description=\"{id}\">\n");
    }
    for id in ["q10", "s50"] {
        s += &format!("##FILTER=<ID={id},Description=\"{id}\">\n");
    }
    for i in 0..d.extra_filters {
        s += &format!("##FILTER=<ID=f{i:03},Description=\"f{i:03}\">\n");
    }
    for (id, n, t) in [("GT", "1", "String"), ("DP", "1", "Integer"), ("XQ", "1", "Float"), ("AD", "R", "Integer"), ("FT", "1", "String"), ("PL", "G", "Integer"), ("FC", "1", "Character"), ("FS", ".", "String")] {
        s += &format!("##FORMAT=<ID={id},Number={n},Type={t},Description=\"{id}\">\n");
    }
    for i in 0..3 {
        s += &format!("##contig=<ID=sq{i},length=1000000>\n");
    }
    s += "#CHROM\tPOS\tID\tREF\tALT\tQUAL\tFILTER\tINFO";
    if d.nsamples > 0 {
        s += "\tFORMAT";
        for i in 0..d.nsamples {
            s += &format!("\ts{i}");
        }
    }
    s += "\n";
    s
}

fn vval_text(v: &VVal) -> String {
    fn arr<T>(xs: &[Option<T>], f: impl Fn(&T) -> String) -> String {
        xs.iter().map(|x| x.as_ref().map(&f).unwrap_or(".".into())).collect::<Vec<_>>().join(",")
    }
    match v {
        VVal::Int(n) => n.to_string(),
        VVal::Float(b) => ftext(*b).to_string(),
        VVal::Flag => String::new(),
        VVal::Missing => ".".to_string(),
        VVal::Char(c) => c.to_string(),
        // a string VALUE is written percent-encoded in VCF text
        VVal::Str(s) => s.replace('%', "%25").replace(';', "%3B").replace('=', "%3D").replace(',', "%2C"),
        VVal::Geno(s) => s.clone(),
        VVal::AInt(xs) => arr(xs, |n| n.to_string()),
        VVal::AFloat(xs) => arr(xs, |b| ftext(*b).to_string()),
        VVal::AChar(xs) => arr(xs, |c| c.to_string()),
        VVal::AStr(xs) => arr(xs, |s| s.clone()),
    }
}

fn vrec_text(r: &VRec) -> String {
    let dot = |v: &Vec<String>, sep: &str| if v.is_empty() { ".".to_string() } else { v.join(sep) };
    let mut s = format!(
        "{}\t{}\t{}\t{}\t{}\t{}\t{}\t",
        r.chrom,
        r.pos,
        dot(&r.ids, ";"),
        r.refb,
        dot(&r.alts, ","),
        r.qual.map(|b| ftext(b).to_string()).unwrap_or(".".into()),
        r.filters.as_ref().map(|f| f.join(";")).unwrap_or(".".into())
    );
    if r.info.is_empty() {
        s += ".";
    } else {
        s += &r.info.iter().map(|(k, v)| if *v == VVal::Flag { k.clone() } else { format!("{k}={}", vval_text(v)) }).collect::<Vec<_>>().join(";");
    }
    if !r.keys.is_empty() {
        s += "\t";
        s += &r.keys.join(":");
        for smp in &r.samples {
            s += "\t";
            s += &smp.iter().map(|v| v.as_ref().map(vval_text).unwrap_or(".".into())).collect::<Vec<_>>().join(":");
        }
    }
    s
}

fn gen_vrec(rng: &mut Rng, serial: usize, nsamples: usize) -> VRec {
    let mut r = VRec { chrom: format!("sq{}", rng.below(3)), pos: 1 + rng.below(999_000) as usize, ..Default::default() };
    for i in 0..*rng.pick(&[0usize, 0, 1, 1, 2]) {
        r.ids.push(format!("id{serial}_{i}"));
    }
    r.refb = (0..1 + rng.below(4)).map(|_| *rng.pick(&['A', 'C', 'G', 'T', 'N'])).collect();
    let nalt = *rng.pick(&[0usize, 1, 1, 1, 2, 3]);
    for _ in 0..nalt {
        r.alts.push(match rng.below(8) {
            0 => "<DEL>".to_string(),
            1 => "*".to_string(),
            _ => (0..1 + rng.below(3)).map(|_| *rng.pick(&['A', 'C', 'G', 'T'])).collect(),
        });
    }
    if rng.chance(2, 3) {
        r.qual = Some(fbits(*rng.pick(&["0.5", "30", "1.25", "100000", "3.14"])));
    }
    r.filters = match rng.below(5) {
        0 => None,
        1 | 2 => Some(vec!["PASS".into()]),
        3 => Some(vec!["q10".into()]),
        _ => Some(vec!["q10".into(), "s50".into()]),
    };
    let pick_f = |rng: &mut Rng| fbits(*rng.pick(&FLOATS));
    let pick_i = |rng: &mut Rng| *rng.pick(&[0i32, 1, -1, 127, 128, -120, -121, 32767, 32768, -32760, 100000, 2147483647, -2147483640]);
    for key in ["DP", "AF", "DB", "AA", "AC", "XS", "XC", "XI", "XF"] {
        if !rng.chance(1, 3) {
            continue;
        }
        let v = match key {
            "DP" => VVal::Int(pick_i(rng)),
            "AF" if nalt >= 1 => VVal::AFloat((0..nalt).map(|i| if i > 0 && rng.chance(1, 6) { None } else { Some(pick_f(rng)) }).collect()),
            "DB" => VVal::Flag,
            // values holding `%`: written `50%2541`, `GC%25CDS`, …; `50%41` must not come back as `50A`
            "AA" => VVal::Str(rng.pick(&["A", "ancestral", "x_y", "a b", "50%41", "GC%CDS", "100%", "a;b=c"]).to_string()),
            "AC" if nalt >= 1 => VVal::AInt((0..nalt).map(|i| if i > 0 && rng.chance(1, 6) { None } else { Some(pick_i(rng)) }).collect()),
            "XS" => {
                let n = 1 + rng.below(3) as usize;
                VVal::AStr((0..n).map(|i| Some(format!("s{i}"))).collect())
            }
            "XC" => VVal::Char(*rng.pick(&['a', 'Z', '7'])),
            "XI" => {
                let n = 1 + rng.below(4) as usize;
                VVal::AInt((0..n).map(|_| Some(pick_i(rng))).collect())
            }
            "XF" => VVal::AFloat(vec![Some(pick_f(rng)), Some(pick_f(rng))]),
            _ => continue,
        };
        r.info.push((key.to_string(), v));
    }
    if nsamples > 0 {
        r.keys.push("GT".into());
        for key in ["DP", "XQ", "AD", "FT", "PL", "FC", "FS"] {
            if rng.chance(1, 3) {
                r.keys.push(key.into());
            }
        }
        let nall = nalt + 1;
        // one ploidy per record: mixed ploidy is a BCF encoder matter (C10), not this property's
        let ploidy = *rng.pick(&[1usize, 2, 2, 2, 3]);
        for _ in 0..nsamples {
            let mut smp = vec![];
            for key in r.keys.clone() {
                let missing = key != "GT" && rng.chance(1, 5);
                let v = match key.as_str() {
                    "GT" => {
                        let mut sep = if rng.chance(1, 3) { "|" } else { "/" };
                        // a missing haploid call is a missing value (the BCF writer rejects it) and BCF
                        // does not keep the phasing of missing alleles: both are C10's business
                        let alleles: Vec<String> = if ploidy > 1 && rng.chance(1, 6) {
                            sep = "/";
                            vec![".".to_string(); ploidy]
                        } else {
                            (0..ploidy).map(|_| rng.below(nall as u64).to_string()).collect()
                        };
                        VVal::Geno(alleles.join(sep))
                    }
                    "DP" => VVal::Int(pick_i(rng).max(0)),
                    "XQ" => VVal::Float(pick_f(rng)),
                    "AD" => {
                        VVal::AInt((0..nall).map(|i| if i > 0 && rng.chance(1, 8) { None } else { Some(pick_i(rng)) }).collect())
                    }
                    "FT" => VVal::Str(rng.pick(&["PASS", "q10", "lowq"]).to_string()),
                    "PL" => {
                        let n = nall * (nall + 1) / 2;
                        VVal::AInt((0..n).map(|_| Some(pick_i(rng).rem_euclid(1000))).collect())
                    }
                    "FC" => VVal::Char(*rng.pick(&['x', 'Q'])),
                    _ => {
                        let n = 1 + rng.below(3) as usize;
                        VVal::AStr((0..n).map(|i| Some(format!("t{i}"))).collect())
                    }
                };
                smp.push(if missing { None } else { Some(v) });
            }
            r.samples.push(smp);
        }
        // keep clear of two known C09/C10 defects: a FORMAT column in which every sample is
        // missing, and (excluded by GT always present) a sample with no value at all
        for j in 1..r.keys.len() {
            if r.samples.iter().all(|s| s[j].is_none()) {
                let fill = r.samples.iter().position(|_| true).unwrap();
                let v = match r.keys[j].as_str() {
                    "DP" => VVal::Int(3),
                    "XQ" => VVal::Float(fbits("0.5")),
                    "AD" => VVal::AInt(vec![Some(1); nall]),
                    "FT" => VVal::Str("PASS".into()),
                    "PL" => VVal::AInt(vec![Some(0); nall * (nall + 1) / 2]),
                    "FC" => VVal::Char('x'),
                    _ => VVal::AStr(vec![Some("v".into())]),
                };
                r.samples[fill][j] = Some(v);
            }
        }
    }
    r
}

pub fn gen_vdoc(rng: &mut Rng) -> VDoc {
    let version = *rng.pick(&[(4u32, 2u32), (4, 3), (4, 3), (4, 4), (4, 5)]);
    let nsamples = *rng.pick(&[0usize, 1, 2, 3]);
    let n = match rng.below(12) {
        0 | 1 | 2 => 0, // header only
        3 | 4 => 1,
        5 => 300 + rng.below(300) as usize,
        _ => 2 + rng.below(8) as usize,
    };
    let mut recs: Vec<VRec> = (0..n).map(|i| gen_vrec(rng, i, nsamples)).collect();
    // one document in six has a large FILTER dictionary and records that list several filters,
    // a high-index one before a low-index one
    let extra_filters = if rng.chance(1, 6) { 200 + rng.below(200) as usize } else { 0 };
    if extra_filters > 0 {
        for r in recs.iter_mut() {
            if rng.chance(1, 2) {
                let hi = 130 + rng.below(extra_filters as u64 - 130) as usize;
                let lo = rng.below(100) as usize;
                r.filters = Some(match rng.below(3) {
                    0 => vec![format!("f{hi:03}"), format!("f{lo:03}")],
                    1 => vec![format!("f{lo:03}"), format!("f{hi:03}"), "q10".to_string()],
                    _ => vec![format!("f{hi:03}")],
                });
            }
        }
    }
    VDoc { version, nsamples, recs, extra_filters }
}

/// header + records as the VCF reader parses the harness's own text rendering of the document
pub fn v_parse(d: &VDoc) -> std::io::Result<(vcf::Header, Vec<vcf::variant::RecordBuf>)> {
    let mut text = v_header_text(d);
    for r in &d.recs {
        text += &vrec_text(r);
        text.push('\n');
    }
    let mut rd = vcf::io::Reader::new(text.as_bytes());
    let header = rd.read_header()?;
    let mut out = vec![];
    let mut rec = vcf::variant::RecordBuf::default();
    loop {
        match rd.read_record_buf(&header, &mut rec) {
            Ok(0) => break,
            Ok(_) => out.push(rec.clone()),
            Err(e) => {
                return Err(std::io::Error::new(e.kind(), format!("{e} {:?} at record {}: {}", std::error::Error::source(&e).map(|s| s.to_string()), out.len(), vrec_text(&d.recs[out.len()]))));
            }
        }
    }
    Ok((header, out))
}

/// Field-by-field rendering through the `vcf::variant::Record` trait (harness's own code).
pub fn render_v(header: &vcf::Header, r: &dyn vcf::variant::Record) -> std::io::Result<VRec> {
    use vcf::variant::record::info::field::{value::Array as IArray, Value as IValue};
    use vcf::variant::record::samples::series::{value::genotype::Phasing, value::Array as SArray, Value as SValue};
    let mut o = VRec { chrom: r.reference_sequence_name(header)?.to_string(), ..Default::default() };
    o.pos = r.variant_start().transpose()?.map(usize::from).unwrap_or(0);
    o.ids = r.ids().iter().map(|s| s.to_string()).collect();
    o.refb = String::from_utf8_lossy(&r.reference_bases().iter().collect::<std::io::Result<Vec<u8>>>()?).into_owned();
    for a in r.alternate_bases().iter() {
        o.alts.push(a?.to_string());
    }
    o.qual = r.quality_score().transpose()?.map(f32::to_bits);
    let filters = r.filters();
    if !filters.is_empty() {
        let mut v = vec![];
        for f in filters.iter(header) {
            v.push(f?.to_string());
        }
        o.filters = Some(v);
    }
    fn iarr<T, U>(v: Box<dyn vcf::variant::record::info::field::value::array::Values<'_, T> + '_>, f: impl Fn(T) -> U) -> std::io::Result<Vec<Option<U>>> {
        v.iter().map(|x| x.map(|o| o.map(&f))).collect()
    }
    for field in r.info().iter(header) {
        let (k, v) = field?;
        let v = match v {
            None => VVal::Missing,
            Some(IValue::Integer(n)) => VVal::Int(n),
            Some(IValue::Float(x)) => VVal::Float(x.to_bits()),
            Some(IValue::Flag) => VVal::Flag,
            Some(IValue::Character(c)) => VVal::Char(c),
            Some(IValue::String(s)) => VVal::Str(s.into_owned()),
            Some(IValue::Array(a)) => match a {
                IArray::Integer(v) => VVal::AInt(iarr(v, |x| x)?),
                IArray::Float(v) => VVal::AFloat(iarr(v, f32::to_bits)?),
                IArray::Character(v) => VVal::AChar(iarr(v, |x| x)?),
                IArray::String(v) => VVal::AStr(iarr(v, |x| x.into_owned())?),
            },
        };
        o.info.push((k.to_string(), v));
    }
    let samples = r.samples()?;
    for name in samples.column_names(header) {
        o.keys.push(name?.to_string());
    }
    fn sarr<T, U>(v: Box<dyn vcf::variant::record::samples::series::value::array::Values<'_, T> + '_>, f: impl Fn(T) -> U) -> std::io::Result<Vec<Option<U>>> {
        v.iter().map(|x| x.map(|o| o.map(&f))).collect()
    }
    for smp in samples.iter() {
        let mut vals = vec![];
        for field in smp.iter(header) {
            let (_, v) = field?;
            vals.push(match v {
                None => None,
                Some(SValue::Integer(n)) => Some(VVal::Int(n)),
                Some(SValue::Float(x)) => Some(VVal::Float(x.to_bits())),
                Some(SValue::Character(c)) => Some(VVal::Char(c)),
                Some(SValue::String(s)) => Some(VVal::Str(s.into_owned())),
                Some(SValue::Genotype(g)) => {
                    let mut s = String::new();
                    for (i, a) in g.iter().enumerate() {
                        let (allele, phasing) = a?;
                        if i > 0 {
                            s.push(if phasing == Phasing::Phased { '|' } else { '/' });
                        }
                        match allele {
                            Some(n) => s += &n.to_string(),
                            None => s.push('.'),
                        }
                    }
                    Some(VVal::Geno(s))
                }
                Some(SValue::Array(a)) => {
                    let v = match a {
                        SArray::Integer(v) => VVal::AInt(sarr(v, |x| x)?),
                        SArray::Float(v) => VVal::AFloat(sarr(v, f32::to_bits)?),
                        SArray::Character(v) => VVal::AChar(sarr(v, |x| x)?),
                        SArray::String(v) => VVal::AStr(sarr(v, |x| x.into_owned())?),
                    };
                    // VCF data model: a vector holding one missing element is the missing value `.`
                    // (BCF reads a missing vector-typed value back as `[.]`, VCF text as missing)
                    match &v {
                        VVal::AInt(x) if x == &[None] => None,
                        VVal::AFloat(x) if x == &[None] => None,
                        VVal::AChar(x) if x == &[None] => None,
                        VVal::AStr(x) if x == &[None] => None,
                        _ => Some(v),
                    }
                }
            });
        }
        o.samples.push(vals);
    }
    Ok(o)
}

pub fn show_vrec(r: &VRec) -> String {
    format!("{r:?}")
}

fn v_write(fo: Option<VFmt>, co: Option<Comp>, header: &vcf::Header, recs: &[vcf::variant::RecordBuf]) -> std::io::Result<Vec<u8>> {
    let mut out = Vec::new();
    {
        let mut b = variant::io::writer::Builder::default();
        if let Some(f) = fo {
            b = b.set_format(f);
        }
        if let Some(c) = co {
            b = b.set_compression_method(vcm(c));
        }
        let mut w = b.build_from_writer(&mut out);
        w.write_header(header)?;
        for r in recs {
            w.write_record(header, r)?;
        }
    }
    Ok(out)
}

fn v_builder(fo: Option<VFmt>, co: Option<Comp>) -> variant::io::reader::Builder {
    let mut b = variant::io::reader::Builder::default();
    if let Some(f) = fo {
        b = b.set_format(f);
    }
    if let Some(c) = co {
        b = b.set_compression_method(vcm(c));
    }
    b
}

trait VSource {
    fn header(&mut self) -> std::io::Result<vcf::Header>;
    fn next(&mut self, h: &vcf::Header) -> (std::io::Result<usize>, &'static str, Option<std::io::Result<VRec>>);
}
fn vrendered(res: &std::io::Result<usize>, h: &vcf::Header, rec: &dyn vcf::variant::Record) -> Option<std::io::Result<VRec>> {
    match res {
        Ok(n) if *n > 0 => Some(render_v(h, rec)),
        _ => None,
    }
}
struct UtilV<R: Read>(variant::io::Reader<R>, variant::Record);
impl<R: Read> VSource for UtilV<R> {
    fn header(&mut self) -> std::io::Result<vcf::Header> {
        self.0.read_header()
    }
    fn next(&mut self, h: &vcf::Header) -> (std::io::Result<usize>, &'static str, Option<std::io::Result<VRec>>) {
        let res = self.0.read_record(&mut self.1);
        let r = vrendered(&res, h, &self.1);
        let kind = match &self.1 {
            variant::Record::Vcf(_) => "vcf",
            variant::Record::Bcf(_) => "bcf",
        };
        (res, kind, r)
    }
}
struct VcfSrc<R: std::io::BufRead>(vcf::io::Reader<R>, vcf::Record);
impl<R: std::io::BufRead> VSource for VcfSrc<R> {
    fn header(&mut self) -> std::io::Result<vcf::Header> {
        self.0.read_header()
    }
    fn next(&mut self, h: &vcf::Header) -> (std::io::Result<usize>, &'static str, Option<std::io::Result<VRec>>) {
        let res = self.0.read_record(&mut self.1);
        let r = vrendered(&res, h, &self.1);
        (res, "vcf", r)
    }
}
struct BcfSrc<R: Read>(noodles_bcf::io::Reader<R>, noodles_bcf::Record);
impl<R: Read> VSource for BcfSrc<R> {
    fn header(&mut self) -> std::io::Result<vcf::Header> {
        self.0.read_header()
    }
    fn next(&mut self, h: &vcf::Header) -> (std::io::Result<usize>, &'static str, Option<std::io::Result<VRec>>) {
        let res = self.0.read_record(&mut self.1);
        let r = vrendered(&res, h, &self.1);
        (res, "bcf", r)
    }
}

fn v_transcript(src: &mut dyn VSource, max_records: usize) -> Seen {
    let mut seen = Seen { open: Ok(()), variant: None, header: String::new(), records: vec![] };
    let header = match src.header() {
        Ok(h) => {
            seen.header = format!("ok contigs={} infos={} formats={} samples={}", h.contigs().len(), h.infos().len(), h.formats().len(), h.sample_names().len());
            h
        }
        Err(e) => {
            seen.header = err_text(&e);
            vcf::Header::default()
        }
    };
    loop {
        let (res, kind, rec) = src.next(&header);
        if seen.variant.is_none() {
            seen.variant = Some(kind);
        }
        match (res, rec) {
            (Ok(n), Some(Ok(x))) => seen.records.push(format!("{n}:{}", show_vrec(&x))),
            (Ok(n), Some(Err(e))) => seen.records.push(format!("{n}:field-{}", err_text(&e))),
            (Ok(_), None) => {
                seen.records.push("end".into());
                break;
            }
            (Err(e), _) => {
                seen.records.push(err_text(&e));
                break;
            }
        }
        if seen.records.len() >= max_records {
            break;
        }
    }
    seen
}

/// the util reader with the given overrides; the probe record starts as a `Vcf` record (a BCF
/// reader replaces it, a VCF reader keeps it)
fn v_see(fo: Option<VFmt>, co: Option<Comp>, stream: &[u8], k: usize, max_records: usize) -> Seen {
    match v_builder(fo, co).build_from_reader(reader_for(stream, k)) {
        Ok(r) => v_transcript(&mut UtilV(r, variant::Record::Vcf(vcf::Record::default())), max_records),
        Err(e) => Seen { open: Err(err_text(&e)), variant: None, header: String::new(), records: vec![] },
    }
}

/// the format's OWN reader for `(f, c)`, built without noodles-util
fn v_see_direct(f: VFmt, c: Comp, stream: &[u8], k: usize, max_records: usize) -> Seen {
    use std::io::BufReader;
    let inner = BufReader::new(reader_for(stream, k));
    match (f, c) {
        (VFmt::Vcf, Comp::Plain) => v_transcript(&mut VcfSrc(vcf::io::Reader::new(inner), vcf::Record::default()), max_records),
        (VFmt::Vcf, Comp::Bgzf) => v_transcript(&mut VcfSrc(vcf::io::Reader::new(noodles_bgzf::io::Reader::new(inner)), vcf::Record::default()), max_records),
        (VFmt::Bcf, Comp::Plain) => v_transcript(&mut BcfSrc(noodles_bcf::io::Reader::from(inner), noodles_bcf::Record::default()), max_records),
        (VFmt::Bcf, Comp::Bgzf) => v_transcript(&mut BcfSrc(noodles_bcf::io::Reader::new(inner), noodles_bcf::Record::default()), max_records),
    }
}

// ------------------------------------------------------------------ observing the reader's choice

fn class_of(text: &str) -> String {
    // "err:eof:message" → "err:eof"
    let mut it = text.splitn(3, ':');
    format!("{}:{}", it.next().unwrap_or(""), it.next().unwrap_or(""))
}

struct Decision {
    /// canonical answer: `sam plain`, `sam *` (compression not observable), `err:eof`
    answer: String,
    obs: &'static str,
    fmt: Option<&'static str>,
    comp: Option<Comp>,
    /// the autodetecting reader behaved like no explicit configuration of its own format
    inconsistent: Option<String>,
    auto: Seen,
}

impl Seen {
    /// the same transcript with every error message reduced to its class
    fn coarse(&self) -> Seen {
        fn strip(t: &str) -> String {
            match t.find("err:") {
                Some(i) => format!("{}{}", &t[..i], class_of(&t[i..])),
                None => t.to_string(),
            }
        }
        Seen { open: self.open.clone().map_err(|e| strip(&e)), variant: self.variant, header: strip(&self.header), records: self.records.iter().map(|r| strip(r)).collect() }
    }
}

fn panicked(msg: String) -> Seen {
    Seen { open: Err(format!("panic:{msg}")), variant: None, header: String::new(), records: vec![] }
}

fn decide(see: &dyn Fn(Option<&'static str>, Option<Comp>, bool) -> Seen) -> Decision {
    // see(format override, compression override, explicit?) — explicit=false: the configuration under test
    let auto = see(None, None, false);
    if let Err(e) = &auto.open {
        return Decision { answer: class_of(e), obs: "fc", fmt: None, comp: None, inconsistent: None, auto };
    }
    let f0 = auto.variant.unwrap();
    let p = see(Some(f0), Some(Comp::Plain), true);
    let b = see(Some(f0), Some(Comp::Bgzf), true);
    // exact transcripts first (error messages tell the two interpretations of garbage apart); if the
    // generic reader matches neither word for word, compare with the messages reduced to their
    // classes, so that a reworded error is not reported as a wrong choice
    let (mut eq_p, mut eq_b) = (auto == p, auto == b);
    if !eq_p && !eq_b {
        (eq_p, eq_b) = (auto.coarse() == p.coarse(), auto.coarse() == b.coarse());
    }
    let (comp, obs, inconsistent) = match (eq_p, eq_b) {
        (true, false) => (Some(Comp::Plain), "fc", None),
        (false, true) => (Some(Comp::Bgzf), "fc", None),
        (true, true) => (None, "f", None),
        (false, false) => (None, "f", Some(format!("auto {auto:?} / explicit plain {p:?} / explicit bgzf {b:?}"))),
    };
    let answer = format!("{f0} {}", comp.map(Comp::s).unwrap_or("*"));
    Decision { answer, obs, fmt: Some(f0), comp, inconsistent, auto }
}

fn afmt_of(s: &str) -> AFmt {
    match s {
        "sam" => AFmt::Sam,
        "bam" => AFmt::Bam,
        _ => AFmt::Cram,
    }
}
fn vfmt_of(s: &str) -> VFmt {
    if s == "vcf" { VFmt::Vcf } else { VFmt::Bcf }
}

const SEE_RECORDS: usize = 5;

fn a_decide(fo: Option<AFmt>, co: Option<Comp>, stream: &[u8], k: usize) -> Decision {
    decide(&|f, c, explicit| {
        if explicit {
            guarded(|| a_see_direct(afmt_of(f.unwrap()), c.unwrap(), stream, k, SEE_RECORDS)).unwrap_or_else(panicked)
        } else {
            guarded(|| a_see(fo, co, stream, k, SEE_RECORDS)).unwrap_or_else(panicked)
        }
    })
}
fn v_decide(fo: Option<VFmt>, co: Option<Comp>, stream: &[u8], k: usize) -> Decision {
    decide(&|f, c, explicit| {
        if explicit {
            guarded(|| v_see_direct(vfmt_of(f.unwrap()), c.unwrap(), stream, k, SEE_RECORDS)).unwrap_or_else(panicked)
        } else {
            guarded(|| v_see(fo, co, stream, k, SEE_RECORDS)).unwrap_or_else(panicked)
        }
    })
}

/// One `adet` / `vdet` correspondence request: the model gets the (truncated) window, the inflated
/// prefix exactly as `read_exact(&mut [0; n])` on the harness's own decoder sees it, and the overrides.
fn emit_det(ctx: &mut Ctx, family: char, fo: Option<&'static str>, co: Option<Comp>, stream: &[u8], k: usize, d: &Decision) {
    let w = window(stream, k);
    let n = if family == 'a' { 4 } else { 3 };
    let (infl, stop) = observe_inflate(w, n);
    ctx.corr(
        format!("c20 {family}det {} {} {} {} {} {}", opt_s(fo), co.map(Comp::s).unwrap_or("-"), hex(&w[..w.len().min(16)]), hex(&infl), opt_s(stop), d.obs),
        d.answer.clone(),
    );
    ctx.bump(&format!("{family}det_answer_{}", d.answer.replace(' ', "_")));
    if d.obs == "f" {
        ctx.bump(&format!("{family}det_compression_not_observable"));
    }
}

// ------------------------------------------------------------------ alignment: one document, all formats, all pairs

const A_KINDS: [(AFmt, Comp); 5] = [(AFmt::Sam, Comp::Plain), (AFmt::Sam, Comp::Bgzf), (AFmt::Bam, Comp::Bgzf), (AFmt::Bam, Comp::Plain), (AFmt::Cram, Comp::Plain)];
const V_KINDS: [(VFmt, Comp); 4] = [(VFmt::Vcf, Comp::Plain), (VFmt::Vcf, Comp::Bgzf), (VFmt::Bcf, Comp::Bgzf), (VFmt::Bcf, Comp::Plain)];

/// documented normal forms: BAM stores bases in a 4-bit alphabet (upper case); CRAM stores the
/// alignment as features against the reference (`=`/`X` come back as `M`) and upper-case bases
pub fn a_nf(f: AFmt, r: &ARec) -> ARec {
    let mut r = r.clone();
    match f {
        AFmt::Sam => {}
        AFmt::Bam => r.seq.make_ascii_uppercase(),
        AFmt::Cram => {
            r.seq.make_ascii_uppercase();
            let mut out: Vec<(char, usize)> = vec![];
            for &(c, n) in &r.cigar {
                let c = if c == '=' || c == 'X' { 'M' } else { c };
                match out.last_mut() {
                    Some(l) if l.0 == c => l.1 += n,
                    _ => out.push((c, n)),
                }
            }
            r.cigar = out;
        }
    }
    r
}

fn a_header_summary(h: &sam::Header) -> String {
    let refs: Vec<String> = h.reference_sequences().iter().map(|(n, m)| format!("{}:{}", n, usize::from(m.length()))).collect();
    let rgs: Vec<String> = h.read_groups().keys().map(|k| k.to_string()).collect();
    let pgs: Vec<String> = h.programs().as_ref().keys().map(|k| k.to_string()).collect();
    let cos: Vec<String> = h.comments().iter().map(|c| c.to_string()).collect();
    format!("hd={} refs=[{}] rg=[{}] pg=[{}] co=[{}]", h.header().is_some(), refs.join(","), rgs.join(","), pgs.join(","), cos.join("|"))
}

/// read everything with the generic reader that is told nothing; `iter` selects `records()` vs `read_record`
fn a_read_all(stream: &[u8], iter: bool) -> std::io::Result<(sam::Header, &'static str, Vec<ARec>)> {
    let mut r = a_builder(None, None).build_from_reader(std::io::Cursor::new(stream.to_vec()))?;
    let header = r.read_header()?;
    let mut out = vec![];
    let mut kind = "?";
    if iter {
        for rec in r.records(&header) {
            out.push(render_a(&header, rec?.as_ref())?);
        }
    } else {
        let mut rec = alignment::Record::Cram(RecordBuf::default());
        loop {
            let n = r.read_record(&header, &mut rec);
            kind = variant_of(&rec);
            if n? == 0 {
                break;
            }
            out.push(render_a(&header, &rec)?);
        }
    }
    Ok((header, kind, out))
}

/// generic reader (told nothing) piped into the generic writer of `(f, c)`
fn a_convert(stream: &[u8], f: AFmt, c: Comp, iter: bool) -> std::io::Result<Vec<u8>> {
    let mut r = a_builder(None, None).build_from_reader(std::io::Cursor::new(stream.to_vec()))?;
    let header = r.read_header()?;
    let mut out = Vec::new();
    {
        let mut w = alignment::io::writer::Builder::default().set_reference_sequence_repository(repository()).set_format(f).set_compression_method(acm(c)).build_from_writer(&mut out)?;
        w.write_header(&header)?;
        // a record the target writer rejects is reported with its position and name
        let named = |e: std::io::Error, i: usize, name: Option<&[u8]>| std::io::Error::new(e.kind(), format!("{e} (record {i}, name {:?})", name.map(|n| String::from_utf8_lossy(n).into_owned())));
        let mut i = 0;
        if iter {
            for rec in r.records(&header) {
                let rec = rec?;
                w.write_record(&header, &rec).map_err(|e| named(e, i, sam::alignment::Record::name(&rec).map(|n| n.as_ref())))?;
                i += 1;
            }
        } else {
            let mut rec = alignment::Record::Cram(RecordBuf::default());
            while r.read_record(&header, &mut rec)? != 0 {
                w.write_record(&header, &rec).map_err(|e| named(e, i, sam::alignment::Record::name(&rec).map(|n| n.as_ref())))?;
                i += 1;
            }
        }
        w.finish(&header)?;
    }
    Ok(out)
}

fn first_diff<T: PartialEq>(exp: &[T], got: &[T], show: impl Fn(&T) -> String) -> Option<String> {
    if exp.len() != got.len() {
        return Some(format!("{} records expected, {} read", exp.len(), got.len()));
    }
    exp.iter().zip(got).position(|(a, b)| a != b).map(|i| format!("record {i}: expected {} | read {}", show(&exp[i]), show(&got[i])))
}

fn ks_for(rng: &mut Rng, stream_len: usize) -> Vec<usize> {
    let mut ks = vec![WINDOW];
    ks.push(*rng.pick(&[1usize, 2, 3, 4, 5, 6, 7]));
    ks.push(*rng.pick(&[16usize, 17, 18, 19, 20, 25, 26, 27, 28, 29, 30, 40, 64, 100, 1000]));
    if stream_len > 1 {
        ks.push(1 + rng.below(stream_len.min(WINDOW) as u64) as usize);
    }
    ks
}

/// laws the model assumes of the BGZF layer, checked on the real components for every window used
fn check_bgzf_law(ctx: &mut Ctx, stream: &[u8], payload: &[u8], k: usize, n: usize, case: &str) {
    let w = window(stream, k);
    let (infl, stop) = observe_inflate(w, n);
    if !payload.starts_with(&infl) {
        ctx.fail("bgzf-law", format!("first {k} bytes of a written BGZF stream inflate to {} which is no prefix of the payload", hex(&infl)), case.into());
    }
    if !(stop.is_none() || stop == Some("eof")) {
        ctx.fail("bgzf-law", format!("decoder over the first {k} bytes of a well-formed BGZF stream failed with {stop:?}"), case.into());
    }
    if (k >= WINDOW || k >= stream.len()) && infl.len() < n.min(payload.len()) {
        ctx.fail("bgzf-law", format!("a full first window inflates to only {} bytes (payload {} bytes)", infl.len(), payload.len()), case.into());
    }
    if stream.len() < 2 || stream[0] != 0x1f || stream[1] != 0x8b {
        ctx.fail("bgzf-law", "a BGZF stream does not start with 1f 8b".into(), case.into());
    }
}

/// A tolerant pipe: the caller goes on after the writer rejected a record. Whatever the writer
/// ACCEPTED must read back as those records — a rejected record must leave nothing behind (no partial
/// line, no stale bytes in a scratch buffer).
fn tolerant_pipe(ctx: &mut Ctx, doc: &ADoc, case: &str, rng: &mut Rng) {
    if doc.recs.is_empty() || doc.recs.len() > 20 {
        return;
    }
    let header = a_header(doc.hkind);
    // a record every writer rejects part-way: four bases, three quality scores
    let bad = ARec { name: Some(b"bad".to_vec()), flags: 4, seq: b"ACGT".to_vec(), qual: vec![30, 30, 30], ..Default::default() };
    let at = rng.below(doc.recs.len() as u64 + 1) as usize;
    let twice = rng.chance(1, 3);
    let mut recs: Vec<(ARec, bool)> = doc.recs.iter().cloned().map(|r| (r, false)).collect();
    recs.insert(at, (bad.clone(), true));
    if twice {
        recs.insert(at, (bad, true));
    }
    for (f, c) in A_KINDS {
        if f == AFmt::Cram {
            continue;
        }
        let tag = format!("{}.{}", afmt_s(f), c.s());
        ctx.eval(Some(fnv(format!("{case} pipe {tag}").as_bytes())));
        let res = guarded(|| -> std::io::Result<(Vec<u8>, Vec<bool>)> {
            let mut out = Vec::new();
            let mut accepted = vec![];
            {
                let mut w = alignment::io::writer::Builder::default().set_reference_sequence_repository(repository()).set_format(f).set_compression_method(acm(c)).build_from_writer(&mut out)?;
                w.write_header(&header)?;
                for (r, _) in &recs {
                    accepted.push(w.write_record(&header, &to_record_buf(r)).is_ok());
                }
                w.finish(&header)?;
            }
            Ok((out, accepted))
        });
        let (stream, accepted) = match res {
            Ok(Ok(x)) => x,
            Ok(Err(_)) => {
                ctx.bump(&format!("pipe_write_failed_{tag}"));
                continue;
            }
            Err(p) => {
                ctx.fail("panic", format!("{tag} writer panicked in a tolerant pipe: {p}"), case.into());
                continue;
            }
        };
        if recs.iter().zip(&accepted).any(|((_, is_bad), ok)| *is_bad && *ok) {
            ctx.bump(&format!("pipe_bad_record_accepted_{tag}"));
            continue; // the writer accepts the record: nothing to test here
        }
        let expect: Vec<String> = recs.iter().zip(&accepted).filter(|(_, ok)| **ok).map(|((r, _), _)| show_arec(&a_nf(f, r))).collect();
        let got = guarded(|| -> std::io::Result<Vec<String>> {
            let mut r = a_builder(Some(f), Some(c)).build_from_reader(&stream[..])?;
            let h = r.read_header()?;
            let mut out = vec![];
            for x in r.records(&h) {
                let x = x?;
                out.push(show_arec(&render_a(&h, x.as_ref())?));
            }
            Ok(out)
        });
        match got {
            Ok(Ok(g)) if g == expect => ctx.bump("pipe_ok"),
            other => ctx.fail(
                "tolerant-pipe",
                format!(
                    "{tag}: {} record(s) written, {} rejected by the writer (a record with 4 bases and 3 quality scores, at position {at}); the {} accepted record(s) read back as {}",
                    recs.len(),
                    accepted.iter().filter(|a| !**a).count(),
                    expect.len(),
                    match other { Ok(Ok(g)) => format!("{} record(s), first difference at {:?}", g.len(), g.iter().zip(&expect).position(|(a, b)| a != b)), Ok(Err(e)) => format!("error {e}"), Err(p) => format!("panic {p}") }
                ),
                case.into(),
            ),
        }
    }
}

fn adoc_case(ctx: &mut Ctx, doc: &ADoc, case: &str, rng: &mut Rng, cram: bool, full_pairs: bool) {
    tolerant_pipe(ctx, doc, case, rng);
    // one document in three is written as CRAM 3.1 (file definition `CRAM\x03\x01`) where CRAM is written
    let v31 = rng.chance(1, 3);
    CRAM_31.with(|c| c.set(v31));
    ctx.bump(if v31 { "adoc_cram_version_3.1" } else { "adoc_cram_version_3.0" });
    adoc_case_inner(ctx, doc, case, rng, cram, full_pairs);
    CRAM_31.with(|c| c.set(false));
}

fn adoc_case_inner(ctx: &mut Ctx, doc: &ADoc, case: &str, rng: &mut Rng, cram: bool, full_pairs: bool) {
    let header = a_header(doc.hkind);
    let bufs: Vec<RecordBuf> = doc.recs.iter().map(to_record_buf).collect();
    let hsum = a_header_summary(&header);
    let mut streams: Vec<((AFmt, Comp), Vec<u8>)> = vec![];
    // kinds whose detection already failed for this document: their consequences are not reported again
    let mut undetected: Vec<(AFmt, Comp)> = vec![];
    ctx.bump(&format!("adoc_header_kind_{}", doc.hkind));
    ctx.bump(&format!("adoc_records_{}", match doc.recs.len() { 0 => "0", 1 => "1", 2..=20 => "2-20", _ => ">20" }));
    for (f, c) in A_KINDS {
        if f == AFmt::Cram && !cram {
            continue;
        }
        let tag = format!("{}.{}", afmt_s(f), c.s());
        let cls = |base: &str| if f == AFmt::Cram { format!("{base}-cram") } else { base.to_string() };
        ctx.eval(Some(fnv(format!("{case} write {tag}").as_bytes())));
        let stream = match guarded(|| a_write(Some(f), Some(c), &header, &bufs)) {
            Ok(Ok(s)) => s,
            Ok(Err(e)) => {
                // a writer may reject a document (an error is not a violation); count it
                ctx.bump(&format!("a_write_rejected_{tag}"));
                ctx.sample(|| format!("{case}: {tag} writer rejected the document: {e}"));
                continue;
            }
            Err(p) => {
                ctx.fail(&cls("panic"), format!("{tag} writer panicked: {p}"), case.into());
                continue;
            }
        };
        // 1. the writer wrote what it was asked for (harness's own sniffing)
        let (sf, sc) = sniff_a(&stream);
        let kind_ok = sf == afmt_s(f) && sc == c;
        if !kind_ok {
            // header-less SAM whose first line begins with `CRAM` is indistinguishable for the sniffer too
            if !(f == AFmt::Sam && sc == c && doc.hkind == 0) {
                ctx.fail("writer-kind", format!("writer asked for {tag} produced a {sf}.{} stream", sc.s()), case.into());
            }
        }
        let (_, payload) = sniff(&stream);
        // leading bytes (model: aPlain)
        match f {
            AFmt::Sam => {
                let name = doc.recs.first().map(|r| r.name.as_ref().map(|n| hex(n)).unwrap_or("*".into())).unwrap_or("-".into());
                let n = if doc.hkind > 0 { 1 } else { doc.recs.first().map(|r| (r.name.as_ref().map(|n| n.len()).unwrap_or(1) + 1).min(6)).unwrap_or(0) };
                ctx.corr(format!("c20 alead sam {} {}", (doc.hkind > 0) as u8, name), format!("{} {}", hex(&payload[..n.min(payload.len())]), if payload.is_empty() { "empty" } else { "nonempty" }));
            }
            AFmt::Bam => ctx.corr("c20 alead bam".into(), hex(&payload[..payload.len().min(4)])),
            AFmt::Cram => ctx.corr(if CRAM_31.with(|c| c.get()) { "c20 alead cram31".into() } else { "c20 alead cram".into() }, hex(&payload[..payload.len().min(6)])),
        }
        // 2. detection, at several first-read sizes (correspondence) and at the full window (oracle)
        for k in ks_for(rng, stream.len()) {
            if c == Comp::Bgzf {
                check_bgzf_law(ctx, &stream, &payload, k, 4, case);
            }
            let d = a_decide(None, None, &stream, k);
            if let Some(text) = &d.inconsistent {
                ctx.fail("auto-not-explicit", format!("{tag} k={k}: the autodetecting reader behaves like neither explicit compression of its format: {}", &text[..text.len().min(600)]), case.into());
                continue;
            }
            emit_det(ctx, 'a', None, None, &stream, k, &d);
            if k != WINDOW || !kind_ok {
                continue;
            }
            ctx.eval(Some(fnv(format!("{case} detect {tag}").as_bytes())));
            if let Err(e) = &d.auto.open {
                ctx.fail("detect-open", format!("{tag} stream ({} bytes, {} records, header kind {}) written by the generic writer cannot be opened by the generic reader: {e}", stream.len(), doc.recs.len(), doc.hkind), case.into());
                undetected.push((f, c));
                continue;
            }
            if d.fmt != Some(afmt_s(f)) {
                ctx.fail("detect-format", format!("{tag} stream (first bytes {}) is taken for {}", hex(&stream[..stream.len().min(12)]), d.fmt.unwrap_or("?")), case.into());
                undetected.push((f, c));
                continue;
            }
            if let Some(dc) = d.comp {
                if dc != c {
                    ctx.fail("detect-compression", format!("{tag} stream is read as {}", dc.s()), case.into());
                    undetected.push((f, c));
                    continue;
                }
            }
        }
        // a few override combinations (correspondence only)
        if rng.chance(1, 3) {
            let fo = *rng.pick(&[None, Some(AFmt::Sam), Some(AFmt::Bam), Some(AFmt::Cram)]);
            let co = *rng.pick(&[None, Some(Comp::Plain), Some(Comp::Bgzf)]);
            // (a BAM reader forced onto a non-BAM stream allocates whatever the text says l_text is: C15's business)
            let bam_ok = fo != Some(AFmt::Bam) || payload.starts_with(b"BAM\x01");
            if bam_ok && (fo.is_some() != co.is_some() || (fo == Some(AFmt::Cram) && co == Some(Comp::Bgzf))) {
                let d = a_decide(fo, co, &stream, WINDOW);
                if d.inconsistent.is_none() {
                    emit_det(ctx, 'a', fo.map(afmt_s), co, &stream, WINDOW, &d);
                }
            }
        }
        streams.push(((f, c), stream));
    }
    // 3. round trip through the generic reader that is told nothing
    for (idx, ((f, c), stream)) in streams.iter().enumerate() {
        let tag = format!("{}.{}", afmt_s(*f), c.s());
        let cls = |base: &str| if *f == AFmt::Cram { format!("{base}-cram") } else { base.to_string() };
        let iter = (idx + doc.recs.len()) % 2 == 0;
        if undetected.contains(&(*f, *c)) {
            continue;
        }
        ctx.eval(Some(fnv(format!("{case} roundtrip {tag}").as_bytes())));
        let exp: Vec<ARec> = doc.recs.iter().map(|r| a_nf(*f, r)).collect();
        match guarded(|| a_read_all(stream, iter)) {
            Ok(Ok((h, kind, got))) => {
                if !iter && kind != afmt_s(*f) {
                    ctx.fail("detect-format", format!("{tag} stream: read_record installs a {kind} record"), case.into());
                }
                if a_header_summary(&h) != hsum {
                    ctx.fail(&cls("roundtrip-header"), format!("{tag}: header written {hsum} read {}", a_header_summary(&h)), case.into());
                }
                if let Some(d) = first_diff(&exp, &got, show_arec) {
                    ctx.fail(&cls("roundtrip-records"), format!("{tag}: {d}"), case.into());
                }
            }
            Ok(Err(e)) => ctx.fail(&cls("roundtrip-read"), format!("{tag}: reading back failed: {e}"), case.into()),
            Err(p) => ctx.fail(&cls("panic"), format!("{tag} reader panicked: {p}"), case.into()),
        }
    }
    // 4. conversions: reader(src) → writer(tgt) → reader(tgt)
    for (si, ((sf, sc), sstream)) in streams.iter().enumerate() {
        // a source the reader cannot open / misdetects is already reported above
        if undetected.contains(&(*sf, *sc)) {
            continue;
        }
        for (ti, (tf, tc)) in A_KINDS.iter().enumerate() {
            if (*tf == AFmt::Cram && !cram) || undetected.contains(&(*tf, *tc)) {
                continue;
            }
            if !full_pairs && (si * 5 + ti + doc.recs.len()) % 6 != 0 {
                continue;
            }
            let tag = format!("{}.{}->{}.{}", afmt_s(*sf), sc.s(), afmt_s(*tf), tc.s());
            let cls = |base: &str| if *sf == AFmt::Cram || *tf == AFmt::Cram { format!("{base}-cram") } else { base.to_string() };
            let iter = (si + ti) % 2 == 0;
            ctx.eval(Some(fnv(format!("{case} convert {tag}").as_bytes())));
            ctx.bump("a_conversions");
            let exp: Vec<ARec> = doc.recs.iter().map(|r| a_nf(*tf, &a_nf(*sf, r))).collect();
            let res = guarded(|| -> std::io::Result<(sam::Header, Vec<ARec>, (&'static str, Comp))> {
                let out = a_convert(sstream, *tf, *tc, iter)?;
                let k = sniff_a(&out);
                let (h, _, got) = a_read_all(&out, !iter)?;
                Ok((h, got, k))
            });
            match res {
                Ok(Ok((h, got, _))) => {
                    if a_header_summary(&h) != hsum {
                        ctx.fail(&cls("convert-header"), format!("{tag}: header {hsum} became {}", a_header_summary(&h)), case.into());
                    }
                    if let Some(d) = first_diff(&exp, &got, show_arec) {
                        ctx.fail(&cls("convert-records"), format!("{tag}: {d}"), case.into());
                    }
                }
                Ok(Err(e)) => ctx.fail(&cls("convert-failed"), format!("{tag}: {e}"), case.into()),
                Err(p) => ctx.fail(&cls("panic"), format!("{tag} panicked: {p}"), case.into()),
            }
        }
    }
}

// ------------------------------------------------------------------ variant: one document, all formats, all pairs

fn v_header_summary(h: &vcf::Header) -> String {
    let contigs: Vec<String> = h.contigs().keys().map(|k| k.to_string()).collect();
    let infos: Vec<String> = h.infos().keys().map(|k| k.to_string()).collect();
    let filters: Vec<String> = h.filters().keys().filter(|k| k.as_str() != "PASS").map(|k| k.to_string()).collect();
    let formats: Vec<String> = h.formats().keys().map(|k| k.to_string()).collect();
    let samples: Vec<String> = h.sample_names().iter().map(|k| k.to_string()).collect();
    format!("v={:?} contigs=[{}] info=[{}] filter=[{}] format=[{}] samples=[{}]", (h.file_format().major(), h.file_format().minor()), contigs.join(","), infos.join(","), filters.join(","), formats.join(","), samples.join(","))
}

fn v_read_all(stream: &[u8], iter: bool) -> std::io::Result<(vcf::Header, &'static str, Vec<VRec>)> {
    let mut r = v_builder(None, None).build_from_reader(std::io::Cursor::new(stream.to_vec()))?;
    let header = r.read_header()?;
    let mut out = vec![];
    let mut kind = "?";
    if iter {
        for rec in r.records(&header) {
            out.push(render_v(&header, rec?.as_ref())?);
        }
    } else {
        let mut rec = variant::Record::Vcf(vcf::Record::default());
        loop {
            let n = r.read_record(&mut rec);
            kind = match &rec {
                variant::Record::Vcf(_) => "vcf",
                variant::Record::Bcf(_) => "bcf",
            };
            if n? == 0 {
                break;
            }
            out.push(render_v(&header, &rec)?);
        }
    }
    Ok((header, kind, out))
}

fn v_convert(stream: &[u8], f: VFmt, c: Comp, iter: bool) -> std::io::Result<Vec<u8>> {
    let mut r = v_builder(None, None).build_from_reader(std::io::Cursor::new(stream.to_vec()))?;
    let header = r.read_header()?;
    let mut out = Vec::new();
    {
        let mut w = variant::io::writer::Builder::default().set_format(f).set_compression_method(vcm(c)).build_from_writer(&mut out);
        w.write_header(&header)?;
        if iter {
            for rec in r.records(&header) {
                w.write_record(&header, rec?.as_ref())?;
            }
        } else {
            let mut rec = variant::Record::Vcf(vcf::Record::default());
            while r.read_record(&mut rec)? != 0 {
                w.write_record(&header, &rec)?;
            }
        }
    }
    Ok(out)
}

/// BCF only (VCF text cannot express it: noodles' VCF reader refuses an 8-column record under a
/// header with samples): a document whose header has samples and in which every second record
/// has NO sample columns (BCF: n_fmt = 0, l_indiv = 0), written by the generic writer and read back
/// by the generic reader through both entry points, each of which reuses one record between calls.
/// A reader that leaves the previous record's samples in the reused record invents genotypes.
fn bcf_sampleless_case(ctx: &mut Ctx, header: &vcf::Header, bufs: &[vcf::variant::RecordBuf], case: &str) {
    if header.sample_names().is_empty() || bufs.len() < 2 {
        return;
    }
    let mut mixed = bufs.to_vec();
    for (i, b) in mixed.iter_mut().enumerate() {
        if i % 2 == 1 {
            *b.samples_mut() = Default::default();
        }
    }
    let mut expect: Vec<VRec> = match mixed.iter().map(|b| render_v(header, b)).collect::<std::io::Result<Vec<_>>>() {
        Ok(x) => x,
        Err(_) => return,
    };
    for r in expect.iter_mut() {
        if r.keys.is_empty() {
            r.samples.clear();
        }
    }
    for c in [Comp::Plain, Comp::Bgzf] {
        let tag = format!("bcf.{}", c.s());
        let stream = match guarded(|| v_write(Some(VFmt::Bcf), Some(c), header, &mixed)) {
            Ok(Ok(s)) => s,
            Ok(Err(_)) => {
                ctx.bump("sampleless_write_rejected");
                continue;
            }
            Err(p) => {
                ctx.fail("panic", format!("{tag} writer panicked on a document with sample-less records: {p}"), case.into());
                continue;
            }
        };
        for iter in [false, true] {
            ctx.eval(Some(fnv(format!("{case} sampleless {tag} {iter}").as_bytes())));
            match guarded(|| v_read_all(&stream, iter)) {
                Ok(Ok((_, _, mut got))) => {
                    // no FORMAT keys: "no rows" and "one empty row per header sample" are the same
                    // content (the lazy BCF record yields the latter); canonicalised, not compared
                    for r in got.iter_mut() {
                        if r.keys.is_empty() {
                            r.samples.clear();
                        }
                    }
                    if let Some(d) = first_diff(&expect, &got, show_vrec) {
                        ctx.fail("roundtrip-records", format!("{tag} ({}), every second record without sample columns: {d}", if iter { "records()" } else { "read_record" }), case.into());
                    } else {
                        ctx.bump("sampleless_ok");
                    }
                }
                Ok(Err(e)) => ctx.fail("roundtrip-records", format!("{tag}: a document with sample-less records does not read back: {e}"), case.into()),
                Err(p) => ctx.fail("panic", format!("{tag} reader panicked on a document with sample-less records: {p}"), case.into()),
            }
        }
    }
}

fn vdoc_case(ctx: &mut Ctx, doc: &VDoc, case: &str, rng: &mut Rng, full_pairs: bool) {
    let (header, bufs) = match v_parse(doc) {
        Ok(x) => x,
        Err(e) => {
            // the generator's own text must be valid VCF: a failure here is a harness defect or a C09 finding
            ctx.fail("generator-text-rejected", format!("vcf::io::Reader rejected the generated text: {e}"), case.into());
            return;
        }
    };
    let hsum = v_header_summary(&header);
    bcf_sampleless_case(ctx, &header, &bufs, case);
    let mut streams: Vec<((VFmt, Comp), Vec<u8>)> = vec![];
    ctx.bump(&format!("vdoc_samples_{}", doc.nsamples));
    ctx.bump(&format!("vdoc_records_{}", match doc.recs.len() { 0 => "0", 1 => "1", 2..=20 => "2-20", _ => ">20" }));
    for (f, c) in V_KINDS {
        let tag = format!("{}.{}", vfmt_s(f), c.s());
        ctx.eval(Some(fnv(format!("{case} write {tag}").as_bytes())));
        let stream = match guarded(|| v_write(Some(f), Some(c), &header, &bufs)) {
            Ok(Ok(s)) => s,
            Ok(Err(e)) => {
                ctx.bump(&format!("v_write_rejected_{tag}"));
                ctx.sample(|| format!("{case}: {tag} writer rejected the document: {e}"));
                continue;
            }
            Err(p) => {
                ctx.fail("panic", format!("{tag} writer panicked: {p}"), case.into());
                continue;
            }
        };
        let (sf, sc) = sniff_v(&stream);
        let kind_ok = sf == vfmt_s(f) && sc == c;
        if !kind_ok {
            ctx.fail("writer-kind", format!("writer asked for {tag} produced a {sf}.{} stream", sc.s()), case.into());
        }
        let (_, payload) = sniff(&stream);
        match f {
            VFmt::Vcf => ctx.corr("c20 vlead vcf".into(), hex(&payload[..payload.len().min(17)])),
            VFmt::Bcf => ctx.corr("c20 vlead bcf".into(), hex(&payload[..payload.len().min(5)])),
        }
        for k in ks_for(rng, stream.len()) {
            if sc == Comp::Bgzf {
                check_bgzf_law(ctx, &stream, &payload, k, 3, case);
            }
            let d = v_decide(None, None, &stream, k);
            if let Some(text) = &d.inconsistent {
                ctx.fail("auto-not-explicit", format!("{tag} k={k}: the autodetecting reader behaves like neither explicit compression of its format: {}", &text[..text.len().min(600)]), case.into());
                continue;
            }
            emit_det(ctx, 'v', None, None, &stream, k, &d);
            if k != WINDOW || !kind_ok {
                continue;
            }
            ctx.eval(Some(fnv(format!("{case} detect {tag}").as_bytes())));
            if let Err(e) = &d.auto.open {
                ctx.fail("detect-open", format!("{tag} stream ({} bytes) written by the generic writer cannot be opened by the generic reader: {e}", stream.len()), case.into());
                continue;
            }
            if d.fmt != Some(vfmt_s(f)) {
                ctx.fail("detect-format", format!("{tag} stream is taken for {}", d.fmt.unwrap_or("?")), case.into());
                continue;
            }
            if let Some(dc) = d.comp {
                if dc != c {
                    ctx.fail("detect-compression", format!("{tag} stream is read as {}", dc.s()), case.into());
                }
            }
        }
        if rng.chance(1, 3) {
            let fo = *rng.pick(&[None, Some(VFmt::Vcf), Some(VFmt::Bcf)]);
            let co = *rng.pick(&[None, Some(Comp::Plain), Some(Comp::Bgzf)]);
            let bcf_ok = fo != Some(VFmt::Bcf) || payload.starts_with(b"BCF");
            if bcf_ok && fo.is_some() != co.is_some() {
                let d = v_decide(fo, co, &stream, WINDOW);
                if d.inconsistent.is_none() {
                    emit_det(ctx, 'v', fo.map(vfmt_s), co, &stream, WINDOW, &d);
                }
            }
        }
        streams.push(((f, c), stream));
    }
    for (idx, ((f, c), stream)) in streams.iter().enumerate() {
        let tag = format!("{}.{}", vfmt_s(*f), c.s());
        let iter = (idx + doc.recs.len()) % 2 == 0;
        ctx.eval(Some(fnv(format!("{case} roundtrip {tag}").as_bytes())));
        match guarded(|| v_read_all(stream, iter)) {
            Ok(Ok((h, kind, got))) => {
                if !iter && kind != vfmt_s(*f) {
                    ctx.fail("detect-format", format!("{tag} stream: read_record installs a {kind} record"), case.into());
                }
                if v_header_summary(&h) != hsum {
                    ctx.fail("roundtrip-header", format!("{tag}: header written {hsum} read {}", v_header_summary(&h)), case.into());
                }
                if let Some(d) = first_diff(&doc.recs, &got, show_vrec) {
                    ctx.fail("roundtrip-records", format!("{tag}: {d}"), case.into());
                }
            }
            Ok(Err(e)) => ctx.fail("roundtrip-read", format!("{tag}: reading back failed: {e}"), case.into()),
            Err(p) => ctx.fail("panic", format!("{tag} reader panicked: {p}"), case.into()),
        }
    }
    for (si, ((sf, sc), sstream)) in streams.iter().enumerate() {
        for (ti, (tf, tc)) in V_KINDS.iter().enumerate() {
            if !full_pairs && (si * 4 + ti + doc.recs.len()) % 5 != 0 {
                continue;
            }
            let tag = format!("{}.{}->{}.{}", vfmt_s(*sf), sc.s(), vfmt_s(*tf), tc.s());
            let iter = (si + ti) % 2 == 0;
            ctx.eval(Some(fnv(format!("{case} convert {tag}").as_bytes())));
            ctx.bump("v_conversions");
            let res = guarded(|| -> std::io::Result<(vcf::Header, Vec<VRec>)> {
                let out = v_convert(sstream, *tf, *tc, iter)?;
                let (h, _, got) = v_read_all(&out, !iter)?;
                Ok((h, got))
            });
            match res {
                Ok(Ok((h, got))) => {
                    if v_header_summary(&h) != hsum {
                        ctx.fail("convert-header", format!("{tag}: header {hsum} became {}", v_header_summary(&h)), case.into());
                    }
                    if let Some(d) = first_diff(&doc.recs, &got, show_vrec) {
                        ctx.fail("convert-records", format!("{tag}: {d}"), case.into());
                    }
                }
                Ok(Err(e)) => ctx.fail("convert-failed", format!("{tag}: {e}"), case.into()),
                Err(p) => ctx.fail("panic", format!("{tag} panicked: {p}"), case.into()),
            }
        }
    }
}

// ------------------------------------------------------------------ writer builder dispatch

fn writer_dispatch(ctx: &mut Ctx) {
    // alignment: every (format option, compression option), an empty document and a one-record document
    let docs = [ADoc { hkind: 2, recs: vec![] }, ADoc { hkind: 2, recs: vec![ARec { name: Some(b"r0".to_vec()), flags: 4, seq: b"ACGT".to_vec(), qual: vec![30; 4], ..Default::default() }] }];
    for doc in &docs {
        let header = a_header(doc.hkind);
        let bufs: Vec<RecordBuf> = doc.recs.iter().map(to_record_buf).collect();
        for fo in [None, Some(AFmt::Sam), Some(AFmt::Bam), Some(AFmt::Cram)] {
            for co in [None, Some(Comp::Plain), Some(Comp::Bgzf)] {
                let case = format!("awriter {} {}", opt_s(fo.map(afmt_s)), co.map(Comp::s).unwrap_or("-"));
                ctx.eval(Some(fnv(format!("{case} {}", doc.recs.len()).as_bytes())));
                let ans = match guarded(|| a_write(fo, co, &header, &bufs)) {
                    Ok(Ok(s)) => {
                        let (f, c) = sniff_a(&s);
                        format!("{f} {}", c.s())
                    }
                    Ok(Err(e)) => errclass(&e).to_string(),
                    Err(p) => format!("panic:{p}"),
                };
                // oracle: the documented contract of the builder
                let want_f = fo.unwrap_or(AFmt::Sam);
                let want_c = co.unwrap_or(if want_f == AFmt::Bam { Comp::Bgzf } else { Comp::Plain });
                let want = if want_f == AFmt::Cram && want_c == Comp::Bgzf { "err:invalid-input".to_string() } else { format!("{} {}", afmt_s(want_f), want_c.s()) };
                if ans != want {
                    ctx.fail("writer-kind", format!("alignment writer builder format={:?} compression={:?}: wrote `{ans}`, documented `{want}`", fo.map(afmt_s), co.map(Comp::s)), case.clone());
                }
                ctx.corr(format!("c20 awr {} {}", opt_s(fo.map(afmt_s)), co.map(Comp::s).unwrap_or("-")), ans);
            }
        }
    }
    let vdocs = [VDoc { extra_filters: 0, version: (4, 3), nsamples: 0, recs: vec![] }, VDoc { extra_filters: 0, version: (4, 4), nsamples: 1, recs: vec![VRec { chrom: "sq0".into(), pos: 7, refb: "A".into(), alts: vec!["C".into()], keys: vec!["GT".into()], samples: vec![vec![Some(VVal::Geno("0/1".into()))]], ..Default::default() }] }];
    for doc in &vdocs {
        let (header, bufs) = v_parse(doc).expect("fixed document");
        for fo in [None, Some(VFmt::Vcf), Some(VFmt::Bcf)] {
            for co in [None, Some(Comp::Plain), Some(Comp::Bgzf)] {
                let case = format!("vwriter {} {}", opt_s(fo.map(vfmt_s)), co.map(Comp::s).unwrap_or("-"));
                ctx.eval(Some(fnv(format!("{case} {}", doc.recs.len()).as_bytes())));
                let ans = match guarded(|| v_write(fo, co, &header, &bufs)) {
                    Ok(Ok(s)) => {
                        let (f, c) = sniff_v(&s);
                        format!("{f} {}", c.s())
                    }
                    Ok(Err(e)) => errclass(&e).to_string(),
                    Err(p) => format!("panic:{p}"),
                };
                let want_f = fo.unwrap_or(VFmt::Vcf);
                let want_c = co.unwrap_or(if want_f == VFmt::Bcf { Comp::Bgzf } else { Comp::Plain });
                let want = format!("{} {}", vfmt_s(want_f), want_c.s());
                if ans != want {
                    ctx.fail("writer-kind", format!("variant writer builder format={:?} compression={:?}: wrote `{ans}`, documented `{want}`", fo.map(vfmt_s), co.map(Comp::s)), case.clone());
                }
                ctx.corr(format!("c20 vwr {} {}", opt_s(fo.map(vfmt_s)), co.map(Comp::s).unwrap_or("-")), ans);
            }
        }
    }
}

// ------------------------------------------------------------------ hand-written windows (correspondence only)

/// Streams that no writer produces but that visit every branch of the two detectors.
pub fn window_corpus() -> Vec<(&'static str, Vec<u8>)> {
    use super::c01::{make_member, stored_member, EOF};
    let bam_raw = a_write(Some(AFmt::Bam), Some(Comp::Plain), &a_header(2), &[]).unwrap();
    let bcf_raw = {
        let (h, b) = v_parse(&VDoc { extra_filters: 0, version: (4, 3), nsamples: 0, recs: vec![] }).unwrap();
        let s = v_write(Some(VFmt::Bcf), Some(Comp::Bgzf), &h, &b).unwrap();
        sniff(&s).1
    };
    let cat = |parts: &[&[u8]]| parts.concat();
    let mut v: Vec<(&'static str, Vec<u8>)> = vec![
        ("empty", vec![]),
        ("one byte", b"B".to_vec()),
        ("BAM without version", b"BAM".to_vec()),
        ("BAM magic only", b"BAM\x01".to_vec()),
        ("BAM wrong version", b"BAM\x02\0\0\0\0\0\0\0\0".to_vec()),
        ("CRAM magic only", b"CRAM".to_vec()),
        ("CRAM + major", b"CRAM\x03".to_vec()),
        ("CRAM 3.0", cat(&[b"CRAM\x03\x00", &[0u8; 20]])),
        ("CRAM 7.7", cat(&[b"CRAM\x07\x07", &[0u8; 20]])),
        ("CRAM 8.0", cat(&[b"CRAM\x08\x00", &[0u8; 20]])),
        ("CRAM 3.8", cat(&[b"CRAM\x03\x08", &[0u8; 20]])),
        ("SAM line named CRAM", b"CRAM\t4\t*\t0\t255\t*\t*\t0\t0\tACGT\t!!!!\n".to_vec()),
        ("SAM line named CRAM1", b"CRAM1\t4\t*\t0\t255\t*\t*\t0\t0\tACGT\t!!!!\n".to_vec()),
        ("SAM line named CRA", b"CRA\t4\t*\t0\t255\t*\t*\t0\t0\tACGT\t!!!!\n".to_vec()),
        ("SAM line named BAM", b"BAM\t4\t*\t0\t255\t*\t*\t0\t0\tACGT\t!!!!\n".to_vec()),
        ("SAM line named BCF", b"BCF\t4\t*\t0\t255\t*\t*\t0\t0\tACGT\t!!!!\n".to_vec()),
        ("SAM header", b"@HD\tVN:1.6\n".to_vec()),
        ("SAM comment only", b"@CO\n".to_vec()),
        ("gzip magic only", vec![0x1f, 0x8b]),
        ("half gzip magic", vec![0x1f]),
        ("1f 8c", vec![0x1f, 0x8c, 0, 0]),
        ("gzip magic + garbage", vec![0x1f, 0x8b, 0xff, 0xff, 0xff, 0xff, 0, 0, 0, 0, 0, 0]),
        ("EOF marker only", EOF.to_vec()),
        ("two EOF markers", cat(&[&EOF, &EOF])),
        ("member of 3 bytes", cat(&[&stored_member(b"BAM"), &EOF])),
        ("member of 2 bytes", cat(&[&stored_member(b"BC"), &EOF])),
        ("magic split over members", cat(&[&stored_member(b"BA"), &stored_member(b"M\x01\0\0\0\0\0\0\0\0"), &EOF])),
        ("BCF magic split over members", cat(&[&stored_member(b"B"), &stored_member(b"CF\x02\x02"), &EOF])),
        ("empty member first", cat(&[&EOF, &stored_member(&bam_raw), &EOF])),
        ("bgzf BAM no EOF marker", stored_member(&bam_raw)),
        ("bgzf of BAM text", cat(&[&stored_member(b"BAM\t4\t*\t0\t255\t*\t*\t0\t0\tACGT\t!!!!\n"), &EOF])),
        ("bgzf of CRAM", cat(&[&stored_member(b"CRAM\x03\x00\0\0\0\0\0\0\0\0\0\0\0\0\0\0\0\0\0\0\0\0"), &EOF])),
        ("bgzf of empty VCF-less text", cat(&[&stored_member(b"##"), &EOF])),
        ("raw BCF", bcf_raw.clone()),
        ("BCF magic only", b"BCF".to_vec()),
        ("BC", b"BC".to_vec()),
        ("BCF wrong version", b"BCF\x01\x01\0\0\0\0".to_vec()),
        ("VCF header", b"##fileformat=VCFv4.3\n#CHROM\tPOS\tID\tREF\tALT\tQUAL\tFILTER\tINFO\n".to_vec()),
        ("VCF without ##", b"#CHROM\tPOS\tID\tREF\tALT\tQUAL\tFILTER\tINFO\n".to_vec()),
        ("bgzf BCF", cat(&[&stored_member(&bcf_raw), &EOF])),
    ];
    // plain gzip (not BGZF) of a BAM: the detector says BAM/bgzf, the BGZF reader then refuses it
    {
        use std::io::Write as _;
        let mut e = flate2::write::GzEncoder::new(Vec::new(), flate2::Compression::default());
        e.write_all(&bam_raw).unwrap();
        v.push(("plain gzip of BAM", e.finish().unwrap()));
    }
    // a member whose DEFLATE data is corrupt from the first byte
    v.push(("corrupt deflate", make_member(&[0xff, 0xff, 0xff, 0xff, 0xff, 0xff], 0, 4)));
    // a member cut inside the gzip header / inside the data
    let m = stored_member(&bam_raw);
    v.push(("member cut in header", m[..10].to_vec()));
    v.push(("member cut before data", m[..18].to_vec()));
    v.push(("member cut after 2 data bytes", m[..18 + 5 + 2].to_vec()));
    v.push(("member cut after 4 data bytes", m[..18 + 5 + 4].to_vec()));
    v
}

fn corpus(ctx: &mut Ctx) {
    for (name, stream) in window_corpus() {
        for k in [WINDOW, 1, 2, 3, 4, 5, 6] {
            if k != WINDOW && k >= stream.len() {
                continue;
            }
            let d = a_decide(None, None, &stream, k);
            match &d.inconsistent {
                None => emit_det(ctx, 'a', None, None, &stream, k, &d),
                Some(t) => ctx.fail("auto-not-explicit", format!("window `{name}` k={k}: {}", &t[..t.len().min(600)]), format!("window {name}")),
            }
            let d = v_decide(None, None, &stream, k);
            match &d.inconsistent {
                None => emit_det(ctx, 'v', None, None, &stream, k, &d),
                Some(t) => ctx.fail("auto-not-explicit", format!("window `{name}` k={k} (variant): {}", &t[..t.len().min(600)]), format!("window {name}")),
            }
        }
        // overrides: one of the two given
        for (fo, co) in [(Some(AFmt::Sam), None), (Some(AFmt::Bam), None), (Some(AFmt::Cram), None), (None, Some(Comp::Plain)), (None, Some(Comp::Bgzf)), (Some(AFmt::Cram), Some(Comp::Bgzf))] {
            if fo == Some(AFmt::Bam) && !sniff(&stream).1.starts_with(b"BAM\x01") {
                continue; // a BAM reader forced onto other bytes allocates what they say l_text is (C15)
            }
            let d = a_decide(fo, co, &stream, WINDOW);
            if d.inconsistent.is_none() {
                emit_det(ctx, 'a', fo.map(afmt_s), co, &stream, WINDOW, &d);
            }
        }
        for (fo, co) in [(Some(VFmt::Vcf), None), (Some(VFmt::Bcf), None), (None, Some(Comp::Plain)), (None, Some(Comp::Bgzf))] {
            if fo == Some(VFmt::Bcf) && !sniff(&stream).1.starts_with(b"BCF") {
                continue; // same for a BCF reader forced onto other bytes
            }
            let d = v_decide(fo, co, &stream, WINDOW);
            if d.inconsistent.is_none() {
                emit_det(ctx, 'v', fo.map(vfmt_s), co, &stream, WINDOW, &d);
            }
        }
        ctx.bump("window_corpus_entries");
    }
}

/// Boundary documents, always run first (replayable as `acorpus <i>` / `vcorpus <i>`).
pub fn a_corpus_doc(i: usize) -> Option<(ADoc, bool)> {
    let unmapped = |name: &[u8]| ARec { name: Some(name.to_vec()), flags: 4, seq: b"ACGT".to_vec(), qual: vec![30; 4], ..Default::default() };
    let mapped = |name: &[u8]| ARec { name: Some(name.to_vec()), rid: Some(0), pos: Some(10), mapq: Some(20), cigar: vec![('M', 4)], seq: ref_seq(0)[9..13].to_vec(), qual: vec![30; 4], ..Default::default() };
    Some(match i {
        0 => (ADoc { hkind: 0, recs: vec![] }, true),                       // EMPTY file: no header, no records
        1 => (ADoc { hkind: 1, recs: vec![] }, true),                       // @HD only
        2 => (ADoc { hkind: 2, recs: vec![] }, true),                       // header only
        3 => (ADoc { hkind: 3, recs: vec![] }, true),
        4 => (ADoc { hkind: 0, recs: vec![unmapped(b"CRAM1")] }, true),     // header-less, first read named CRAM…
        5 => (ADoc { hkind: 0, recs: vec![unmapped(b"CRAM")] }, true),
        6 => (ADoc { hkind: 0, recs: vec![unmapped(b"BAM1")] }, true),
        7 => (ADoc { hkind: 0, recs: vec![unmapped(b"r0")] }, true),
        8 => (ADoc { hkind: 0, recs: vec![ARec { name: None, ..unmapped(b"x") }] }, false), // read name `*`
        9 => (ADoc { hkind: 2, recs: vec![mapped(b"CRAM1"), unmapped(b"r1")] }, true),
        10 => (ADoc { hkind: 3, recs: vec![mapped(b"r0"), mapped(b"r1"), unmapped(b"r2")] }, true),
        11 => (ADoc { hkind: 0, recs: vec![unmapped(b"CRA"), unmapped(b"CRAM2")] }, true),
        // more records than one CRAM container holds (10240), the reference context changing at
        // the container boundary: a coordinate-sorted file with an unmapped tail
        12 => (
            ADoc {
                hkind: 2,
                recs: (0..10_240).map(|k| mapped(format!("m{k}").as_bytes())).chain((0..7).map(|k| unmapped(format!("u{k}").as_bytes()))).collect(),
            },
            true,
        ),
        // more than 65535 CIGAR operations (the BAM `kSmN` placeholder + CG tag convention), with the
        // sequence stored and with SEQ `*` (then k = l_seq = 0): encoder and readers must agree on k.
        // `I`/`P` consume no reference, so the span stays inside the 2000-base reference. Not for CRAM
        // (a mapped CRAM record needs its bases).
        13 => {
            let big = |name: &[u8], extra: usize, with_seq: bool| {
                let n = 32_768 + extra;
                let cigar: Vec<(char, usize)> = (0..n).flat_map(|_| [('I', 1usize), ('P', 1usize)]).collect();
                ARec {
                    name: Some(name.to_vec()),
                    rid: Some(0),
                    pos: Some(10),
                    mapq: Some(20),
                    cigar,
                    seq: if with_seq { (0..n).map(|k| b"ACGT"[k % 4]).collect() } else { vec![] },
                    qual: if with_seq { (0..n).map(|k| 2 + (k % 40) as u8).collect() } else { vec![] },
                    ..Default::default()
                }
            };
            (ADoc { hkind: 2, recs: vec![mapped(b"r0"), big(b"big_noseq", 0, false), big(b"big_seq", 1, true), ARec { seq: vec![], qual: vec![], ..mapped(b"noseq") }, unmapped(b"r4")] }, false)
        }
        _ => return None,
    })
}

pub fn v_corpus_doc(i: usize) -> Option<VDoc> {
    let rec = |pos: usize| VRec { chrom: "sq0".into(), pos, refb: "A".into(), alts: vec!["C".into()], filters: Some(vec!["PASS".into()]), ..Default::default() };
    Some(match i {
        0 => VDoc { extra_filters: 0, version: (4, 3), nsamples: 0, recs: vec![] }, // header only
        1 => VDoc { extra_filters: 0, version: (4, 5), nsamples: 2, recs: vec![] },
        2 => VDoc { extra_filters: 0, version: (4, 2), nsamples: 0, recs: vec![rec(1)] },
        3 => VDoc { extra_filters: 0, version: (4, 4), nsamples: 0, recs: vec![rec(5), rec(9)] },
        _ => return None,
    })
}

/// The first `read` delivers fewer bytes than the magic number (known finding F11: `fill_buf` is
/// called once). Streams of every kind, a reader that hands out one byte per call; the content
/// must be what a whole-buffer reader delivers.
fn short_first_read(ctx: &mut Ctx, i: usize) {
    let case = format!("short {i}");
    let unmapped = ARec { name: Some(b"r0".to_vec()), flags: 4, seq: b"ACGT".to_vec(), qual: vec![30; 4], ..Default::default() };
    if i < A_KINDS.len() {
        let (f, c) = A_KINDS[i];
        let header = a_header(2);
        let Ok(stream) = a_write(Some(f), Some(c), &header, &[to_record_buf(&unmapped)]) else { return };
        ctx.eval(Some(fnv(case.as_bytes())));
        let res = guarded(|| -> std::io::Result<Vec<ARec>> {
            let mut r = a_builder(None, None).build_from_reader(SchedReader::one_byte(stream.clone()))?;
            let h = r.read_header()?;
            let mut out = vec![];
            for rec in r.records(&h) {
                out.push(render_a(&h, rec?.as_ref())?);
            }
            Ok(out)
        });
        match res {
            Ok(Ok(got)) if got == [unmapped.clone()] => {}
            other => ctx.fail("short-first-read", format!("{}.{} stream through a reader that delivers one byte per read: {}", afmt_s(f), c.s(), match other { Ok(Ok(g)) => format!("{} records, first {:?}", g.len(), g.first().map(show_arec)), Ok(Err(e)) => format!("error {e}"), Err(p) => format!("panic {p}") }), case),
        }
    } else if i < A_KINDS.len() + V_KINDS.len() {
        let (f, c) = V_KINDS[i - A_KINDS.len()];
        let doc = v_corpus_doc(2).unwrap();
        let (h, b) = v_parse(&doc).unwrap();
        let Ok(stream) = v_write(Some(f), Some(c), &h, &b) else { return };
        let (sf, sc) = sniff_v(&stream);
        ctx.eval(Some(fnv(case.as_bytes())));
        let res = guarded(|| -> std::io::Result<Vec<VRec>> {
            let mut r = v_builder(None, None).build_from_reader(SchedReader::one_byte(stream.clone()))?;
            let h = r.read_header()?;
            let mut out = vec![];
            for rec in r.records(&h) {
                out.push(render_v(&h, rec?.as_ref())?);
            }
            Ok(out)
        });
        match res {
            Ok(Ok(got)) if got == doc.recs => {}
            other => ctx.fail("short-first-read", format!("{sf}.{} stream through a reader that delivers one byte per read: {}", sc.s(), match other { Ok(Ok(g)) => format!("{} records", g.len()), Ok(Err(e)) => format!("error {e}"), Err(p) => format!("panic {p}") }), case),
        }
    }
}

fn sub_of(seed: u64, family: u64, it: u64) -> u64 {
    seed.wrapping_mul(1_000_003).wrapping_add(family * 500_000_009).wrapping_add(it)
}

fn run_adoc(ctx: &mut Ctx, sub: u64) {
    let mut rng = Rng::new(sub);
    // two of three documents stay inside what CRAM keeps and are also written as CRAM
    let cram = rng.chance(2, 3);
    let doc = gen_adoc(&mut rng, cram);
    let full = doc.recs.len() <= 20;
    adoc_case(ctx, &doc, &format!("adoc {sub}"), &mut rng, cram, full);
}

fn run_vdoc(ctx: &mut Ctx, sub: u64) {
    let mut rng = Rng::new(sub);
    let doc = gen_vdoc(&mut rng);
    let full = doc.recs.len() <= 20;
    vdoc_case(ctx, &doc, &format!("vdoc {sub}"), &mut rng, full);
}

pub fn run(ctx: &mut Ctx) {
    if let Some(case) = ctx.replay_only.clone() {
        if super::c20_more::replay(ctx, &case) { return; }
        let arg: u64 = case.get(1).and_then(|s| s.parse().ok()).unwrap_or(0);
        match case.first().map(|s| s.as_str()) {
            Some("adoc") => run_adoc(ctx, arg),
            Some("vdoc") => run_vdoc(ctx, arg),
            Some("acorpus") => {
                if let Some((doc, cram)) = a_corpus_doc(arg as usize) {
                    let mut rng = Rng::new(arg);
                    let full = doc.recs.len() <= 20;
                    adoc_case(ctx, &doc, &format!("acorpus {arg}"), &mut rng, cram, full);
                }
            }
            Some("vcorpus") => {
                if let Some(doc) = v_corpus_doc(arg as usize) {
                    let mut rng = Rng::new(arg);
                    vdoc_case(ctx, &doc, &format!("vcorpus {arg}"), &mut rng, true);
                }
            }
            Some("short") => short_first_read(ctx, arg as usize),
            Some("awriter") | Some("vwriter") => writer_dispatch(ctx),
            Some("window") => corpus(ctx),
            // print the generated document (debugging aid): `nvh replay C20 show vdoc <sub>`
            Some("show") => {
                let sub: u64 = case.get(2).and_then(|s| s.parse().ok()).unwrap_or(0);
                let mut rng = Rng::new(sub);
                if case.get(1).map(|s| s.as_str()) == Some("vdoc") {
                    let doc = gen_vdoc(&mut rng);
                    print!("{}", v_header_text(&doc));
                    for r in &doc.recs {
                        println!("{}", vrec_text(r));
                    }
                } else {
                    let cram = rng.chance(2, 3);
                    let doc = gen_adoc(&mut rng, cram);
                    println!("header kind {} cram {cram}", doc.hkind);
                    for r in &doc.recs {
                        println!("{}", show_arec(r));
                    }
                }
            }
            _ => {}
        }
        return;
    }
    // boundary cases first
    writer_dispatch(ctx);
    corpus(ctx);
    let mut i = 0;
    while let Some((doc, cram)) = a_corpus_doc(i) {
        let mut rng = Rng::new(i as u64);
        let full = doc.recs.len() <= 20;
        adoc_case(ctx, &doc, &format!("acorpus {i}"), &mut rng, cram, full);
        i += 1;
    }
    let mut i = 0;
    while let Some(doc) = v_corpus_doc(i) {
        let mut rng = Rng::new(i as u64);
        vdoc_case(ctx, &doc, &format!("vcorpus {i}"), &mut rng, true);
        i += 1;
    }
    for i in 0..A_KINDS.len() + V_KINDS.len() {
        short_first_read(ctx, i);
    }
    // generated documents
    let n = ctx.n(600, 16_000);
    for it in 0..n {
        run_adoc(ctx, sub_of(ctx.seed, 1, it));
        run_vdoc(ctx, sub_of(ctx.seed, 2, it));
    }
    super::c20_more::run(ctx);
    ctx.sample(|| "c20 adet - - 1f8b08040000000000ff0600424302001b00 - - fc   (the empty SAM.gz: a lone EOF marker)".into());
    ctx.sample(|| "c20 adet - - 4352414d310934092a093009323535092a09 - invalid-input fc   (header-less SAM, first read CRAM1)".into());
}
