//! C08 extension — the fqzcomp quality codec (`noodles-cram/src/codecs/fqzcomp`) inside the model.
//!
//! Correspondence (`c08 fqz…` request lines; the real code answers here, the Lean model
//! `lean/Noodles/Cram/Fqz.lean` answers through `DriverC08Fqz.lean`):
//!   * `fqzenc <lens> <input>`  `fqzcomp::encode(lens, input)` — byte-identical output, or the error
//!     class (`err:invalid-input` for an invalid record layout), or `panic`;
//!   * `fqzdec <stream>`        `fqzcomp::decode` on the encoder's own output — exact answer;
//!   * `fqzdecx <stream>`       `fqzcomp::decode` on (a) streams with parameter blocks the noodles
//!     encoder never emits (several parameter sets, selectors, selector table, duplicates,
//!     reversed records, quality maps, q / p / d tables), written by the encoder kept in this
//!     file, (b) hand-written malformed streams, (c) damaged copies of (a) and of the real
//!     encoder's output — `acc <bytes>` / `rej` (an `Err` of any kind) / `panic`.
//!
//! Oracle (the property on the real code): for every (lens, input), `encode` does not panic and
//! `decode(encode(lens, input)) == input`; an encoder that refuses (`Err`) is not a violation (it
//! is counted; the model predicts exactly the invalid layouts, and the correspondence compares
//! that).
//!
//! Branch counters: the real `decode` is private code without probes, so which of its branches a
//! stream takes is observed on a line-by-line copy of the DECODER kept here (`shadow_decode`);
//! its counters are recorded only when it gives the real decoder's answer (`fqz_shadow_decoder_differs`
//! counts the cases where it does not), so they are the real code's.
use crate::common::*;
use noodles_cram::verif as v;
use std::collections::HashMap;

fn cls<T>(r: Result<std::io::Result<T>, String>) -> Result<T, String> {
    match r {
        Ok(Ok(x)) => Ok(x),
        Ok(Err(e)) => Err(errclass(&e).to_string()),
        Err(_) => Err("panic".into()),
    }
}

static REAL_US: std::sync::atomic::AtomicU64 = std::sync::atomic::AtomicU64::new(0);
static REAL_CALLS: std::sync::atomic::AtomicU64 = std::sync::atomic::AtomicU64::new(0);

fn timed<T>(f: impl FnOnce() -> T) -> T {
    let t0 = std::time::Instant::now();
    let r = f();
    REAL_US.fetch_add(t0.elapsed().as_micros() as u64, std::sync::atomic::Ordering::Relaxed);
    REAL_CALLS.fetch_add(1, std::sync::atomic::Ordering::Relaxed);
    r
}

fn enc(lens: &[usize], src: &[u8]) -> Result<Vec<u8>, String> {
    timed(|| cls(guarded(|| v::fqzcomp_encode(lens, src))))
}

fn dec(stream: &[u8]) -> Result<Vec<u8>, String> {
    timed(|| cls(guarded(|| v::fqzcomp_decode(stream))))
}

fn fmt_bytes(b: &[u8]) -> String {
    if b.len() <= 64 { hex(b) } else { format!("{}:{}", b.len(), crc32(b)) }
}

fn lens_str(lens: &[usize]) -> String {
    if lens.is_empty() { "-".into() } else { lens.iter().map(|l| l.to_string()).collect::<Vec<_>>().join(",") }
}

fn uint7(n: usize) -> Vec<u8> {
    let mut v = vec![(n & 0x7f) as u8];
    let mut n = n >> 7;
    while n > 0 {
        v.insert(0, 0x80 | (n & 0x7f) as u8);
        n >>= 7;
    }
    v
}

/// (value, index after it) of the leading uint7
fn read_uint7(s: &[u8]) -> Option<(usize, usize)> {
    let mut n = 0usize;
    let mut i = 0;
    loop {
        let b = *s.get(i)?;
        i += 1;
        if i > 5 {
            return None;
        }
        n = (n << 7) | (b & 0x7f) as usize;
        if b & 0x80 == 0 {
            return Some((n, i));
        }
    }
}

/// the decoder allocates what the stream declares: only streams that declare at most this much
/// are handed to the real decoder and to the model
const MAX_DECLARED: usize = 300_000;

fn declared_ok(s: &[u8]) -> bool {
    match read_uint7(s) {
        Some((n, _)) => n <= MAX_DECLARED,
        None => true,
    }
}

// ------------------------------------------------------------------------------------------------
// a copy of the adaptive model and the range coder (`aac/model.rs`, `aac/range_coder.rs`), both
// directions, for the stream writer and the instrumented decoder below

#[derive(Clone)]
struct SModel {
    syms: Vec<u8>,
    freqs: Vec<u32>,
    total: u32,
}

struct SEnc {
    low: u32,
    range: u32,
    carry: bool,
    cache: u32,
    ff_num: u32,
    out: Vec<u8>,
}

struct SDec {
    range: u32,
    code: u32,
}

#[derive(Debug, Clone, Copy, PartialEq)]
enum E {
    Eof,
    Invalid,
}

fn rd_u8(src: &mut &[u8]) -> Result<u8, E> {
    let (&b, rest) = src.split_first().ok_or(E::Eof)?;
    *src = rest;
    Ok(b)
}

impl SEnc {
    fn new() -> Self {
        SEnc { low: 0, range: u32::MAX, carry: false, cache: 0, ff_num: 0, out: vec![] }
    }
    fn shift_low(&mut self) {
        if self.low < 0xff00_0000 || self.carry {
            if !self.carry {
                self.out.push(self.cache as u8);
                self.out.extend(std::iter::repeat(0xff).take(self.ff_num as usize));
            } else {
                self.out.push((self.cache + 1) as u8);
                self.out.extend(std::iter::repeat(0x00).take(self.ff_num as usize));
            }
            self.ff_num = 0;
            self.cache = self.low >> 24;
            self.carry = false;
        } else {
            self.ff_num += 1;
        }
        self.low <<= 8;
    }
    fn encode(&mut self, lo: u32, f: u32, tot: u32) {
        let old = self.low;
        self.range /= tot;
        self.low = self.low.wrapping_add(lo * self.range);
        self.range *= f;
        if self.low < old {
            self.carry = true;
        }
        while self.range < 1 << 24 {
            self.range <<= 8;
            self.shift_low();
        }
    }
    fn finish(&mut self) {
        for _ in 0..5 {
            self.shift_low();
        }
    }
}

impl SDec {
    fn new(src: &mut &[u8]) -> Result<Self, E> {
        rd_u8(src)?;
        let mut code = 0u32;
        for _ in 0..4 {
            code = (code << 8) | rd_u8(src)? as u32;
        }
        Ok(SDec { range: u32::MAX, code })
    }
}

impl SModel {
    fn new(n: usize) -> Self {
        SModel { syms: (0..n).map(|i| i as u8).collect(), freqs: vec![1; n], total: n as u32 }
    }
    fn update(&mut self, x: usize) {
        self.freqs[x] += 16;
        self.total += 16;
        if self.total > (1 << 16) - 17 {
            let mut t = 0;
            for f in &mut self.freqs {
                *f -= *f / 2;
                t += *f;
            }
            self.total = t;
        }
        if x > 0 && self.freqs[x] > self.freqs[x - 1] {
            self.freqs.swap(x, x - 1);
            self.syms.swap(x, x - 1);
        }
    }
    fn encode(&mut self, rc: &mut SEnc, sym: u8) {
        let (mut acc, mut x) = (0, 0);
        while self.syms[x] != sym {
            acc += self.freqs[x];
            x += 1;
        }
        rc.encode(acc, self.freqs[x], self.total);
        self.update(x);
    }
    fn decode(&mut self, rc: &mut SDec, src: &mut &[u8]) -> Result<u8, E> {
        rc.range /= self.total;
        let freq = rc.code / rc.range;
        let (mut acc, mut x) = (0u32, 0usize);
        loop {
            let f = *self.freqs.get(x).ok_or(E::Invalid)?;
            if acc + f > freq {
                break;
            }
            acc += f;
            x += 1;
        }
        rc.code -= acc * rc.range;
        rc.range *= self.freqs[x];
        while rc.range < 1 << 24 {
            rc.range <<= 8;
            rc.code = (rc.code << 8) | rd_u8(src)? as u32;
        }
        let sym = self.syms[x];
        self.update(x);
        Ok(sym)
    }
}

// ------------------------------------------------------------------------------------------------
// parameter blocks of every shape, and a stream writer for them

const G_MULTI: u8 = 1;
const G_STAB: u8 = 2;
const G_REV: u8 = 4;
const P_DEDUP: u8 = 0x02;
const P_LEN: u8 = 0x04;
const P_SEL: u8 = 0x08;
const P_QMAP: u8 = 0x10;
const P_PTAB: u8 = 0x20;
const P_DTAB: u8 = 0x40;
const P_QTAB: u8 = 0x80;

#[derive(Clone, Debug)]
struct GParam {
    context: u16,
    flags: u8,
    max_sym: u8,
    q_bits: u8,
    q_shift: u8,
    q_loc: u8,
    s_loc: u8,
    p_loc: u8,
    d_loc: u8,
    qmap: Vec<u8>,
    qtab: Vec<u8>,
    ptab: Vec<u8>,
    dtab: Vec<u8>,
}

#[derive(Clone, Debug)]
struct GParams {
    gflags: u8,
    /// written when MULTI_PARAM is set (normally `params.len()`)
    n_param_byte: u8,
    max_sel: u8,
    stab: Vec<u8>,
    params: Vec<GParam>,
}

/// `write_array` of `encode.rs` (= `store_array` of the reference implementation), for any
/// nondecreasing table
fn store_array(data: &[u8]) -> Vec<u8> {
    let mut rle1 = vec![];
    let (mut i, mut j) = (0usize, 0usize);
    while j < data.len() {
        let start = j;
        while j < data.len() && data[j] as usize == i {
            j += 1;
        }
        let mut len = j - start;
        loop {
            let r = len.min(255);
            rle1.push(r as u8);
            len -= r;
            if r != 255 {
                break;
            }
        }
        i += 1;
        if i > 256 {
            break; // not nondecreasing: the real loop would not end
        }
    }
    let mut out = vec![];
    let mut j = 0;
    let mut last = -1i32;
    while j < rle1.len() {
        let curr = rle1[j];
        j += 1;
        out.push(curr);
        if curr as i32 == last {
            let start = j;
            let mut len = 0;
            while j < rle1.len() && rle1[j] as i32 == last && len < 255 {
                j += 1;
                len = j - start;
            }
            out.push(len as u8);
        } else {
            last = curr as i32;
        }
    }
    out
}

fn write_block(gp: &GParams) -> Vec<u8> {
    let mut o = vec![5, gp.gflags];
    if gp.gflags & G_MULTI != 0 {
        o.push(gp.n_param_byte);
    }
    if gp.gflags & G_STAB != 0 {
        o.push(gp.max_sel);
        o.extend(store_array(&gp.stab));
    }
    for p in &gp.params {
        o.extend(p.context.to_le_bytes());
        o.push(p.flags);
        o.push(p.max_sym);
        o.push((p.q_bits << 4) | p.q_shift);
        o.push((p.q_loc << 4) | p.s_loc);
        o.push((p.p_loc << 4) | p.d_loc);
        if p.flags & P_QMAP != 0 {
            o.extend(&p.qmap);
        }
        if p.flags & P_QTAB != 0 {
            o.extend(store_array(&p.qtab));
        }
        if p.flags & P_PTAB != 0 {
            o.extend(store_array(&p.ptab));
        }
        if p.flags & P_DTAB != 0 {
            o.extend(store_array(&p.dtab));
        }
    }
    o
}

/// one record as the DECODER will see it: the selector, the length, the reversal and duplicate
/// flags (written when the parameters ask for them) and the coded symbols
#[derive(Clone, Debug)]
struct GRec {
    sel: u8,
    len: usize,
    rev: bool,
    dup: bool,
    syms: Vec<u8>,
}

struct Models {
    nsym: usize,
    qual: HashMap<u16, SModel>,
    len: Vec<SModel>,
    rev: SModel,
    dup: SModel,
    sel: Option<SModel>,
}

impl Models {
    fn new(nsym: usize, selc: Option<usize>) -> Self {
        Models { nsym, qual: HashMap::new(), len: vec![SModel::new(256); 4], rev: SModel::new(2), dup: SModel::new(2), sel: selc.map(SModel::new) }
    }
    fn qual(&mut self, ctx: u16) -> &mut SModel {
        let n = self.nsym;
        self.qual.entry(ctx).or_insert_with(|| SModel::new(n))
    }
}

/// the context update of the DECODER (`fqz_update_context`)
struct CtxState {
    q_ctx: u32,
    delta: u32,
    prev_q: u8,
}

fn update_context(p: &GParam, q: u8, pos: usize, sel: u8, st: &mut CtxState, k: &mut Counters) -> u16 {
    let mut ctx = p.context as u32;
    let qtab_v = if p.flags & P_QTAB != 0 { p.qtab[q as usize] } else { q };
    st.q_ctx = (st.q_ctx << p.q_shift as u32).wrapping_add(qtab_v as u32);
    ctx += (st.q_ctx & ((1u32 << p.q_bits) - 1)) << p.q_loc;
    if p.flags & P_PTAB != 0 {
        if pos > 1023 { k.pos_saturated += 1 } else { k.pos_below += 1 }
        ctx += (p.ptab[pos.min(1023)] as u32) << p.p_loc;
    }
    if p.flags & P_DTAB != 0 {
        if st.delta > 255 { k.delta_saturated += 1 }
        ctx += (p.dtab[st.delta.min(255) as usize] as u32) << p.d_loc;
        if st.prev_q != q {
            k.delta_inc += 1;
            st.delta += 1;
        }
        st.prev_q = q;
    }
    if p.flags & P_SEL != 0 {
        k.ctx_sel += 1;
        ctx += (sel as u32) << p.s_loc;
    }
    if ctx > 0xffff { k.ctx_wrapped += 1 }
    (ctx & 0xffff) as u16
}

fn selector_count(gp: &GParams) -> Option<usize> {
    let mut c = None;
    if gp.gflags & G_MULTI != 0 {
        c = Some(gp.n_param_byte as usize + 1);
    }
    if gp.gflags & G_STAB != 0 {
        c = Some(gp.max_sel as usize + 1);
    }
    c
}

/// Write the stream that makes noodles' decoder read exactly these records (`declared` is the
/// size field). `None` when the records cannot be expressed (a selector / symbol outside its
/// model, a parameter index outside the list).
fn write_stream(gp: &GParams, recs: &[GRec], declared: usize) -> Option<Vec<u8>> {
    let nsym = gp.params.iter().map(|p| p.max_sym as usize + 1).max()?;
    let mut m = Models::new(nsym, selector_count(gp));
    let mut rc = SEnc::new();
    let mut k = Counters::default();
    let mut first = true;
    for r in recs {
        let mut x = 0usize;
        if let Some(sm) = m.sel.as_mut() {
            if r.sel as usize >= sm.syms.len() {
                return None;
            }
            sm.encode(&mut rc, r.sel);
            if gp.gflags & G_STAB != 0 {
                x = gp.stab[r.sel as usize] as usize;
            }
        }
        let p = gp.params.get(x)?;
        if p.flags & P_LEN == 0 || first {
            let n = r.len as u32;
            for (i, b) in n.to_le_bytes().iter().enumerate() {
                m.len[i].encode(&mut rc, *b);
            }
        }
        first = false;
        if gp.gflags & G_REV != 0 {
            m.rev.encode(&mut rc, r.rev as u8);
        }
        if p.flags & P_DEDUP != 0 {
            m.dup.encode(&mut rc, r.dup as u8);
        }
        if r.dup && p.flags & P_DEDUP != 0 {
            continue;
        }
        let mut st = CtxState { q_ctx: 0, delta: 0, prev_q: 0 };
        let mut ctx = p.context;
        let mut pos = r.len;
        for &q in &r.syms {
            if q as usize >= nsym {
                return None;
            }
            m.qual(ctx).encode(&mut rc, q);
            ctx = update_context(p, q, pos, r.sel, &mut st, &mut k);
            pos = pos.wrapping_sub(1);
        }
    }
    rc.finish();
    let mut o = uint7(declared);
    o.extend(write_block(gp));
    o.extend(rc.out);
    Some(o)
}

// ------------------------------------------------------------------------------------------------
// the instrumented copy of the decoder (`decode.rs`, `parameters.rs`, `parameters/parameter.rs`)

#[derive(Default)]
struct Counters {
    // read_array
    arr_calls: u64,
    arr_run_eq_last: u64,
    arr_run_new: u64,
    arr_first_run_zero: u64,
    arr_too_many_parts: u64,
    arr_eof: u64,
    arr_values_exhausted: u64,
    arr_parts_exhausted: u64,
    arr_part_255: u64,
    arr_run_clamped: u64,
    arr_ok: u64,
    // parameters
    bad_version: u64,
    multi_param: u64,
    multi_param_zero: u64,
    have_stab: u64,
    max_sel_zero: u64,
    single_param: u64,
    p_qmap: u64,
    p_qmap_eof: u64,
    p_qtab: u64,
    p_ptab: u64,
    p_dtab: u64,
    p_eof: u64,
    // records
    rec_sel_decoded: u64,
    rec_sel_table: u64,
    rec_sel_no_table: u64,
    rec_no_sel_model: u64,
    rec_param_index_invalid: u64,
    rec_len_read: u64,
    rec_len_reused: u64,
    rec_rev_flag: u64,
    rec_rev_true: u64,
    rec_dup_flag: u64,
    rec_dup_kept: u64,
    rec_invalid_len0: u64,
    rec_invalid_dup: u64,
    rec_invalid_rev: u64,
    rec_dup_copied: u64,
    rec_cut_by_end: u64,
    qual_decoded: u64,
    qmap_used: u64,
    qmap_index_invalid: u64,
    pos_saturated: u64,
    pos_below: u64,
    delta_saturated: u64,
    delta_inc: u64,
    ctx_sel: u64,
    ctx_wrapped: u64,
    reversed_records: u64,
    rc_eof: u64,
    rc_freq_invalid: u64,
    len_ge_256: u64,
    len_ge_65536: u64,
}

fn s_read_array(src: &mut &[u8], n: usize, k: &mut Counters) -> Result<Vec<u8>, E> {
    k.arr_calls += 1;
    let max_parts = 256 + n / 255 + 1;
    let mut z = 0usize;
    let mut last = 0u8;
    let mut runs: Vec<u8> = vec![];
    let mut first = true;
    while z < n {
        let run = rd_u8(src).map_err(|e| { k.arr_eof += 1; e })?;
        runs.push(run);
        z += run as usize;
        if run == last {
            if first { k.arr_first_run_zero += 1 } else { k.arr_run_eq_last += 1 }
            let copy = rd_u8(src).map_err(|e| { k.arr_eof += 1; e })? as usize;
            runs.extend(std::iter::repeat(run).take(copy));
            z += run as usize * copy;
        } else {
            k.arr_run_new += 1;
        }
        first = false;
        if runs.len() > max_parts {
            k.arr_too_many_parts += 1;
            return Err(E::Invalid);
        }
        last = run;
    }
    let mut a = Vec::with_capacity(n);
    let mut parts = runs.into_iter();
    let mut values = 0..=u8::MAX;
    while a.len() < n {
        let value = match values.next() { Some(v) => v, None => { k.arr_values_exhausted += 1; return Err(E::Invalid) } };
        let mut run_len = 0usize;
        loop {
            let part = match parts.next() { Some(p) => p, None => { k.arr_parts_exhausted += 1; return Err(E::Invalid) } };
            run_len += part as usize;
            if part != 255 {
                break;
            }
            k.arr_part_255 += 1;
        }
        if run_len > n - a.len() { k.arr_run_clamped += 1 }
        let len = run_len.min(n - a.len());
        a.extend(std::iter::repeat(value).take(len));
    }
    k.arr_ok += 1;
    Ok(a)
}

/// a parameter set as read: `g.flags` has the q-table bit always set (the default table is the
/// identity), the p / d table bits as in the stream
struct DParam {
    g: GParam,
    has_qmap: bool,
}

fn s_read_param(src: &mut &[u8], k: &mut Counters) -> Result<DParam, E> {
    let mut hd = [0u8; 7];
    for b in hd.iter_mut() {
        *b = rd_u8(src).map_err(|e| { k.p_eof += 1; e })?;
    }
    let flags = hd[2];
    let max_sym = hd[3];
    let mut g = GParam {
        context: u16::from_le_bytes([hd[0], hd[1]]),
        flags,
        max_sym,
        q_bits: hd[4] >> 4,
        q_shift: hd[4] & 15,
        q_loc: hd[5] >> 4,
        s_loc: hd[5] & 15,
        p_loc: hd[6] >> 4,
        d_loc: hd[6] & 15,
        qmap: vec![],
        qtab: (0..=255).collect(),
        ptab: vec![],
        dtab: vec![],
    };
    if flags & P_QMAP != 0 {
        k.p_qmap += 1;
        let n = max_sym as usize;
        if src.len() < n {
            k.p_qmap_eof += 1;
            return Err(E::Eof);
        }
        g.qmap = src[..n].to_vec();
        *src = &src[n..];
    }
    if flags & P_QTAB != 0 {
        k.p_qtab += 1;
        g.qtab = s_read_array(src, 256, k)?;
    }
    if flags & P_PTAB != 0 {
        k.p_ptab += 1;
        g.ptab = s_read_array(src, 1024, k)?;
    }
    if flags & P_DTAB != 0 {
        k.p_dtab += 1;
        g.dtab = s_read_array(src, 256, k)?;
    }
    // `update_context` reads the q table through the flag
    g.flags |= P_QTAB;
    Ok(DParam { g, has_qmap: flags & P_QMAP != 0 })
}

fn shadow_decode(stream: &[u8], k: &mut Counters) -> Result<Vec<u8>, E> {
    let mut src = stream;
    // read_uint7
    let mut n = 0u32;
    let mut len = 0;
    loop {
        let b = rd_u8(&mut src)? as u32;
        len += 1;
        if len > 5 {
            return Err(E::Invalid);
        }
        n = (n << 7) | (b & 0x7f);
        if b & 0x80 == 0 {
            break;
        }
    }
    let n = n as usize;
    if rd_u8(&mut src)? != 5 {
        k.bad_version += 1;
        return Err(E::Invalid);
    }
    let gflags = rd_u8(&mut src)? & 7;
    let mut selc = None;
    let count = if gflags & G_MULTI != 0 {
        k.multi_param += 1;
        let c = rd_u8(&mut src)? as usize;
        if c == 0 {
            k.multi_param_zero += 1;
            return Err(E::Invalid);
        }
        selc = Some(c + 1);
        c
    } else {
        k.single_param += 1;
        1
    };
    let stab = if gflags & G_STAB != 0 {
        k.have_stab += 1;
        let m = rd_u8(&mut src)? as usize;
        if m == 0 {
            k.max_sel_zero += 1;
            return Err(E::Invalid);
        }
        selc = Some(m + 1);
        Some(s_read_array(&mut src, 256, k)?)
    } else {
        None
    };
    let mut params = vec![];
    for _ in 0..count {
        params.push(s_read_param(&mut src, k)?);
    }
    let nsym = params.iter().map(|p| p.g.max_sym as usize + 1).max().unwrap();
    let mut m = Models::new(nsym, selc);
    let mut rc = SDec::new(&mut src).map_err(|e| { k.rc_eof += 1; e })?;
    fn sym(md: &mut SModel, rc: &mut SDec, src: &mut &[u8], k: &mut Counters) -> Result<u8, E> {
        md.decode(rc, src).map_err(|e| {
            if e == E::Eof { k.rc_eof += 1 } else { k.rc_freq_invalid += 1 }
            e
        })
    }
    let mut dst = vec![0u8; n];
    let mut i = 0usize;
    let (mut rec_no, mut selector, mut rlen, mut pos, mut is_dup) = (0usize, 0u8, 0usize, 0usize, false);
    let mut st = CtxState { q_ctx: 0, delta: 0, prev_q: 0 };
    let mut x = 0usize;
    let mut ctx = 0u16;
    let mut last_len = 0usize;
    let mut rev_len: Vec<(bool, usize)> = vec![];
    while i < n {
        if pos == 0 {
            x = 0;
            if let Some(sm) = m.sel.as_mut() {
                selector = sym(sm, &mut rc, &mut src, k)?;
                k.rec_sel_decoded += 1;
                if let Some(t) = &stab {
                    k.rec_sel_table += 1;
                    x = t[selector as usize] as usize;
                } else {
                    k.rec_sel_no_table += 1;
                }
            } else {
                k.rec_no_sel_model += 1;
            }
            let Some(p) = params.get(x) else {
                k.rec_param_index_invalid += 1;
                return Err(E::Invalid);
            };
            let mut ll = last_len;
            if p.g.flags & P_LEN == 0 || rec_no == 0 {
                k.rec_len_read += 1;
                let mut buf = [0u8; 4];
                for (j, b) in buf.iter_mut().enumerate() {
                    *b = sym(&mut m.len[j], &mut rc, &mut src, k)?;
                }
                ll = u32::from_le_bytes(buf) as usize;
                if ll >= 65536 { k.len_ge_65536 += 1 } else if ll >= 256 { k.len_ge_256 += 1 }
            } else {
                k.rec_len_reused += 1;
            }
            rlen = ll;
            if gflags & G_REV != 0 {
                k.rec_rev_flag += 1;
                let r = sym(&mut m.rev, &mut rc, &mut src, k)? != 0;
                if r { k.rec_rev_true += 1 }
                rev_len.push((r, rlen));
            }
            if p.g.flags & P_DEDUP != 0 {
                k.rec_dup_flag += 1;
                is_dup = sym(&mut m.dup, &mut rc, &mut src, k)? != 0;
            } else if is_dup {
                k.rec_dup_kept += 1;
            }
            rec_no += 1;
            pos = rlen;
            st = CtxState { q_ctx: 0, delta: 0, prev_q: 0 };
            // validate_record
            let remaining = n - i;
            let mut ok = rlen > 0;
            if !ok { k.rec_invalid_len0 += 1 }
            if is_dup && !(rlen <= i && rlen <= remaining) {
                if ok { k.rec_invalid_dup += 1 }
                ok = false;
            }
            if gflags & G_REV != 0 && rlen > remaining {
                if ok { k.rec_invalid_rev += 1 }
                ok = false;
            }
            if !ok {
                return Err(E::Invalid);
            }
            last_len = rlen;
            if is_dup {
                k.rec_dup_copied += 1;
                let (a, b) = dst.split_at_mut(i);
                b[..rlen].copy_from_slice(&a[i - rlen..]);
                i += rlen;
                pos = 0;
                continue;
            }
            if rlen > remaining { k.rec_cut_by_end += 1 }
            ctx = params[x].g.context;
        }
        let p = &params[x];
        let q = sym(m.qual(ctx), &mut rc, &mut src, k)?;
        k.qual_decoded += 1;
        dst[i] = if p.has_qmap {
            k.qmap_used += 1;
            match p.g.qmap.get(q as usize) {
                Some(&b) => b,
                None => {
                    k.qmap_index_invalid += 1;
                    return Err(E::Invalid);
                }
            }
        } else {
            q
        };
        ctx = update_context(&p.g, q, pos, selector, &mut st, k);
        i += 1;
        pos -= 1;
    }
    if gflags & G_REV != 0 {
        let (mut rec, mut i) = (0usize, 0usize);
        while i < n {
            let (rev, len) = rev_len[rec];
            if rev {
                k.reversed_records += 1;
                dst[i..i + len].reverse();
            }
            i += len;
            rec += 1;
        }
    }
    Ok(dst)
}

fn record_counters(ctx: &mut Ctx, k: &Counters) {
    for (name, v) in [
        ("array:read", k.arr_calls),
        ("array:run-equals-last(copy-count)", k.arr_run_eq_last),
        ("array:run-new", k.arr_run_new),
        ("array:first-run-zero(last-starts-0)", k.arr_first_run_zero),
        ("array:too-many-parts", k.arr_too_many_parts),
        ("array:eof", k.arr_eof),
        ("array:values-exhausted", k.arr_values_exhausted),
        ("array:parts-exhausted", k.arr_parts_exhausted),
        ("array:part-255-continues", k.arr_part_255),
        ("array:last-run-clamped", k.arr_run_clamped),
        ("array:ok", k.arr_ok),
        ("params:bad-version", k.bad_version),
        ("params:multi-param", k.multi_param),
        ("params:multi-param-count-0", k.multi_param_zero),
        ("params:selector-table", k.have_stab),
        ("params:max-selector-0", k.max_sel_zero),
        ("params:single-param", k.single_param),
        ("param:quality-map", k.p_qmap),
        ("param:quality-map-eof", k.p_qmap_eof),
        ("param:q-table", k.p_qtab),
        ("param:p-table", k.p_ptab),
        ("param:d-table", k.p_dtab),
        ("param:header-eof", k.p_eof),
        ("record:selector-decoded", k.rec_sel_decoded),
        ("record:selector-through-table", k.rec_sel_table),
        ("record:selector-without-table(x=0)", k.rec_sel_no_table),
        ("record:no-selector-model", k.rec_no_sel_model),
        ("record:parameter-index-invalid", k.rec_param_index_invalid),
        ("record:length-read", k.rec_len_read),
        ("record:length-reused(fixed)", k.rec_len_reused),
        ("record:length>=256", k.len_ge_256),
        ("record:length>=65536", k.len_ge_65536),
        ("record:rev-flag-read", k.rec_rev_flag),
        ("record:rev-flag-true", k.rec_rev_true),
        ("record:dup-flag-read", k.rec_dup_flag),
        ("record:dup-flag-kept-from-previous", k.rec_dup_kept),
        ("record:invalid-length-0", k.rec_invalid_len0),
        ("record:invalid-duplicate", k.rec_invalid_dup),
        ("record:invalid-reversed-too-long", k.rec_invalid_rev),
        ("record:duplicate-copied", k.rec_dup_copied),
        ("record:cut-by-end-of-output", k.rec_cut_by_end),
        ("quality:decoded", k.qual_decoded),
        ("quality:through-map", k.qmap_used),
        ("quality:map-index-invalid", k.qmap_index_invalid),
        ("context:position>1023", k.pos_saturated),
        ("context:position<=1023", k.pos_below),
        ("context:delta>255", k.delta_saturated),
        ("context:delta-incremented", k.delta_inc),
        ("context:selector-added", k.ctx_sel),
        ("context:sum>0xffff", k.ctx_wrapped),
        ("reverse:record-reversed", k.reversed_records),
        ("coder:eof", k.rc_eof),
        ("coder:frequency-not-below-total", k.rc_freq_invalid),
    ] {
        ctx.bump_by(&format!("fqz_code_branch:{name}"), v);
    }
}

// ------------------------------------------------------------------------------------------------
// requests

/// `fqzdecx`: the real decoder vs the model on any stream (`acc` / `rej` / `panic`); the
/// instrumented copy supplies the branch counters when it agrees with the real decoder
fn decx(ctx: &mut Ctx, kind: &str, stream: &[u8]) -> Option<Vec<u8>> {
    if !declared_ok(stream) {
        ctx.bump("fqz_skipped:declared-size-too-large");
        return None;
    }
    let r = dec(stream);
    let tag = match &r {
        Ok(_) => "acc".to_string(),
        Err(c) if c == "panic" => "panic".to_string(),
        Err(c) => c.clone(),
    };
    ctx.bump(&format!("fqz_decx:{kind}:{tag}"));
    let mut k = Counters::default();
    let sh = guarded(|| shadow_decode(stream, &mut k));
    let agrees = match (&r, &sh) {
        (Ok(a), Ok(Ok(b))) => a == b,
        (Err(c), Ok(Err(E::Eof))) => c == "err:eof",
        (Err(c), Ok(Err(E::Invalid))) => c == "err:invalid-data",
        _ => false,
    };
    if agrees {
        ctx.bump("fqz_shadow_decoder_agrees");
        record_counters(ctx, &k);
    } else {
        ctx.bump("fqz_shadow_decoder_differs");
    }
    ctx.corr(
        format!("c08 fqzdecx {}", hex(stream)),
        match &r {
            Ok(d) => format!("acc {}", fmt_bytes(d)),
            Err(c) if c == "panic" => "panic".into(),
            Err(_) => "rej".into(),
        },
    );
    r.ok()
}

fn size_class(n: usize) -> &'static str {
    match n {
        0 => "0",
        1 => "1",
        2..=127 => "2-127",
        128 => "128",
        129..=1023 => "129-1023",
        1024..=2047 => "1024-2047",
        2048..=65535 => "2048-65535",
        _ => ">65535",
    }
}

fn case_str(lens: &[usize], src: &[u8]) -> String {
    format!("fqzrt {} x{}", lens_str(lens), hex(src))
}

fn layout_class(lens: &[usize], src: &[u8]) -> &'static str {
    if lens.is_empty() {
        "no-records"
    } else if lens.contains(&0) {
        "zero-length-record"
    } else if lens.iter().try_fold(0usize, |a, &l| a.checked_add(l)) != Some(src.len()) {
        "sum-mismatch"
    } else {
        "valid"
    }
}

/// damaged copies of a stream (never of its size field, except to nearby values)
fn damage(ctx: &mut Ctx, kind: &str, stream: &[u8], rng: &mut Rng, rounds: usize) {
    let Some((n, hdr)) = read_uint7(stream) else { return };
    if stream.len() <= hdr {
        return;
    }
    for _ in 0..rounds {
        let mut m = stream.to_vec();
        let what = match rng.below(8) {
            0 => {
                // truncation
                let cut = match rng.below(3) {
                    0 => stream.len() - 1,
                    1 => stream.len().saturating_sub(1 + rng.below(6) as usize),
                    _ => hdr + rng.below((stream.len() - hdr) as u64) as usize,
                };
                m.truncate(cut);
                "truncated"
            }
            1 => {
                // the size field: nearby values
                let n2 = match rng.below(4) {
                    0 => n.saturating_sub(1),
                    1 => n + 1,
                    2 => 0,
                    _ => n + 1 + rng.below(40) as usize,
                };
                m = [uint7(n2), stream[hdr..].to_vec()].concat();
                "size-changed"
            }
            2 | 3 => {
                // one flipped bit in the parameter block region (the first bytes after the size)
                let span = (stream.len() - hdr).min(40);
                let p = hdr + rng.below(span as u64) as usize;
                m[p] ^= 1 << rng.below(8);
                "bitflip-head"
            }
            4 | 5 | 6 => {
                let p = hdr + rng.below((stream.len() - hdr) as u64) as usize;
                m[p] ^= 1 << rng.below(8);
                "bitflip-any"
            }
            _ => {
                let k = 1 + rng.below(6) as usize;
                m.extend(rng.bytes(k));
                "trailing"
            }
        };
        decx(ctx, &format!("{kind}-{what}"), &m);
    }
}

/// correspondence + oracle for one encoder input
fn one_case(ctx: &mut Ctx, lens: &[usize], src: &[u8], shape: &str, damaged: usize, rng: &mut Rng) {
    ctx.bump(&format!("fqz_shape:{shape}"));
    ctx.bump(&format!("fqz_layout:{}", layout_class(lens, src)));
    ctx.bump(&format!("fqz_total:{}", size_class(src.len())));
    ctx.bump(&format!("fqz_records:{}", match lens.len() { 0 => "0", 1 => "1", 2..=9 => "2-9", 10..=99 => "10-99", _ => ">=100" }));
    let valid = layout_class(lens, src) == "valid";
    if valid {
        let fixed = lens.windows(2).all(|w| w[0] == w[1]);
        ctx.bump(if fixed { "fqz_enc_branch:fixed-length(DO_LEN)" } else { "fqz_enc_branch:variable-length" });
        ctx.bump(if lens[0] > 128 { "fqz_enc_branch:p-shift-1" } else { "fqz_enc_branch:p-shift-0" });
        let mx = *lens.iter().max().unwrap();
        ctx.bump(&format!("fqz_enc_branch:longest-record:{}", size_class(mx)));
        let nsym = src.iter().max().map_or(0, |&m| m as usize) + 1;
        ctx.bump(&format!("fqz_alphabet:{}", match nsym { 1 => "1", 2..=8 => "2-8", 9..=41 => "9-41", 42..=94 => "42-94", 95..=255 => "95-255", _ => "256" }));
    }
    let real = enc(lens, src);
    ctx.corr(format!("c08 fqzenc {} {}", lens_str(lens), hex(src)), match &real { Ok(e) => fmt_bytes(e), Err(c) => c.clone() });
    let key = fnv(case_str(lens, src).as_bytes());
    ctx.eval(if src.len() >= 2 && valid { Some(key) } else { None });
    let stream = match real {
        Ok(s) => s,
        Err(c) if c == "panic" => {
            ctx.fail("fqz-encode-panic", format!("fqzcomp::encode({} records, {} bytes) panicked", lens.len(), src.len()), case_str(lens, src));
            return;
        }
        Err(c) => {
            ctx.bump(&format!("fqz_refused:{}:{c}", layout_class(lens, src)));
            return;
        }
    };
    ctx.bump(&format!("fqz_accepted:{}", layout_class(lens, src)));
    let back = dec(&stream);
    ctx.corr(format!("c08 fqzdec {}", hex(&stream)), match &back { Ok(d) => fmt_bytes(d), Err(c) => c.clone() });
    match &back {
        Ok(d) if d == src => ctx.bump("fqz_roundtrip_ok"),
        Ok(d) => ctx.fail("fqz-wrong-data", format!("fqzcomp::decode(encode(x)) returned {} bytes that differ from the {} input bytes ({} records)", d.len(), src.len(), lens.len()), case_str(lens, src)),
        Err(c) if c == "panic" => ctx.fail("fqz-decode-panic", format!("fqzcomp::decode panicked on the output of encode({} records, {} bytes)", lens.len(), src.len()), case_str(lens, src)),
        Err(c) => ctx.fail("fqz-decode-error", format!("fqzcomp::decode rejects the output of encode({} records, {} bytes): {c}", lens.len(), src.len()), case_str(lens, src)),
    }
    // the instrumented copy on the real encoder's stream
    let mut k = Counters::default();
    match guarded(|| shadow_decode(&stream, &mut k)) {
        Ok(Ok(d)) if Ok(&d) == back.as_ref() => {
            ctx.bump("fqz_shadow_decoder_agrees");
            record_counters(ctx, &k);
        }
        _ => ctx.bump("fqz_shadow_decoder_differs"),
    }
    if damaged > 0 && stream.len() <= 3000 {
        damage(ctx, "own", &stream, rng, damaged);
    }
}

// ------------------------------------------------------------------------------------------------
// encoder inputs

/// qualities of a given alphabet kind
fn gen_quals(rng: &mut Rng, total: usize) -> (Vec<u8>, &'static str) {
    match rng.below(16) % 9 {
        0 => {
            // four-bin (NovaSeq style)
            const BINS: [u8; 4] = [2, 12, 23, 37];
            let mut q = 3usize;
            ((0..total).map(|_| { if rng.chance(1, 6) { q = rng.below(4) as usize } BINS[q] }).collect(), "bins-4")
        }
        1 => {
            // eight-bin
            const BINS: [u8; 8] = [2, 6, 15, 22, 27, 33, 37, 40];
            ((0..total).map(|_| BINS[rng.below(8) as usize]).collect(), "bins-8")
        }
        2 => {
            // 41-level Illumina-like: high plateau, decay towards the end, occasional drops
            let mut q = 38i64;
            ((0..total).map(|_| {
                match rng.below(10) {
                    0 => q = rng.below(41) as i64,
                    1 | 2 => q = (q - rng.below(4) as i64).max(0),
                    3 => q = (q + rng.below(6) as i64).min(40),
                    _ => {}
                }
                q as u8
            }).collect(), "illumina-41")
        }
        3 => ((0..total).map(|_| rng.below(94) as u8).collect(), "uniform-94"),
        8 => ((0..total).map(|_| rng.next() as u8).collect(), "uniform-256"),
        4 => ((0..total).map(|_| rng.below(41) as u8).collect(), "uniform-41"),
        5 => {
            let v = *rng.pick(&[0u8, 0, 1, 1, 40, 40, 93, 255]);
            (vec![v; total], "single-symbol")
        }
        6 => {
            // two symbols far apart (symbol count = the larger + 1)
            let hi = *rng.pick(&[1u8, 1, 2, 2, 41, 41, 41, 255]);
            ((0..total).map(|_| if rng.chance(1, 3) { hi } else { 0 }).collect(), "two-symbols")
        }
        _ => {
            // k-symbol alphabet, k in 1..=94, skewed
            let k = 1 + rng.below(94);
            ((0..total).map(|_| { let a = rng.below(k); let b = rng.below(k); a.min(b) as u8 }).collect(), "alphabet-k-skewed")
        }
    }
}

fn gen_lens(rng: &mut Rng, big: bool) -> (Vec<usize>, &'static str) {
    match rng.below(12) {
        0 => (vec![1 + rng.below(300) as usize], "one-record"),
        1 => {
            let len = *rng.pick(&[1usize, 2, 36, 100, 127, 128, 129, 150, 151, 250, 1023, 1024, 1025]);
            let n = if len > 500 { 1 + rng.below(3) } else { 1 + rng.below(20) } as usize;
            (vec![len; n], "fixed-length")
        }
        2 => ((0..1 + rng.below(60)).map(|_| 1).collect(), "all-length-1"),
        3 | 4 => ((0..2 + rng.below(20)).map(|_| 1 + rng.below(200) as usize).collect(), "variable-length"),
        5 => {
            let a = 2 + rng.below(150) as usize;
            let n = 2 + rng.below(6) as usize;
            let mut l = vec![a; n];
            *l.last_mut().unwrap() = 1 + rng.below(a as u64 - 1) as usize;
            (l, "fixed-then-short-last")
        }
        6 => ((0..2 + rng.below(4)).map(|_| 126 + rng.below(6) as usize).collect(), "around-128"),
        7 => {
            // one record beyond the position table (1023) and beyond 2 * 1023
            let l = *rng.pick(&[1023usize, 1024, 1025, 2046, 2047, 2048, 2500]);
            let mut v = vec![l];
            if rng.chance(1, 2) {
                v.push(1 + rng.below(50) as usize);
            }
            (v, "beyond-position-table")
        }
        8 => {
            // first record decides the position shift: 128 vs 129 first, the other later
            let a = *rng.pick(&[128usize, 129]);
            (vec![a, 257 - a, 1 + rng.below(300) as usize], "first-record-128-129")
        }
        9 => {
            // lengths whose second byte is non-zero (length model 1)
            ((0..1 + rng.below(3)).map(|_| 256 + rng.below(600) as usize).collect(), "length-two-bytes")
        }
        10 if big => (vec![150; 440 + rng.below(8) as usize], "total-above-65535"),
        11 => {
            // almost fixed: every aggregate of a fixed-length layout holds (first = last = mean = a), two
            // inner lengths differ by ±d
            let a = 3 + rng.below(120) as usize;
            let n = 4 + rng.below(5) as usize;
            let d = 1 + rng.below(a as u64 - 1) as usize;
            let mut l = vec![a; n];
            l[1] = a - d;
            l[2] = a + d;
            (l, "almost-fixed-length")
        }
        _ => ((0..1 + rng.below(200)).map(|_| 1 + rng.below(12) as usize).collect(), "many-short-records"),
    }
}

fn gen_invalid(rng: &mut Rng) -> (Vec<usize>, Vec<u8>, &'static str) {
    let total = rng.below(40) as usize;
    let (src, _) = gen_quals(rng, total);
    match rng.below(6) {
        0 => (vec![], src, "invalid:no-records"),
        1 => {
            let n = 1 + rng.below(5) as usize;
            let mut l: Vec<usize> = (0..n).map(|_| 1 + rng.below(10) as usize).collect();
            let i = rng.below(n as u64) as usize;
            l[i] = 0;
            let t: usize = l.iter().sum();
            (l, gen_quals(rng, t).0, "invalid:zero-length-record-sum-ok")
        }
        2 => (vec![total + 1 + rng.below(5) as usize], src, "invalid:sum-too-large"),
        3 => (vec![1.max(total.saturating_sub(1 + rng.below(3) as usize))], [src, vec![7, 7]].concat(), "invalid:sum-too-small"),
        4 => (vec![0], vec![], "invalid:zero-length-record-empty-input"),
        _ => (vec![usize::MAX, 2], src, "invalid:sum-overflows"),
    }
}

/// hand-written boundary inputs, run first: (lens, src, shape)
fn corpus() -> Vec<(Vec<usize>, Vec<u8>, &'static str)> {
    let mut v: Vec<(Vec<usize>, Vec<u8>, &'static str)> = vec![];
    // noodles' own unit-test vectors
    v.push((vec![10, 10, 5], vec![0, 0, 0, 1, 1, 2, 1, 1, 0, 0, 0, 1, 2, 3, 3, 3, 3, 3, 3, 3, 2, 1, 1, 0, 0], "unit-test"));
    v.push((vec![10, 10, 10], vec![0, 0, 0, 1, 1, 2, 1, 1, 0, 0, 0, 1, 2, 3, 3, 3, 3, 3, 3, 3, 2, 1, 1, 0, 0, 0, 0, 0, 1, 1], "unit-test-do-len"));
    // the invalid layouts of the fix commit, and their neighbours
    v.push((vec![], vec![], "invalid:no-records"));
    v.push((vec![], vec![5], "invalid:no-records"));
    v.push((vec![0, 2], vec![5, 5], "invalid:zero-length-record-sum-ok"));
    v.push((vec![1], vec![5, 5], "invalid:sum-too-small"));
    v.push((vec![3], vec![5, 5], "invalid:sum-too-large"));
    v.push((vec![0], vec![], "invalid:zero-length-record-empty-input"));
    v.push((vec![2, 0], vec![5, 5], "invalid:zero-length-record-sum-ok"));
    v.push((vec![usize::MAX, 3], vec![5, 5], "invalid:sum-overflows"));
    v.push((vec![usize::MAX, 1], vec![], "invalid:sum-overflows-to-0"));
    // one quality
    for q in [0u8, 1, 40, 93, 254, 255] {
        v.push((vec![1], vec![q], "one-quality"));
    }
    v.push((vec![1, 1], vec![0, 0], "all-length-1"));
    v.push((vec![1, 1], vec![0, 255], "all-length-1"));
    v.push((vec![1; 300], (0..300).map(|i| (i % 7) as u8).collect(), "all-length-1"));
    v.push((vec![2], vec![3, 3], "one-record"));
    v.push((vec![1, 2, 3], vec![1, 2, 2, 3, 3, 3], "variable-length"));
    v.push((vec![3, 2, 1], vec![1, 2, 2, 3, 3, 3], "variable-length"));
    // "all lengths equal" decided from aggregates is wrong: the first length equals the mean (and the
    // median, and the last) while the lengths differ
    for lens in [vec![6usize, 4, 8], vec![5, 5, 4, 6], vec![100, 99, 101, 150, 50], vec![7, 1, 13, 7], vec![2, 1, 3], vec![10, 5, 15, 10, 10]] {
        let total: usize = lens.iter().sum();
        v.push((lens, (0..total).map(|i| [30u8, 31, 30, 12, 40, 40, 7][i % 7]).collect(), "first-length-is-the-mean"));
    }
    // the position shift is decided by lens[0] > 128
    for (a, b) in [(128usize, 129usize), (129, 128), (128, 128), (129, 129), (127, 300), (300, 127)] {
        let total = a + b;
        v.push((vec![a, b], (0..total).map(|i| [30u8, 30, 31, 12, 30][i % 5]).collect(), "first-record-128-129"));
    }
    // beyond the position table: `p.min(1023)`
    for l in [1023usize, 1024, 1025, 2047, 2048, 3000] {
        v.push((vec![l], (0..l).map(|i| (i * 7 % 41) as u8).collect(), "beyond-position-table"));
        v.push((vec![l, l], (0..2 * l).map(|i| (i * 5 % 11) as u8).collect(), "beyond-position-table-fixed"));
    }
    // one context sees more than 4094 symbols (the model is renormalised): constant quality
    v.push((vec![6000], vec![30; 6000], "renormalise-quality-model"));
    v.push((vec![4400, 4400], (0..8800).map(|i| if i % 97 == 0 { 2 } else { 37 }).collect(), "renormalise-quality-model"));
    // more than 4094 records: the length models are renormalised (variable lengths)
    v.push(((0..4200).map(|i| 1 + i % 2).collect(), (0..6300).map(|i| (i % 3) as u8).collect(), "renormalise-length-models"));
    // length bytes 1, 2, 3
    v.push((vec![255, 256, 257], (0..768).map(|i| (i % 40) as u8).collect(), "length-two-bytes"));
    v.push((vec![65535, 1], (0..65536).map(|i| [37u8, 37, 23, 37, 12][i % 5]).collect(), "total-above-65535"));
    v.push((vec![70000], (0..70000).map(|i| ((i / 3) % 41) as u8).collect(), "length-three-bytes"));
    v.push((vec![150; 440], (0..66000usize).map(|i| (40 - (i % 150) / 5 - (i * 7 % 3)) as u8).collect(), "total-above-65535"));
    // alphabets
    v.push((vec![50, 50], vec![255; 100], "single-symbol-255"));
    v.push((vec![50, 50], vec![0; 100], "single-symbol-0"));
    v.push((vec![128, 128], (0..=255).collect(), "all-256-symbols"));
    v.push((vec![94], (0..94).collect(), "alphabet-94"));
    v.push((vec![47, 47], (0..94).rev().collect(), "alphabet-94"));
    v
}

fn gen_case(sub: u64, big: bool) -> (Vec<usize>, Vec<u8>, String) {
    let mut rng = Rng::new(sub ^ 0xF9C0);
    if rng.chance(1, 12) {
        let (l, s, n) = gen_invalid(&mut rng);
        return (l, s, n.to_string());
    }
    let (lens, lname) = gen_lens(&mut rng, big);
    let total: usize = lens.iter().sum();
    let (src, qname) = gen_quals(&mut rng, total);
    (lens, src, format!("{lname}/{qname}"))
}

// ------------------------------------------------------------------------------------------------
// streams the noodles encoder never emits

fn nondecreasing_table(rng: &mut Rng, n: usize, style: u64) -> Vec<u8> {
    match style {
        0 => (0..n).map(|i| (i.min(255)) as u8).collect(), // identity-like
        1 => {
            // steps of random widths starting at 0
            let mut v = vec![];
            let mut val = 0u8;
            while v.len() < n {
                let w = *rng.pick(&[1usize, 1, 2, 3, 7, 50, 254, 255, 256, 300, 510, 511]);
                v.extend(std::iter::repeat(val).take(w));
                if val == 255 {
                    v.resize(n.max(v.len()), 255);
                    break;
                }
                val = val.saturating_add(1 + rng.below(3) as u8);
            }
            v.truncate(n);
            v
        }
        2 => (0..n).map(|i| (i * 16 / n.max(1)) as u8).collect(), // 16 even bins
        3 => vec![0; n],                                          // one run of zeros
        4 => (0..n).map(|i| (i >> 2).min(63) as u8).collect(),
        5 => {
            // does not start at 0: the decoder's `last = 0` reads the first (empty) run as a repeat
            let s = 1 + rng.below(3) as u8;
            (0..n).map(|i| s.saturating_add((i / 100) as u8)).collect()
        }
        _ => {
            // values with gaps (empty runs in between)
            let mut v = vec![];
            let mut val = 0u8;
            while v.len() < n {
                let w = 1 + rng.below(120) as usize;
                v.extend(std::iter::repeat(val).take(w));
                val = val.saturating_add(1 + rng.below(40) as u8);
            }
            v.truncate(n);
            v
        }
    }
}

fn gen_gparam(rng: &mut Rng, simple: bool, full: bool) -> GParam {
    // (the real decoder's cost per call grows with the alphabet: 65536 models are allocated)
    let max_sym = if full { 255 } else { *rng.pick(&[0u8, 1, 3, 7, 7, 40, 40, 93]) };
    let mut flags = 0u8;
    for (bit, num, den) in [(P_DEDUP, 1, 4), (P_LEN, 1, 3), (P_SEL, 1, 3), (P_QMAP, 1, 4), (P_PTAB, 1, 2), (P_DTAB, 1, 3), (P_QTAB, 1, 3), (1u8, 1, 10)] {
        if rng.chance(num, den) {
            flags |= bit;
        }
    }
    if simple {
        flags &= P_PTAB | P_LEN;
    }
    let qmap = if flags & P_QMAP != 0 {
        // strictly increasing qualities, `max_sym` of them
        let mut q = rng.below(3) as u8;
        (0..max_sym).map(|_| { let r = q; q = q.saturating_add(1 + rng.below(2) as u8); r }).collect()
    } else {
        vec![]
    };
    GParam {
        context: if rng.chance(1, 2) { 0 } else { rng.next() as u16 },
        flags,
        max_sym,
        q_bits: *rng.pick(&[0u8, 4, 8, 9, 10, 12, 15]),
        q_shift: *rng.pick(&[0u8, 2, 3, 4, 5, 8, 15]),
        q_loc: *rng.pick(&[0u8, 3, 7, 8, 15]),
        s_loc: *rng.pick(&[0u8, 8, 14, 15]),
        p_loc: *rng.pick(&[0u8, 4, 8, 13, 15]),
        d_loc: *rng.pick(&[0u8, 5, 12, 15]),
        qmap,
        qtab: { let st = *rng.pick(&[0u64, 0, 1, 2, 4, 6, 5]); nondecreasing_table(rng, 256, st) },
        ptab: { let st = *rng.pick(&[1u64, 2, 4, 4, 6, 3, 5]); nondecreasing_table(rng, 1024, st) },
        dtab: { let st = *rng.pick(&[0u64, 1, 2, 4, 3]); nondecreasing_table(rng, 256, st) },
    }
}

/// a well-formed stream with parameter features of the format that noodles only decodes; `bad`
/// injects one of the record-level defects the hardened decoder checks
fn gen_foreign(rng: &mut Rng) -> Option<(Vec<u8>, String)> {
    let np = *rng.pick(&[1usize, 1, 2, 3, 4]);
    let mut gflags = 0u8;
    if np > 1 || rng.chance(1, 5) {
        gflags |= G_MULTI;
    }
    if rng.chance(1, 2) && (np > 1 || rng.chance(1, 4)) {
        gflags |= G_STAB;
    }
    if rng.chance(1, 3) {
        gflags |= G_REV;
    }
    let full = rng.chance(1, 25);
    let params: Vec<GParam> = (0..np).map(|i| { let simple = rng.chance(1, 5); gen_gparam(rng, simple, full && i == 0) }).collect();
    let max_sel = if gflags & G_STAB != 0 { 1 + rng.below(4) as u8 } else { 0 };
    // selector table: selector s → parameter set s (clamped), rarely beyond the list
    let beyond = rng.chance(1, 12);
    let stab: Vec<u8> = (0..256).map(|s: usize| if beyond && s >= 2 { np as u8 } else { s.min(np - 1) as u8 }).collect();
    let gp = GParams { gflags, n_param_byte: np as u8, max_sel, stab, params };
    let selc = selector_count(&gp);
    let nsym = gp.params.iter().map(|p| p.max_sym as usize + 1).max().unwrap();
    let nrec = 1 + rng.below(8) as usize;
    let bad = if rng.chance(1, 5) { 1 + rng.below(5) } else { 0 };
    let mut recs: Vec<GRec> = vec![];
    let mut fixed_len: Option<usize> = None;
    let mut decoded = 0usize;
    let mut what = String::from("ok");
    for ri in 0..nrec {
        let sel = match selc { Some(c) => rng.below(c as u64) as u8, None => 0 };
        let x = if gp.gflags & G_STAB != 0 && selc.is_some() { gp.stab[sel as usize] as usize } else { 0 };
        let p = gp.params.get(x.min(np - 1)).unwrap();
        let mut len = match rng.below(6) {
            0 => 1,
            1 => 1 + rng.below(5) as usize,
            2 => 1030 + rng.below(30) as usize,
            3 => 256 + rng.below(300) as usize,
            _ => 1 + rng.below(80) as usize,
        };
        if let Some(prev) = recs.last() {
            // a duplicate has the previous record's length; a fixed-length parameter reuses it
            if rng.chance(1, 2) || p.flags & P_LEN != 0 {
                len = prev.len;
            }
        }
        if p.flags & P_LEN != 0 && ri > 0 {
            len = fixed_len.unwrap_or(len);
            len = recs.last().map_or(len, |r| r.len);
        }
        if ri == 0 || p.flags & P_LEN == 0 {
            fixed_len = Some(len);
        }
        let mut dup = p.flags & P_DEDUP != 0 && ri > 0 && recs.last().is_some_and(|r| r.len == len) && decoded >= len && rng.chance(1, 2);
        if bad == 1 && ri == nrec - 1 && p.flags & P_DEDUP != 0 {
            dup = true; // possibly longer than what was decoded
            what = "bad:duplicate-anywhere".into();
        }
        if bad == 2 && ri == nrec - 1 && (ri == 0 || p.flags & P_LEN == 0) {
            len = 0;
            what = "bad:length-0".into();
        }
        // symbols: slowly varying, inside the alphabet; with a quality map sometimes beyond it
        let lim = if p.flags & P_QMAP != 0 && !(bad == 3) { (p.max_sym as usize).max(1) } else { nsym };
        if bad == 3 && p.flags & P_QMAP != 0 {
            what = "bad:symbol-beyond-quality-map".into();
        }
        let mut q = rng.below(lim as u64) as u8;
        let syms: Vec<u8> = (0..len).map(|_| {
            match rng.below(4) {
                0 => q = rng.below(lim as u64) as u8,
                1 => q = q.saturating_sub(1),
                _ => {}
            }
            q
        }).collect();
        decoded += len;
        recs.push(GRec { sel, len, rev: rng.chance(1, 2), dup, syms });
    }
    let total: usize = recs.iter().map(|r| r.len).sum();
    let declared = match bad {
        4 => {
            what = "bad:declared-smaller".into();
            total.saturating_sub(1 + rng.below(3) as usize)
        }
        5 => {
            what = "bad:declared-larger".into();
            total + 1 + rng.below(3) as usize
        }
        _ => total,
    };
    let s = write_stream(&gp, &recs, declared)?;
    Some((s, what))
}

/// hand-written streams: one for every rejecting (and every tolerant) branch of `decode.rs`,
/// `parameters.rs`, `parameters/parameter.rs`
fn malformed_corpus() -> Vec<(Vec<u8>, &'static str)> {
    let ptab0: Vec<u8> = store_array(&(0..1024).map(|i: usize| i.min(127) as u8).collect::<Vec<_>>());
    let simple_hdr = |n: usize, flags: u8, max_sym: u8| -> Vec<u8> {
        let mut s = uint7(n);
        s.extend([5, 0, 0, 0, flags, max_sym, 0x95, 0x7f, 0x0f]);
        s
    };
    let mut v: Vec<(Vec<u8>, &'static str)> = vec![
        (vec![], "empty-input"),
        (vec![0x81], "size-unterminated"),
        (vec![0x81, 0x81, 0x81, 0x81, 0x81, 0x01], "size-6-bytes"),
        (vec![0x01], "version-missing"),
        (vec![0x01, 0x04], "version-4"),
        (vec![0x01, 0x05], "gflags-missing"),
        (vec![0x01, 0x05, 0x01], "parameter-count-missing"),
        (vec![0x01, 0x05, 0x01, 0x00], "parameter-count-0"),
        (vec![0x01, 0x05, 0x02], "max-selector-missing"),
        (vec![0x01, 0x05, 0x02, 0x00], "max-selector-0"),
        (vec![0x01, 0x05, 0x02, 0x01], "selector-table-missing"),
        (vec![0x01, 0x05, 0x00], "parameter-missing"),
        (vec![0x01, 0x05, 0x00, 0x00, 0x00, 0x00, 0x00, 0x00, 0x00], "parameter-header-short"),
        (vec![0x01, 0x05, 0x00, 0x00, 0x00, 0x00, 0x00, 0x00, 0x00, 0x00], "range-coder-header-missing"),
        (vec![0x01, 0x05, 0x00, 0x00, 0x00, 0x00, 0x00, 0x00, 0x00, 0x00, 0x00, 0x00, 0x00, 0x00], "range-coder-header-short"),
        (vec![0x00, 0x05, 0x00, 0x00, 0x00, 0x00, 0x00, 0x00, 0x00, 0x00, 0x00, 0x00, 0x00, 0x00, 0x00], "size-0"),
        (vec![0x00, 0x05, 0xf8, 0x00, 0x00, 0x00, 0x00, 0x00, 0x00, 0x00, 0x00, 0x00, 0x00, 0x00, 0x00], "unknown-gflag-bits"),
        // the four witnesses of the decoder fix commit
        (vec![0x01, 0x05, 0x00, 0x00, 0x00, 0x80, 0x00, 0x00, 0x00, 0x00, 0x00, 0xff, 0x00, 0xff], "fix:q-table-of-empty-runs"),
        (vec![0x01, 0x05, 0x00, 0x00, 0x00, 0x80, 0x00, 0x00, 0x00, 0x00, 0xff, 0xff, 0x01], "fix:run-longer-than-table"),
        (vec![0x24, 0x05, 0x00, 0x00, 0x00, 0x24, 0x78, 0x95, 0x7f, 0x0f, 0x01, 0x01, 0xff, 0xff, 0xff, 0x01, 0x84, 0x00, 0x23, 0xff, 0xff, 0xdc], "fix:more-than-256-runs"),
        ([vec![0x01, 0x05, 0x00, 0x00, 0x00, 0x00, 0x00, 0x00, 0x00, 0x00], vec![0; 12]].concat(), "fix:record-of-length-0"),
        // noodles' own decoder unit test (q_bits 8, q_shift 2)
        (vec![0x19, 0x05, 0x00, 0x00, 0x00, 0x20, 0x03, 0x82, 0x7f, 0x0f, 0x01, 0x01, 0x7d, 0xff, 0xff, 0x01, 0x84, 0x00, 0x09, 0xff, 0xff, 0xf6, 0x01, 0x65, 0x00, 0x86, 0x2e, 0x98, 0xea, 0xca, 0x71, 0x6f, 0x22, 0xcd, 0xd8, 0x40], "unit-test-decode"),
        // quality map shorter than the input / exactly there
        (vec![0x01, 0x05, 0x00, 0x00, 0x00, 0x10, 0x03, 0x00, 0x00, 0x00, 0x01, 0x02], "quality-map-short"),
    ];
    // tables: q table (256 entries) in a one-record stream of one quality
    let with_qtab = |tab: &[u8], what: &'static str| -> (Vec<u8>, &'static str) {
        let mut s = simple_hdr(1, P_QTAB, 3);
        s.extend(tab);
        s.extend([0x00, 0x00, 0x40, 0x00, 0x00, 0x00, 0x00, 0x00, 0x00]);
        (s, what)
    };
    v.push(with_qtab(&store_array(&(0..=255).collect::<Vec<u8>>()), "q-table-identity"));
    v.push(with_qtab(&store_array(&vec![0u8; 256]), "q-table-one-run-of-256"));
    v.push(with_qtab(&store_array(&[vec![0u8; 255], vec![1u8]].concat()), "q-table-run-of-255-then-1"));
    // a last run of exactly 255 (or 510) entries: the writer ends with a part 0 that the reader
    // never reads (it stops when the parts cover the table)
    v.push(with_qtab(&store_array(&[vec![0u8; 1], vec![1u8; 255]].concat()), "q-table-last-run-255"));
    v.push(with_qtab(&[1, 255], "q-table-last-run-255-without-final-part"));
    v.push(with_qtab(&[1, 255, 0], "q-table-last-run-255-with-final-part"));
    // a table that does not hold the value 0: the first part is 0 = the reader's initial `last`
    v.push(with_qtab(&store_array(&vec![1u8; 256]), "q-table-without-value-0"));
    v.push(with_qtab(&[0, 0, 255, 1], "q-table-first-run-0-read-as-repeat"));
    v.push(with_qtab(&[0, 2, 255, 1], "q-table-first-run-0-repeat-2"));
    v.push(with_qtab(&[128, 128, 0], "q-table-repeat-count-0"));
    v.push(with_qtab(&[64, 64, 2], "q-table-repeat-count-2"));
    v.push(with_qtab(&[64, 64, 9], "q-table-repeat-beyond-table"));
    v.push(with_qtab(&[200, 100], "q-table-last-run-clamped"));
    v.push(with_qtab(&[255, 255, 0, 1], "q-table-parts-255"));
    v.push(with_qtab(&[255], "q-table-eof-after-255"));
    v.push(with_qtab(&[100, 100], "q-table-eof-in-repeat"));
    v.push(with_qtab(&[[1u8, 1, 254].to_vec(), vec![0, 0, 255]].concat(), "q-table-256-values-then-more"));
    // p table and d table present, then a stream of three qualities
    {
        let mut s = simple_hdr(3, P_PTAB | P_DTAB, 3);
        s.extend(&ptab0);
        s.extend(store_array(&(0..256).map(|i: usize| (i / 8) as u8).collect::<Vec<_>>()));
        s.extend([0x00, 0x03, 0x00, 0x00, 0x00, 0x12, 0x34, 0x56, 0x78, 0x9a]);
        v.push((s, "p-and-d-table"));
    }
    // selector table whose entry for selector 1 is not a parameter index; the coder's first value
    // (0xc0000000 of 0xffffffff, two symbols) decodes to selector 1, 0x40000000 to selector 0
    for (code, what) in [(0xc0u8, "selector-table-entry-beyond-parameters"), (0x40u8, "selector-table-entry-0")] {
        let mut s = uint7(1);
        s.extend([5, G_STAB, 1]);
        s.extend(store_array(&[vec![0u8; 1], vec![1u8; 254], vec![2u8; 1]].concat()));
        s.extend([0, 0, 0, 3, 0x95, 0x7f, 0x0f]);
        s.extend([0x00, code, 0x00, 0x00, 0x00, 0x00, 0x00, 0x00, 0x00, 0x00, 0x00]);
        v.push((s, what));
    }
    v
}

// ------------------------------------------------------------------------------------------------
// entry points

pub fn run(ctx: &mut Ctx) {
    let t0 = std::time::Instant::now();
    for (i, (lens, src, shape)) in corpus().iter().enumerate() {
        let mut rng = Rng::new(ctx.seed.wrapping_mul(5_000_011) ^ i as u64);
        one_case(ctx, lens, src, shape, 1, &mut rng);
    }
    ctx.bump_by("fqz_corpus_inputs", corpus().len() as u64);
    for (stream, what) in malformed_corpus() {
        decx(ctx, &format!("malformed:{what}"), &stream);
    }
    let t1 = t0.elapsed().as_millis() as u64;
    // generated encoder inputs
    let n = ctx.n(130, 2500);
    for it in 0..n {
        let sub = ctx.seed.wrapping_mul(8_000_009).wrapping_add(it);
        let (lens, src, shape) = gen_case(sub, ctx.tier_thorough && it % 50 == 0);
        let mut rng = Rng::new(sub ^ 0xD4A6);
        one_case(ctx, &lens, &src, &shape, 2, &mut rng);
    }
    let t2 = t0.elapsed().as_millis() as u64;
    // streams with parameter blocks the encoder never emits, and damaged copies of them
    let n = ctx.n(260, 4500);
    for it in 0..n {
        let sub = ctx.seed.wrapping_mul(6_000_011).wrapping_add(it);
        let mut rng = Rng::new(sub ^ 0xF0E1);
        match gen_foreign(&mut rng) {
            Some((s, what)) => {
                let r = decx(ctx, &format!("foreign:{what}"), &s);
                let _ = r;
                if s.len() <= 3000 {
                    damage(ctx, "foreign", &s, &mut rng, 1);
                }
            }
            None => ctx.bump("fqz_foreign_not_expressible"),
        }
    }
    ctx.bump_by("fqz_harness_ms_corpus", t1);
    ctx.bump_by("fqz_harness_ms_generated", t2 - t1);
    ctx.bump_by("fqz_harness_ms", t0.elapsed().as_millis() as u64);
    ctx.bump_by("fqz_harness_ms_in_real_codec", REAL_US.load(std::sync::atomic::Ordering::Relaxed) / 1000);
    ctx.bump_by("fqz_real_codec_calls", REAL_CALLS.load(std::sync::atomic::Ordering::Relaxed));
    ctx.sample(|| "c08 fqzenc 10,10,5 00000001010201010000000102030303030303030201010000".into());
}

/// `fqzrt <lens> x<input, hex>`; `fqzall` runs the whole extension alone (development aid)
pub fn replay(ctx: &mut Ctx, case: &[String]) -> bool {
    match case.first().map(|s| s.as_str()) {
        Some("fqzall") => {
            run(ctx);
            true
        }
        Some("fqzrt") => {
            if case.len() >= 3 {
                let lens: Vec<usize> = if case[1] == "-" { vec![] } else { case[1].split(',').filter_map(|x| x.parse().ok()).collect() };
                let src = case[2].strip_prefix('x').map(unhex).unwrap_or_default();
                let mut rng = Rng::new(fnv(&src));
                one_case(ctx, &lens, &src, "replay", 3, &mut rng);
            }
            true
        }
        _ => false,
    }
}
