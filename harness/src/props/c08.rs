//! C08 — CRAM codecs and integer codings decode exactly what was encoded.
//!
//! Correspondence (`c08 …` request lines, answered by the real code here and by the Lean model in
//! `lean/Noodles/Cram/DriverC08.lean`): ITF8 / LTF8 / uint7 writers and readers, the rANS 4x8
//! order-0 building blocks (normalisation, frequency table, full encoder) and the specification
//! decoder on the streams the real encoder emits.
//!
//! Oracle: `decode(encode x) == x`, no panic, for EVERY codec of the property (rANS 4x8 o0/o1,
//! rANS Nx16 and the adaptive arithmetic coder under every flag subset, fqzcomp with record-length
//! partitions, the name tokenizer on name lists, gzip/bzip2/lzma) plus the integer codings; the
//! rANS 4x8 streams are additionally decoded by an independent decoder written in this file from
//! the CRAM codecs specification pseudocode.
use crate::common::*;
use noodles_cram::codecs::{aac, rans_4x8::Order, rans_nx16};
use noodles_cram::verif as v;

// ------------------------------------------------------------------------------------------------
// codecs

#[derive(Clone, Copy, Debug, PartialEq, Eq)]
pub enum Codec {
    R4(u8),
    Nx(u8),
    Aac(u8),
    Fqz,
    Tok,
    Gz(u32),
    Bz(u32),
    Xz(u32),
}

impl Codec {
    fn id(&self) -> String {
        match self {
            Codec::R4(o) => format!("r4 {o}"),
            Codec::Nx(f) => format!("nx {f:02x}"),
            Codec::Aac(f) => format!("aac {f:02x}"),
            Codec::Fqz => "fqz 0".into(),
            Codec::Tok => "tok 0".into(),
            Codec::Gz(l) => format!("gz {l}"),
            Codec::Bz(l) => format!("bz {l}"),
            Codec::Xz(l) => format!("xz {l}"),
        }
    }
    fn parse(name: &str, cfg: &str) -> Option<Codec> {
        Some(match name {
            "r4" => Codec::R4(cfg.parse().ok()?),
            "nx" => Codec::Nx(u8::from_str_radix(cfg, 16).ok()?),
            "aac" => Codec::Aac(u8::from_str_radix(cfg, 16).ok()?),
            "fqz" => Codec::Fqz,
            "tok" => Codec::Tok,
            "gz" => Codec::Gz(cfg.parse().ok()?),
            "bz" => Codec::Bz(cfg.parse().ok()?),
            "xz" => Codec::Xz(cfg.parse().ok()?),
            _ => return None,
        })
    }
    /// stable prefix of the oracle class
    fn family(&self) -> String {
        match self {
            Codec::R4(o) => format!("rans4x8-o{o}"),
            Codec::Nx(_) => "nx16".into(),
            Codec::Aac(_) => "aac".into(),
            Codec::Fqz => "fqzcomp".into(),
            Codec::Tok => "tok".into(),
            Codec::Gz(_) => "gzip".into(),
            Codec::Bz(_) => "bzip2".into(),
            Codec::Xz(_) => "lzma".into(),
        }
    }
}

fn io_res<T>(r: Result<std::io::Result<T>, String>) -> Result<T, Bad> {
    match r {
        Ok(Ok(x)) => Ok(x),
        Ok(Err(e)) => Err(Bad::Err(errclass(&e).to_string(), e.to_string())),
        Err(p) => Err(Bad::Panic(p)),
    }
}

#[derive(Debug, Clone)]
pub enum Bad {
    Err(String, String),
    Panic(String),
}

pub fn encode(c: Codec, src: &[u8], lens: &[usize]) -> Result<Vec<u8>, Bad> {
    io_res(guarded(|| match c {
        Codec::R4(o) => v::rans_4x8_encode(if o == 0 { Order::Zero } else { Order::One }, src),
        Codec::Nx(f) => v::rans_nx16_encode(rans_nx16::Flags::from(f), src),
        Codec::Aac(f) => v::aac_encode(aac::Flags::from(f), src),
        Codec::Fqz => v::fqzcomp_encode(lens, src),
        Codec::Tok => v::name_tokenizer_encode(src),
        Codec::Gz(l) => v::gzip_encode(l, src),
        Codec::Bz(l) => v::bzip2_encode(l, src),
        Codec::Xz(l) => v::lzma_encode(l, src),
    }))
}

pub fn decode(c: Codec, enc: &[u8], n: usize) -> Result<Vec<u8>, Bad> {
    io_res(guarded(|| match c {
        Codec::R4(_) => v::rans_4x8_decode(enc),
        Codec::Nx(_) => v::rans_nx16_decode(enc, n),
        Codec::Aac(_) => v::aac_decode(enc, n),
        Codec::Fqz => v::fqzcomp_decode(enc),
        Codec::Tok => v::name_tokenizer_decode(enc),
        Codec::Gz(_) => {
            let mut d = vec![0; n];
            v::gzip_decode(enc, &mut d).map(|_| d)
        }
        Codec::Bz(_) => {
            let mut d = vec![0; n];
            v::bzip2_decode(enc, &mut d).map(|_| d)
        }
        Codec::Xz(_) => {
            let mut d = vec![0; n];
            v::lzma_decode(enc, &mut d).map(|_| d)
        }
    }))
}

/// outcome of one self round trip
#[derive(Debug, Clone)]
pub enum Rt {
    Ok(Vec<u8>),
    /// the encoder refused the input (not a violation)
    Refused(String),
    /// (kind, text): kind ∈ encode-panic, decode-panic, decode-error, wrong-data
    Fail(&'static str, String),
}

pub fn roundtrip(c: Codec, src: &[u8], lens: &[usize]) -> Rt {
    let enc = match encode(c, src, lens) {
        Ok(e) => e,
        Err(Bad::Err(cls, _)) => return Rt::Refused(cls),
        Err(Bad::Panic(p)) => return Rt::Fail("encode-panic", format!("encoder panicked: {p}")),
    };
    match decode(c, &enc, src.len()) {
        Ok(d) if d == src => Rt::Ok(enc),
        Ok(d) => {
            let at = d.iter().zip(src).position(|(a, b)| a != b).unwrap_or(d.len().min(src.len()));
            Rt::Fail("wrong-data", format!("decoder returned {} bytes that differ from the {} input bytes (first difference at {at}) without an error", d.len(), src.len()))
        }
        Err(Bad::Err(cls, msg)) => Rt::Fail("decode-error", format!("decoder rejects the encoder's own output: {cls} ({msg})")),
        Err(Bad::Panic(p)) => Rt::Fail("decode-panic", format!("decoder panicked on the encoder's own output: {p}")),
    }
}

// ------------------------------------------------------------------------------------------------
// input shapes (all derived from a sub-seed so a case replays exactly)

const LENS: [usize; 40] = [
    1, 2, 3, 4, 5, 6, 7, 8, 9, 15, 16, 17, 31, 32, 33, 34, 63, 64, 65, 95, 96, 97, 127, 128, 129, 255, 256, 257, 1000, 1023,
    1024, 1025, 4095, 4096, 4097, 5000, 10_000, 20_001, 65_537, 70_000,
];

pub fn gen_len(rng: &mut Rng, cap: usize) -> usize {
    let n = match rng.below(4) {
        0 => *rng.pick(&LENS),
        1 => {
            // straddle a multiple of 4 / 32
            let k = 1 + rng.below(40) as usize;
            let m = if rng.chance(1, 2) { 4 } else { 32 };
            (k * m + rng.below(3) as usize).saturating_sub(1)
        }
        2 => 1 + rng.below(300) as usize,
        _ => 1 + rng.below(6000) as usize,
    };
    n.min(cap).max(1)
}

/// (bytes, shape name)
pub fn gen_input(sub: u64, cap: usize) -> (Vec<u8>, &'static str) {
    let mut rng = Rng::new(sub ^ 0xC08);
    let shape = rng.below(16);
    match shape {
        0 => (vec![], "empty"),
        1 => {
            let n = 1 + rng.below(3) as usize;
            let lo = *rng.pick(&[0u64, 1, 2, 100, 253]);
            ((0..n).map(|_| (lo + rng.below(3)) as u8).collect(), "len1to3")
        }
        2 => {
            let s = *rng.pick(&[0u8, 1, 2, 7, 65, 254, 255]);
            (vec![s; gen_len(&mut rng, cap)], "single-symbol")
        }
        3 => {
            // all 256 symbols, in order or shuffled, repeated
            let reps = 1 + rng.below(4) as usize;
            let mut d: Vec<u8> = (0..256 * reps).map(|i| (i % 256) as u8).collect();
            if rng.chance(1, 2) {
                for i in (1..d.len()).rev() {
                    d.swap(i, rng.below(i as u64 + 1) as usize);
                }
            }
            (d, "all-256")
        }
        4 => {
            // a run of consecutive symbols reaching 255
            let lo = 255 - rng.below(*rng.clone().pick(&[1u64, 2, 3, 4, 40, 255])) as usize;
            let n = gen_len(&mut rng, cap).max(256 - lo);
            let mut d: Vec<u8> = (lo..256).map(|x| x as u8).collect();
            while d.len() < n {
                d.push((lo + rng.below((256 - lo) as u64) as usize) as u8);
            }
            (d, "run-to-255")
        }
        5 => {
            // skewed (geometric) over an alphabet of k symbols starting at base
            let k = *rng.pick(&[2usize, 3, 4, 5, 16, 17, 40, 100, 256]);
            let base = if k == 256 { 0 } else { rng.below((256 - k) as u64 + 1) as usize };
            let n = gen_len(&mut rng, cap);
            let d = (0..n)
                .map(|_| {
                    let mut s = 0;
                    while s + 1 < k && rng.chance(1, 3) {
                        s += 1;
                    }
                    (base + s) as u8
                })
                .collect();
            (d, "skewed")
        }
        6 => {
            // long runs
            let n = gen_len(&mut rng, cap);
            let k = 1 + rng.below(6);
            let base = *rng.pick(&[0u64, 1, 33, 200, 250]);
            let mut d = Vec::with_capacity(n);
            while d.len() < n {
                let s = (base + rng.below(k)) as u8;
                let run = 1 + rng.below(*rng.clone().pick(&[3u64, 40, 300, 70_000])) as usize;
                for _ in 0..run.min(n - d.len()) {
                    d.push(s);
                }
            }
            (d, "long-runs")
        }
        7 => {
            // small alphabet, lengths around multiples of 4 and 32
            let k = 1 + rng.below(5);
            let m = if rng.chance(1, 2) { 4 } else { 32 };
            let n = (((1 + rng.below(20) as usize) * m + rng.below(3) as usize).saturating_sub(1)).max(1);
            let base = *rng.pick(&[0u64, 1, 65]);
            ((0..n).map(|_| (base + rng.below(k)) as u8).collect(), "len-4-32-edge")
        }
        8 | 9 => {
            // quality-like: phred values, slowly varying, optional +33
            let n = gen_len(&mut rng, cap);
            let off = if rng.chance(1, 2) { 33 } else { 0 };
            let maxq = *rng.pick(&[3u64, 7, 40, 41, 60, 93]);
            let mut q = rng.below(maxq + 1);
            let d = (0..n)
                .map(|_| {
                    match rng.below(6) {
                        0 => q = rng.below(maxq + 1),
                        1 => q = q.saturating_sub(1),
                        2 => q = (q + 1).min(maxq),
                        _ => {}
                    }
                    (q + off) as u8
                })
                .collect();
            (d, "quality-like")
        }
        10 => (rng.bytes(gen_len(&mut rng.clone(), cap)), "uniform-random"),
        11 => {
            // exactly k distinct symbols (bit-pack thresholds 1,2,4,16 / 17)
            let k = *rng.pick(&[1usize, 2, 3, 4, 5, 15, 16, 17, 18]);
            let mut syms: Vec<u8> = vec![];
            while syms.len() < k {
                let s = if rng.chance(1, 3) { rng.below(k as u64 + 2) as u8 } else { rng.next() as u8 };
                if !syms.contains(&s) {
                    syms.push(s);
                }
            }
            let n = gen_len(&mut rng, cap).max(k);
            let mut d: Vec<u8> = syms.clone();
            while d.len() < n {
                d.push(*rng.pick(&syms));
            }
            (d, "k-symbols")
        }
        12 => {
            // alphabet with gaps: explicit small sets that exercise the symbol-list run-length rule
            let sets: [&[u8]; 12] = [
                &[1, 2, 3],
                &[0, 1],
                &[0, 2],
                &[0, 1, 2, 3],
                &[1],
                &[1, 3, 4, 5, 9],
                &[254, 255],
                &[253, 254, 255],
                &[0, 255],
                &[5, 6, 8, 9, 10, 12],
                &[0, 1, 3, 4, 6, 7, 8],
                &[2, 3, 4, 200, 201, 202, 203],
            ];
            let set = *rng.pick(&sets);
            let n = gen_len(&mut rng, cap).max(set.len());
            let mut d: Vec<u8> = set.to_vec();
            while d.len() < n {
                d.push(*rng.pick(set));
            }
            (d, "alphabet-gaps")
        }
        13 => {
            // many rare symbols next to a few frequent ones (frequency normalisation edge)
            let frequent = 1 + rng.below(120) as usize;
            let rare = 1 + rng.below((256 - frequent) as u64) as usize;
            let m = 1 + rng.below(400) as usize;
            let mut d = vec![];
            for s in 0..frequent {
                for _ in 0..m {
                    d.push(s as u8);
                }
            }
            for s in 0..rare {
                d.push((frequent + s) as u8);
            }
            for i in (1..d.len()).rev() {
                d.swap(i, rng.below(i as u64 + 1) as usize);
            }
            d.truncate(cap.max(1));
            (d, "rare-plus-frequent")
        }
        14 => {
            // text-like
            let words: [&[u8]; 6] = [b"ACGT", b"noodles", b"\0", b"NNNNNNNN", b"chr1\t", b"0123456789"];
            let n = gen_len(&mut rng, cap);
            let mut d = vec![];
            while d.len() < n {
                d.extend_from_slice(*rng.pick(&words));
            }
            d.truncate(n);
            (d, "text-like")
        }
        _ => {
            // 16-bit / 32-bit little-endian integers (stripe-friendly)
            let n = gen_len(&mut rng, cap);
            let w = if rng.chance(1, 2) { 2 } else { 4 };
            let mut x = rng.below(1000);
            let mut d = vec![];
            while d.len() < n {
                x += rng.below(5);
                d.extend_from_slice(&x.to_le_bytes()[..w]);
            }
            d.truncate(n);
            (d, "le-integers")
        }
    }
}

/// fqzcomp case: (record lengths, qualities, shape)
pub fn gen_fqz(sub: u64) -> (Vec<usize>, Vec<u8>, &'static str) {
    let mut rng = Rng::new(sub ^ 0xF92);
    let shape = rng.below(10);
    let maxq = *rng.pick(&[0u64, 1, 3, 7, 40, 41, 60, 93, 255]);
    let (lens, name): (Vec<usize>, &'static str) = match shape {
        0 => (vec![], "no-records"),
        1 => {
            let n = 1 + rng.below(5) as usize;
            let mut l: Vec<usize> = (0..n).map(|_| 1 + rng.below(20) as usize).collect();
            let i = rng.below(n as u64) as usize;
            l[i] = 0;
            (l, "zero-length-record")
        }
        2 => (vec![1 + rng.below(300) as usize], "one-record"),
        3 => {
            let len = *rng.pick(&[1usize, 2, 10, 100, 128, 129, 151, 1023, 1024, 1025, 2000]);
            (vec![len; 1 + rng.below(12) as usize], "fixed-length")
        }
        4 => ((0..1 + rng.below(30)).map(|_| 1).collect(), "all-length-1"),
        5 | 6 => ((0..2 + rng.below(20)).map(|_| 1 + rng.below(200) as usize).collect(), "variable-length"),
        7 => {
            let a = 1 + rng.below(150) as usize;
            let n = 2 + rng.below(6) as usize;
            let mut l = vec![a; n];
            *l.last_mut().unwrap() = 1 + rng.below(a as u64) as usize;
            (l, "fixed-then-short-last")
        }
        8 => ((0..2 + rng.below(4)).map(|_| 120 + rng.below(20) as usize).collect(), "around-128"),
        _ => ((0..1 + rng.below(4)).map(|_| 1000 + rng.below(3000) as usize).collect(), "long-records"),
    };
    let total: usize = lens.iter().sum();
    let mut q = rng.below(maxq + 1);
    let src = (0..total)
        .map(|_| {
            match rng.below(5) {
                0 => q = rng.below(maxq + 1),
                1 => q = q.saturating_sub(1),
                _ => {}
            }
            q as u8
        })
        .collect();
    (lens, src, name)
}

/// name tokenizer case: a list of names (no NUL inside), serialised NUL-terminated
pub fn gen_names(sub: u64) -> (Vec<Vec<u8>>, &'static str) {
    let mut rng = Rng::new(sub ^ 0x70C);
    let shape = rng.below(12);
    let n = 1 + rng.below(*rng.clone().pick(&[2u64, 5, 40, 300])) as usize;
    let mut names: Vec<Vec<u8>> = vec![];
    let name: &'static str = match shape {
        0 => "no-names",
        1 => {
            // Illumina-like, counters increasing
            let mut x = rng.below(2000);
            let mut y = rng.below(100_000);
            for _ in 0..n {
                x += rng.below(3);
                y = if rng.chance(1, 4) { rng.below(100_000) } else { y + rng.below(300) };
                names.push(format!("I17_08765:2:{}:{}:{:05}#9", 100 + rng.below(30), x, y).into_bytes());
            }
            "illumina"
        }
        2 => {
            // leading zeros of varying width
            for _ in 0..n {
                let w = 1 + rng.below(11) as usize;
                let x = rng.below(100_000);
                names.push(format!("r{:0w$}", x, w = w).into_bytes());
            }
            "leading-zeros"
        }
        3 => {
            // duplicates
            let pool: Vec<Vec<u8>> = (0..1 + rng.below(4)).map(|i| format!("read{}/{}", i, rng.below(3)).into_bytes()).collect();
            for _ in 0..n {
                names.push(rng.pick(&pool).clone());
            }
            "duplicates"
        }
        4 => {
            // differing token counts
            for _ in 0..n {
                let k = rng.below(7);
                let mut s = String::new();
                for j in 0..k {
                    match rng.below(4) {
                        0 => s.push_str(&format!("{}", rng.below(1000))),
                        1 => s.push_str("ab"),
                        2 => s.push_str(&format!("0{}", rng.below(50))),
                        _ => s.push('x'),
                    }
                    if j + 1 < k {
                        s.push(*rng.pick(&[':', '_', '.', '/']));
                    }
                }
                names.push(s.into_bytes());
            }
            "differing-token-counts"
        }
        5 => {
            // deltas above and below 255, decreasing values
            let mut x = 1000 + rng.below(1000);
            for _ in 0..n {
                match rng.below(4) {
                    0 => x += rng.below(255),
                    1 => x += 255 + rng.below(3),
                    2 => x = x.saturating_sub(rng.below(20)),
                    _ => x += 1,
                }
                names.push(format!("q.{}", x).into_bytes());
            }
            "deltas"
        }
        6 => {
            // big numbers (beyond u32), long digit strings
            for _ in 0..n {
                let x = *rng.pick(&[4294967295u64, 4294967296, 99999999999, 4294967294, 0, 10]);
                names.push(format!("n{}:{}", x + rng.below(2), rng.below(10)).into_bytes());
            }
            "big-numbers"
        }
        7 => {
            // empty names, punctuation only, single chars
            let pool: [&[u8]; 8] = [b"", b":", b"::", b"a", b"0", b"00", b"a:", b":a"];
            for _ in 0..n {
                names.push(rng.pick(&pool).to_vec());
            }
            "degenerate"
        }
        8 => {
            // arbitrary non-NUL bytes
            for _ in 0..n {
                let l = rng.below(12) as usize;
                names.push((0..l).map(|_| 1 + rng.below(255) as u8).collect());
            }
            "arbitrary-bytes"
        }
        9 => {
            // same name pattern with zero-padded field of fixed width counting up through a width change
            let mut x = 95 + rng.below(10);
            for _ in 0..n {
                x += rng.below(3);
                names.push(format!("s{:03}", x).into_bytes());
            }
            "padded-counter"
        }
        10 => {
            // SRA style
            let mut x = rng.below(100);
            for _ in 0..n {
                x += 1;
                names.push(format!("SRR062634.{} HWI-EAS110_103327062:6:1:{}:{}/{}", x, rng.below(2000), rng.below(2000), 1 + rng.below(2)).into_bytes());
            }
            "sra"
        }
        _ => {
            // one long name / many tokens
            let k = 1 + rng.below(300);
            let mut s = String::new();
            for j in 0..k {
                s.push_str(&format!("{}", rng.below(10)));
                if j % 2 == 0 {
                    s.push(':');
                }
            }
            names.push(s.into_bytes());
            for _ in 1..n.min(3) {
                names.push(b"x:1".to_vec());
            }
            "many-tokens"
        }
    };
    (names, name)
}

pub fn join_names(names: &[Vec<u8>]) -> Vec<u8> {
    let mut d = vec![];
    for n in names {
        d.extend_from_slice(n);
        d.push(0);
    }
    d
}

// ------------------------------------------------------------------------------------------------
// independent rANS 4x8 decoder, written from the CRAM codecs specification (CRAMcodecs, section 2)
// pseudocode: ReadFrequencies0 / ReadFrequencies1 / RansDecode0 / RansDecode1. Plain u64 arithmetic,
// every read is bounds-checked; any inconsistency is an Err(String).

pub mod spec {
    pub struct In<'a> {
        pub b: &'a [u8],
        pub p: usize,
    }
    impl<'a> In<'a> {
        pub fn u8(&mut self) -> Result<u64, String> {
            let x = *self.b.get(self.p).ok_or("eof")?;
            self.p += 1;
            Ok(x as u64)
        }
        pub fn u32le(&mut self) -> Result<u64, String> {
            let mut x = 0;
            for i in 0..4 {
                x |= self.u8()? << (8 * i);
            }
            Ok(x)
        }
        pub fn itf8(&mut self) -> Result<u64, String> {
            let b0 = self.u8()?;
            Ok(if b0 < 0x80 {
                b0
            } else if b0 < 0xc0 {
                (b0 & 0x3f) << 8 | self.u8()?
            } else if b0 < 0xe0 {
                let (b1, b2) = (self.u8()?, self.u8()?);
                (b0 & 0x1f) << 16 | b1 << 8 | b2
            } else if b0 < 0xf0 {
                let (b1, b2, b3) = (self.u8()?, self.u8()?, self.u8()?);
                (b0 & 0x0f) << 24 | b1 << 16 | b2 << 8 | b3
            } else {
                let (b1, b2, b3, b4) = (self.u8()?, self.u8()?, self.u8()?, self.u8()?);
                ((b0 & 0x0f) << 28 | b1 << 20 | b2 << 12 | b3 << 4 | (b4 & 0x0f)) & 0xffff_ffff
            })
        }
    }

    /// ReadFrequencies0: F[256], C[257]
    pub fn read_freqs0(i: &mut In) -> Result<(Vec<u64>, Vec<u64>), String> {
        let mut f = vec![0u64; 256];
        let mut sym = i.u8()?;
        let mut last_sym = sym;
        let mut rle = 0u64;
        loop {
            if sym > 255 {
                return Err("symbol run beyond 255".into());
            }
            f[sym as usize] = i.itf8()?;
            if rle > 0 {
                rle -= 1;
                sym += 1;
            } else {
                sym = i.u8()?;
                if sym == last_sym + 1 {
                    rle = i.u8()?;
                }
            }
            last_sym = sym;
            if sym == 0 {
                break;
            }
        }
        let mut c = vec![0u64; 257];
        for s in 0..256 {
            c[s + 1] = c[s] + f[s];
        }
        if c[256] > 4096 {
            return Err(format!("frequencies sum to {}", c[256]));
        }
        Ok((f, c))
    }

    fn sym_of(c: &[u64], slot: u64) -> Result<usize, String> {
        // the symbol s with C[s] <= slot < C[s+1]
        (0..256).find(|&s| c[s] <= slot && slot < c[s + 1]).ok_or_else(|| format!("slot {slot} has no symbol"))
    }

    fn advance(x: u64, f: u64, c: u64, i: &mut In) -> Result<u64, String> {
        let mut x = f * (x >> 12) + (x & 0xfff) - c;
        while x < (1 << 23) {
            x = (x << 8) + i.u8()?;
        }
        Ok(x)
    }

    pub fn decode(b: &[u8]) -> Result<Vec<u8>, String> {
        let mut i = In { b, p: 0 };
        let order = i.u8()?;
        let _csize = i.u32le()?;
        let n = i.u32le()? as usize;
        let mut out = vec![0u8; n];
        if n == 0 {
            return Ok(out);
        }
        match order {
            0 => {
                let (f, c) = read_freqs0(&mut i)?;
                let mut r = [0u64; 4];
                for x in r.iter_mut() {
                    *x = i.u32le()?;
                }
                for k in 0..n {
                    let j = k % 4;
                    let s = sym_of(&c, r[j] & 0xfff)?;
                    out[k] = s as u8;
                    r[j] = advance(r[j], f[s], c[s], &mut i)?;
                }
            }
            1 => {
                // ReadFrequencies1
                let mut fs: Vec<Option<(Vec<u64>, Vec<u64>)>> = (0..256).map(|_| None).collect();
                let mut sym = i.u8()?;
                let mut last_sym = sym;
                let mut rle = 0u64;
                loop {
                    if sym > 255 {
                        return Err("context run beyond 255".into());
                    }
                    fs[sym as usize] = Some(read_freqs0(&mut i)?);
                    if rle > 0 {
                        rle -= 1;
                        sym += 1;
                    } else {
                        sym = i.u8()?;
                        if sym == last_sym + 1 {
                            rle = i.u8()?;
                        }
                    }
                    last_sym = sym;
                    if sym == 0 {
                        break;
                    }
                }
                let mut r = [0u64; 4];
                for x in r.iter_mut() {
                    *x = i.u32le()?;
                }
                let q = n / 4;
                let mut idx = [0, q, 2 * q, 3 * q];
                let mut last = [0usize; 4];
                let step = |j: usize, r: &mut [u64; 4], last: &mut [usize; 4], i: &mut In| -> Result<u8, String> {
                    let (f, c) = fs[last[j]].as_ref().ok_or_else(|| format!("context {} has no table", last[j]))?;
                    let s = sym_of(c, r[j] & 0xfff)?;
                    r[j] = advance(r[j], f[s], c[s], i)?;
                    last[j] = s;
                    Ok(s as u8)
                };
                while idx[0] < q {
                    for j in 0..4 {
                        out[idx[j]] = step(j, &mut r, &mut last, &mut i)?;
                        idx[j] += 1;
                    }
                }
                while idx[3] < n {
                    out[idx[3]] = step(3, &mut r, &mut last, &mut i)?;
                    idx[3] += 1;
                }
            }
            o => return Err(format!("order {o}")),
        }
        Ok(out)
    }
}

// ------------------------------------------------------------------------------------------------
// independent rANS Nx16 decoder, written from the CRAM codecs specification (CRAMcodecs, section 3:
// RansDecodeNx16, ReadAlphabet, ReadFrequencies, DecodePack, DecodeRLE, stripe), not from noodles.
// It is validated at start-up against the reference streams of the specification's test vectors
// (the ones noodles' own decoder tests use). Plain u64 arithmetic, bounds-checked reads.

mod spec_nx16 {
    use super::spec::In;

    fn uint7(i: &mut In) -> Result<u64, String> {
        let mut n = 0u64;
        for _ in 0..5 {
            let b = i.u8()?;
            n = (n << 7) | (b & 0x7f);
            if b & 0x80 == 0 {
                return Ok(n);
            }
        }
        Err("uint7 longer than 5 bytes".into())
    }

    fn take<'a>(i: &mut In<'a>, n: usize) -> Result<&'a [u8], String> {
        let e = i.p.checked_add(n).filter(|e| *e <= i.b.len()).ok_or("eof")?;
        let s = &i.b[i.p..e];
        i.p = e;
        Ok(s)
    }

    fn read_alphabet(i: &mut In) -> Result<[bool; 256], String> {
        let mut a = [false; 256];
        let mut sym = i.u8()?;
        let mut last = sym;
        let mut rle = 0u64;
        loop {
            if sym > 255 {
                return Err("alphabet run beyond 255".into());
            }
            a[sym as usize] = true;
            if rle > 0 {
                rle -= 1;
                sym += 1;
            } else {
                sym = i.u8()?;
                if sym == last + 1 {
                    rle = i.u8()?;
                }
            }
            last = sym;
            if sym == 0 {
                break;
            }
        }
        Ok(a)
    }

    /// scale a row up to `1 << bits` by a power of two (the encoder may store smaller tables)
    fn normalise(f: &mut [u64; 256], bits: u32) -> Result<(), String> {
        let tot: u64 = f.iter().sum();
        if tot == 0 || tot == 1 << bits {
            return Ok(());
        }
        if tot > 1 << bits {
            return Err(format!("frequencies sum to {tot} > {}", 1u64 << bits));
        }
        let mut shift = 0;
        while tot << shift < 1 << bits {
            shift += 1;
        }
        for x in f.iter_mut() {
            *x <<= shift;
        }
        Ok(())
    }

    fn cumulative(f: &[u64; 256]) -> [u64; 257] {
        let mut c = [0u64; 257];
        for s in 0..256 {
            c[s + 1] = c[s] + f[s];
        }
        c
    }

    fn sym_of(c: &[u64; 257], slot: u64) -> Result<usize, String> {
        (0..256).find(|&s| c[s] <= slot && slot < c[s + 1]).ok_or_else(|| format!("slot {slot} has no symbol"))
    }

    fn renorm(x: u64, i: &mut In) -> Result<u64, String> {
        if x < 1 << 15 {
            let lo = i.u8()?;
            let hi = i.u8()?;
            Ok((x << 16) + (hi << 8) + lo)
        } else {
            Ok(x)
        }
    }

    fn decode_o0(i: &mut In, n: usize, nstates: usize) -> Result<Vec<u8>, String> {
        let a = read_alphabet(i)?;
        let mut f = [0u64; 256];
        for s in 0..256 {
            if a[s] {
                f[s] = uint7(i)?;
            }
        }
        normalise(&mut f, 12)?;
        let c = cumulative(&f);
        let mut r = vec![0u64; nstates];
        for x in r.iter_mut() {
            *x = i.u32le()?;
        }
        let mut out = vec![0u8; n];
        for k in 0..n {
            let j = k % nstates;
            let slot = r[j] & 0xfff;
            let s = sym_of(&c, slot)?;
            out[k] = s as u8;
            r[j] = renorm(f[s] * (r[j] >> 12) + slot - c[s], i)?;
        }
        Ok(out)
    }

    fn read_freqs1(i: &mut In, bits: u32) -> Result<Vec<[u64; 256]>, String> {
        let a = read_alphabet(i)?;
        let mut f = vec![[0u64; 256]; 256];
        for ctx in 0..256 {
            if !a[ctx] {
                continue;
            }
            let mut run = 0u64;
            for s in 0..256 {
                if !a[s] {
                    continue;
                }
                if run > 0 {
                    run -= 1;
                } else {
                    f[ctx][s] = uint7(i)?;
                    if f[ctx][s] == 0 {
                        run = i.u8()?;
                    }
                }
            }
            normalise(&mut f[ctx], bits)?;
        }
        Ok(f)
    }

    fn decode_o1(i: &mut In, n: usize, nstates: usize) -> Result<Vec<u8>, String> {
        let comp = i.u8()?;
        let bits = (comp >> 4) as u32;
        if bits == 0 || bits > 12 {
            return Err(format!("order-1 table of {bits} bits"));
        }
        let f = if comp & 1 != 0 {
            let usize_ = uint7(i)? as usize;
            let csize = uint7(i)? as usize;
            if usize_ > 1 << 20 {
                return Err("order-1 table too large".into());
            }
            let cdata = take(i, csize)?;
            let table = decode_o0(&mut In { b: cdata, p: 0 }, usize_, 4)?;
            read_freqs1(&mut In { b: &table, p: 0 }, bits)?
        } else {
            read_freqs1(i, bits)?
        };
        let c: Vec<[u64; 257]> = f.iter().map(cumulative).collect();
        let mut r = vec![0u64; nstates];
        for x in r.iter_mut() {
            *x = i.u32le()?;
        }
        let q = n / nstates;
        let mut idx: Vec<usize> = (0..nstates).map(|j| j * q).collect();
        let mut last = vec![0usize; nstates];
        let mut out = vec![0u8; n];
        let mask = (1u64 << bits) - 1;
        let mut step = |j: usize, r: &mut Vec<u64>, last: &mut Vec<usize>, i: &mut In| -> Result<u8, String> {
            let l = last[j];
            let slot = r[j] & mask;
            let s = sym_of(&c[l], slot)?;
            r[j] = renorm(f[l][s] * (r[j] >> bits) + slot - c[l][s], i)?;
            last[j] = s;
            Ok(s as u8)
        };
        for _ in 0..q {
            for j in 0..nstates {
                out[idx[j]] = step(j, &mut r, &mut last, i)?;
                idx[j] += 1;
            }
        }
        let j = nstates - 1;
        while idx[j] < n {
            out[idx[j]] = step(j, &mut r, &mut last, i)?;
            idx[j] += 1;
        }
        Ok(out)
    }

    /// RansDecodeNx16: `outer_len` is the size the container gives (used when NOSZ is set)
    pub fn decode(b: &[u8], outer_len: usize) -> Result<Vec<u8>, String> {
        let mut i = In { b, p: 0 };
        let out = decode_stream(&mut i, outer_len)?;
        Ok(out)
    }

    fn decode_stream(i: &mut In, outer_len: usize) -> Result<Vec<u8>, String> {
        let flags = i.u8()?;
        let (order1, n32, stripe, nosz, cat, rle, pack) =
            (flags & 1 != 0, flags & 4 != 0, flags & 8 != 0, flags & 16 != 0, flags & 32 != 0, flags & 64 != 0, flags & 128 != 0);
        let ulen = if nosz { outer_len } else { uint7(i)? as usize };
        if ulen > 1 << 28 {
            return Err("absurd length".into());
        }
        let nstates = if n32 { 32 } else { 4 };
        if stripe {
            let x = i.u8()? as usize;
            if x == 0 {
                return Err("zero stripes".into());
            }
            let mut clens = vec![];
            for _ in 0..x {
                clens.push(uint7(i)? as usize);
            }
            let mut parts = vec![];
            for j in 0..x {
                let ulen_j = ulen / x + usize::from(ulen % x > j);
                let cdata = take(i, clens[j])?;
                parts.push(decode_stream(&mut In { b: cdata, p: 0 }, ulen_j)?);
                if parts[j].len() != ulen_j {
                    return Err("stripe length".into());
                }
            }
            let mut out = vec![0u8; ulen];
            for j in 0..x {
                for (k, v) in parts[j].iter().enumerate() {
                    out[k * x + j] = *v;
                }
            }
            return Ok(out);
        }
        let mut len = ulen;
        // bit-pack meta data
        let mut pack_map: Vec<u8> = vec![];
        if pack {
            let nsym = i.u8()? as usize;
            for _ in 0..nsym {
                pack_map.push(i.u8()? as u8);
            }
            len = uint7(i)? as usize;
        }
        // run-length meta data
        let mut rle_meta: Option<Vec<u8>> = None;
        let pre_rle_len = len;
        if rle {
            let meta_len = uint7(i)? as usize;
            len = uint7(i)? as usize;
            let meta = if meta_len & 1 != 0 {
                take(i, meta_len / 2)?.to_vec()
            } else {
                let clen = uint7(i)? as usize;
                let cdata = take(i, clen)?;
                decode_o0(&mut In { b: cdata, p: 0 }, meta_len / 2, nstates)?
            };
            rle_meta = Some(meta);
        }
        if len > 1 << 28 {
            return Err("absurd length".into());
        }
        let mut data = if cat {
            take(i, len)?.to_vec()
        } else if order1 {
            decode_o1(i, len, nstates)?
        } else {
            decode_o0(i, len, nstates)?
        };
        if let Some(meta) = rle_meta {
            let mut m = In { b: &meta, p: 0 };
            let mut nsym = m.u8()? as usize;
            if nsym == 0 {
                nsym = 256;
            }
            let mut is_run = [false; 256];
            for _ in 0..nsym {
                is_run[m.u8()? as usize] = true;
            }
            let mut out = Vec::with_capacity(pre_rle_len);
            for &s in &data {
                out.push(s);
                if is_run[s as usize] {
                    let run = uint7(&mut m)? as usize;
                    if out.len() + run > pre_rle_len {
                        return Err("run beyond the output".into());
                    }
                    out.extend(std::iter::repeat(s).take(run));
                }
            }
            if out.len() != pre_rle_len {
                return Err(format!("RLE expands to {} bytes, expected {pre_rle_len}", out.len()));
            }
            data = out;
        }
        if pack {
            let nsym = pack_map.len();
            let mut out = Vec::with_capacity(ulen);
            if nsym <= 1 {
                out.resize(ulen, pack_map.first().copied().unwrap_or(0));
            } else {
                let (per, bits) = if nsym <= 2 { (8, 1) } else if nsym <= 4 { (4, 2) } else if nsym <= 16 { (2, 4) } else { return Err(format!("pack with {nsym} symbols")) };
                'outer: for &b in &data {
                    let mut v = b;
                    for _ in 0..per {
                        if out.len() == ulen {
                            break 'outer;
                        }
                        let k = (v & ((1 << bits) - 1)) as usize;
                        out.push(*pack_map.get(k).ok_or("pack index beyond the map")?);
                        v >>= bits;
                    }
                }
                if out.len() != ulen {
                    return Err(format!("unpack gives {} bytes, expected {ulen}", out.len()));
                }
            }
            data = out;
        }
        if data.len() != ulen {
            return Err(format!("decoded {} bytes, expected {ulen}", data.len()));
        }
        Ok(data)
    }

    /// the reference streams (CRAM codecs specification test vectors, as used by noodles' tests)
    pub fn self_test() -> Result<(), String> {
        let vectors: [(&[u8], &[u8]); 6] = [
            (&[0x00, 0x07, 0x64, 0x65, 0x00, 0x6c, 0x6e, 0x6f, 0x00, 0x73, 0x00, 0x01, 0x01, 0x01, 0x01, 0x03, 0x01, 0x00, 0x26, 0x20, 0x00, 0x00, 0xb8, 0x0a, 0x00, 0x00, 0xd8, 0x0a, 0x00, 0x00, 0x00, 0x04, 0x00], b"noodles"),
            (&[0x01, 0x4d, 0xa0, 0x00, 0x64, 0x65, 0x00, 0x6c, 0x6e, 0x6f, 0x00, 0x73, 0x00, 0x00, 0x00, 0x01, 0x01, 0x00, 0x00, 0x01, 0x01, 0x00, 0x00, 0x00, 0x00, 0x0f, 0x00, 0x00, 0x01, 0x00, 0x02, 0x00, 0x01, 0x0f, 0x00, 0x02, 0x01, 0x00, 0x01, 0x01, 0x0f, 0x00, 0x02, 0x00, 0x03, 0x0f, 0x01, 0x00, 0x00, 0x00, 0x00, 0x01, 0x00, 0x02, 0x0f, 0x00, 0x00, 0x00, 0x05, 0x10, 0x80, 0x72, 0x60, 0x00, 0x80, 0x8b, 0x5f, 0x00, 0xc0, 0xb0, 0x60, 0x00, 0x40, 0x49, 0x39, 0x00], b"nnnnnnnnnnnnooooooooooooooooddddddddddddddllllllllllllllleeeeeeeeeessssssssss"),
            (&[0x08, 0x07, 0x04, 0x17, 0x17, 0x17, 0x15, 0x00, 0x02, 0x6c, 0x6e, 0x00, 0x01, 0x01, 0x00, 0x08, 0x01, 0x00, 0x00, 0x00, 0x01, 0x00, 0x00, 0x80, 0x00, 0x00, 0x00, 0x80, 0x00, 0x00, 0x00, 0x02, 0x65, 0x6f, 0x00, 0x01, 0x01, 0x00, 0x08, 0x01, 0x00, 0x00, 0x00, 0x01, 0x00, 0x00, 0x80, 0x00, 0x00, 0x00, 0x80, 0x00, 0x00, 0x00, 0x02, 0x6f, 0x73, 0x00, 0x01, 0x01, 0x00, 0x00, 0x01, 0x00, 0x00, 0x08, 0x01, 0x00, 0x00, 0x80, 0x00, 0x00, 0x00, 0x80, 0x00, 0x00, 0x00, 0x01, 0x64, 0x00, 0x01, 0x00, 0x80, 0x00, 0x00, 0x00, 0x80, 0x00, 0x00, 0x00, 0x80, 0x00, 0x00, 0x00, 0x80, 0x00, 0x00, 0x00, 0x02, 0x00, 0x00, 0x00, 0x00, 0x00, 0x00, 0x00, 0x22, 0x00, 0x81, 0x11, 0x01, 0x7f, 0x00], b"noodles"),
            (&[0x20, 0x07, 0x6e, 0x6f, 0x6f, 0x64, 0x6c, 0x65, 0x73], b"noodles"),
            (&[0x40, 0x0d, 0x06, 0x06, 0x17, 0x01, 0x07, 0x6f, 0x00, 0x02, 0x01, 0x01, 0x00, 0x00, 0x01, 0x00, 0x00, 0x0c, 0x02, 0x00, 0x00, 0x08, 0x02, 0x00, 0x00, 0x80, 0x00, 0x00, 0x64, 0x65, 0x00, 0x6c, 0x6e, 0x6f, 0x00, 0x73, 0x00, 0x03, 0x01, 0x01, 0x01, 0x01, 0x01, 0x00, 0x3a, 0x20, 0x00, 0x00, 0x7c, 0x20, 0x00, 0x00, 0x52, 0x01, 0x00, 0x00, 0x08, 0x04, 0x00], b"noooooooodles"),
            (&[0x80, 0x07, 0x06, 0x64, 0x65, 0x6c, 0x6e, 0x6f, 0x73, 0x04, 0x04, 0x05, 0x00, 0x12, 0x43, 0x00, 0x01, 0x01, 0x01, 0x01, 0x00, 0x0c, 0x02, 0x00, 0x00, 0x00, 0x02, 0x00, 0x00, 0x08, 0x02, 0x00, 0x00, 0x04, 0x02, 0x00], b"noodles"),
        ];
        for (k, (stream, plain)) in vectors.iter().enumerate() {
            match decode(stream, 0) {
                Ok(d) if d == *plain => {}
                other => return Err(format!("reference vector {k}: {:?}", other.map(|d| String::from_utf8_lossy(&d).into_owned()))),
            }
        }
        Ok(())
    }
}

// ------------------------------------------------------------------------------------------------
// oracle

/// Narrow, stable class names for the failure shapes that are already listed as findings. The
/// predicate looks at the INPUT only; a failure outside every predicate keeps the generic class
/// `<family>-<kind>` and is therefore never absorbed by a known finding.
fn classify(c: Codec, src: &[u8], lens: &[usize], kind: &str) -> String {
    let fam = c.family();
    if c == Codec::Fqz && kind == "encode-panic" {
        // known findings (DESIGN.md §5 F17): `lens[0]` on an empty record list; `p -= 1` on a
        // record of length 0
        if lens.is_empty() {
            return "fqzcomp-no-records".into();
        }
        if lens.contains(&0) {
            return "fqzcomp-zero-length-record".into();
        }
    }
    // root causes that can be read off the input (all repaired by the C08 fix: commits; the names
    // only matter while a fix is not applied). A failure that matches none keeps the generic
    // class `<family>-<kind>`.
    if src.is_empty() {
        return format!("{fam}-empty-input");
    }
    match c {
        Codec::R4(0) => {
            let mut h = [0u64; 256];
            for &b in src {
                h[b as usize] += 1;
            }
            if symbol_run_defect(&h.map(|x| x > 0)) {
                return format!("{fam}-symbol-run");
            }
            if normalize_excess_defect(&h) {
                return format!("{fam}-normalize-excess");
            }
        }
        Codec::Tok if kind == "decode-panic" => {
            if src.split(|&b| b == 0).any(|n| token_count(n) >= 127) {
                return "tok-too-many-tokens".into();
            }
        }
        _ => {}
    }
    format!("{fam}-{kind}")
}

/// F5 / F17: the alphabet run-length rule of the unfixed writers goes wrong when symbol 1 is
/// present without symbol 0 (`prev_sym` starts at 0) or when a run of >= 3 consecutive symbols
/// reaches 255 (`unwrap_or(0)`)
fn symbol_run_defect(present: &[bool; 256]) -> bool {
    (present[1] && !present[0]) || (present[253] && present[254] && present[255])
}

/// the unfixed `normalize_frequencies` (total 4095): the excess of the rounded-up sum reaches the
/// frequency of the most frequent symbol (underflow, or a symbol left at 0), or `f * 4095`
/// overflows `u32`
fn normalize_excess_defect(h: &[u64; 256]) -> bool {
    let sum: u64 = h.iter().sum();
    if sum == 0 {
        return false;
    }
    let (mut max, mut max_index) = (0, 0);
    for (i, &f) in h.iter().enumerate() {
        if f >= max {
            max = f;
            max_index = i;
        }
    }
    if max * 4095 > u32::MAX as u64 {
        return true;
    }
    let norm: Vec<u64> = h.iter().map(|&f| if f == 0 { 0 } else { (f * 4095 / sum).max(1) }).collect();
    let nsum: u64 = norm.iter().sum();
    nsum > 4095 && nsum - 4095 >= norm[max_index]
}

/// number of tokens of the name tokenizer: maximal runs of alphanumeric / other bytes
fn token_count(name: &[u8]) -> usize {
    let mut n = 0;
    let mut prev: Option<bool> = None;
    for &b in name {
        let k = b.is_ascii_alphanumeric();
        if prev != Some(k) {
            n += 1;
        }
        prev = Some(k);
    }
    n
}

fn case_str(c: Codec, src: &[u8], lens: &[usize]) -> String {
    let l = if lens.is_empty() { "-".to_string() } else { lens.iter().map(|x| x.to_string()).collect::<Vec<_>>().join(",") };
    format!("rt {} x{} {}", c.id(), hex(src), l)
}

/// greedy chunk-removal shrink of a failing byte input (same failure kind), bounded budget
fn shrink(c: Codec, src: &[u8], kind: &'static str) -> Vec<u8> {
    if matches!(c, Codec::Fqz) || src.len() > 100_000 {
        return src.to_vec();
    }
    if matches!(c, Codec::Tok) {
        return shrink_names(src, kind);
    }
    // the empty input is a case of its own: never shrink a non-empty failure into it
    let fails = |d: &[u8]| !d.is_empty() && matches!(roundtrip(c, d, &[]), Rt::Fail(k, _) if k == kind);
    let mut cur = src.to_vec();
    let mut budget = 400;
    let mut chunk = (cur.len() / 2).max(1);
    while chunk >= 1 && budget > 0 {
        let mut i = 0;
        let mut progressed = false;
        while i < cur.len() && budget > 0 {
            let end = (i + chunk).min(cur.len());
            let mut cand = cur[..i].to_vec();
            cand.extend_from_slice(&cur[end..]);
            budget -= 1;
            if fails(&cand) {
                cur = cand;
                progressed = true;
            } else {
                i += chunk;
            }
        }
        if chunk == 1 && !progressed {
            break;
        }
        if !progressed || chunk > 1 {
            chunk = if chunk == 1 { 1 } else { chunk / 2 };
        }
    }
    cur
}

/// name-list shrink: drop names, then drop bytes inside names (never producing the empty list)
fn shrink_names(src: &[u8], kind: &'static str) -> Vec<u8> {
    let mut names: Vec<Vec<u8>> = src.split(|&b| b == 0).map(|n| n.to_vec()).collect();
    if src.last() == Some(&0) {
        names.pop();
    }
    let fails = |ns: &[Vec<u8>]| !ns.is_empty() && matches!(roundtrip(Codec::Tok, &join_names(ns), &[]), Rt::Fail(k, _) if k == kind);
    if !fails(&names) {
        return src.to_vec();
    }
    let mut budget = 600;
    let mut chunk = (names.len() / 2).max(1);
    loop {
        let mut i = 0;
        let mut progressed = false;
        while i < names.len() && budget > 0 {
            let end = (i + chunk).min(names.len());
            let mut cand = names[..i].to_vec();
            cand.extend_from_slice(&names[end..]);
            budget -= 1;
            if fails(&cand) {
                names = cand;
                progressed = true;
            } else {
                i += chunk;
            }
        }
        if budget == 0 || (chunk == 1 && !progressed) {
            break;
        }
        if chunk > 1 {
            chunk /= 2;
        }
    }
    // bytes inside names
    let mut k = 0;
    while k < names.len() && budget > 0 {
        let mut j = 0;
        while j < names[k].len() && budget > 0 {
            let mut cand = names.clone();
            cand[k].remove(j);
            budget -= 1;
            if fails(&cand) {
                names = cand;
            } else {
                j += 1;
            }
        }
        k += 1;
    }
    join_names(&names)
}

fn show(d: &[u8]) -> String {
    if d.len() <= 48 { format!("{d:?}") } else { format!("{:?}… ({} bytes)", &d[..48], d.len()) }
}

/// one oracle evaluation of a block codec
pub fn oracle_case(ctx: &mut Ctx, c: Codec, src: &[u8], lens: &[usize], shape: &str, minimise: bool) {
    let key = fnv(case_str(c, src, lens).as_bytes());
    progress(&c.family(), &case_str(c, src, lens));
    ctx.eval(if src.len() >= 2 { Some(key) } else { None });
    ctx.bump(&format!("codec:{}", c.family()));
    ctx.bump(&format!("shape:{shape}"));
    match roundtrip(c, src, lens) {
        Rt::Ok(enc) => {
            ctx.bump("outcome:roundtrip-ok");
            if let Codec::Nx(_) = c {
                // … and the Nx16 streams under the independent Nx16 specification decoder
                ctx.eval(if src.len() >= 2 { Some(key ^ 0x16) } else { None });
                match guarded(|| spec_nx16::decode(&enc, src.len())) {
                    Ok(Ok(d)) if d == src => ctx.bump("outcome:spec-nx16-decoder-ok"),
                    Ok(Ok(_)) => ctx.fail(&classify(c, src, lens, "spec-wrong-data"), format!("{} of {}: the specification decoder returns different bytes for noodles' stream", c.id(), show(src)), case_str(c, src, lens)),
                    Ok(Err(e)) => ctx.fail(&classify(c, src, lens, "spec-decode-error"), format!("{} of {}: the specification decoder rejects noodles' stream: {e}", c.id(), show(src)), case_str(c, src, lens)),
                    Err(p) => ctx.fail(&classify(c, src, lens, "spec-decode-error"), format!("{} of {}: the specification decoder trapped on noodles' stream: {p}", c.id(), show(src)), case_str(c, src, lens)),
                }
            }
            if let Codec::R4(_) = c {
                // the stream noodles emits must also decode under the independent specification decoder
                ctx.eval(if src.len() >= 2 { Some(key ^ 0x5bec) } else { None });
                match guarded(|| spec::decode(&enc)) {
                    Ok(Ok(d)) if d == src => ctx.bump("outcome:spec-decoder-ok"),
                    Ok(Ok(_)) => ctx.fail(&classify(c, src, lens, "spec-wrong-data"), format!("{} of {}: the specification decoder returns different bytes for noodles' stream", c.id(), show(src)), case_str(c, src, lens)),
                    Ok(Err(e)) => ctx.fail(&classify(c, src, lens, "spec-decode-error"), format!("{} of {}: the specification decoder rejects noodles' stream: {e}", c.id(), show(src)), case_str(c, src, lens)),
                    Err(p) => ctx.fail(&classify(c, src, lens, "spec-decode-error"), format!("{} of {}: the specification decoder trapped on noodles' stream: {p}", c.id(), show(src)), case_str(c, src, lens)),
                }
            }
        }
        Rt::Refused(cls) => {
            ctx.bump(&format!("outcome:encoder-refused:{}:{cls}", c.family()));
        }
        Rt::Fail(kind, text) => {
            let small = if minimise { shrink(c, src, kind) } else { src.to_vec() };
            let cls = classify(c, &small, lens, kind);
            ctx.fail(&cls, format!("{} shape={shape} len={}: {text}; minimised input {}", c.id(), src.len(), show(&small)), case_str(c, &small, lens));
        }
    }
}


// ------------------------------------------------------------------------------------------------
// worker processes. On the unchanged tree some encoders do not terminate (they grow a buffer until
// memory is exhausted), which cannot be caught in-process. Every case therefore runs in a child
// process with an address-space cap and a deadline; the child records the case it is about to run
// in `<dir>/progress`, so a child that dies names its own failing input.

static PROGRESS: std::sync::Mutex<Option<(String, String, u64)>> = std::sync::Mutex::new(None);

fn progress(family: &str, case: &str) {
    if let Some((path, phase, idx)) = PROGRESS.lock().unwrap().as_ref() {
        // long inputs are named by their generator index instead of their bytes
        let case = if case.len() > 8192 { format!("idx {phase} {idx}") } else { case.to_string() };
        let _ = std::fs::write(path, format!("{idx}\t{family}\t{case}\n"));
    }
}
fn set_progress_idx(idx: u64) {
    if let Some(p) = PROGRESS.lock().unwrap().as_mut() {
        p.2 = idx;
    }
}

const MEM_CAP_KB: u64 = 3_000_000;

struct ChildOut {
    ok: bool,
    timed_out: bool,
    /// (idx, family, case) of the last case started
    last: Option<(u64, String, String)>,
}

fn run_child(ctx: &Ctx, dir: &str, words: &[String], deadline_s: u64) -> ChildOut {
    let _ = std::fs::remove_dir_all(dir);
    let _ = std::fs::create_dir_all(dir);
    let exe = std::env::current_exe().expect("current_exe");
    let mut cmd = std::process::Command::new("sh");
    cmd.arg("-c").arg(format!("ulimit -v {MEM_CAP_KB}; exec \"$0\" \"$@\"")).arg(&exe);
    cmd.args(["replay", "C08", "--seed", &ctx.seed.to_string(), "--tier", if ctx.tier_thorough { "thorough" } else { "quick" }, "--dir", dir]);
    cmd.args(words);
    cmd.stdout(std::process::Stdio::null()).stderr(std::process::Stdio::null());
    let mut child = cmd.spawn().expect("spawn worker");
    let t0 = std::time::Instant::now();
    let mut timed_out = false;
    let status = loop {
        match child.try_wait() {
            Ok(Some(st)) => break Some(st),
            Ok(None) => {
                // the deadline is CPU time of the worker (a starved worker on a loaded machine is
                // slow, not hung); wall time only as a much later backstop for a blocked worker
                let cpu = proc_cpu_secs(child.id()).unwrap_or(f64::INFINITY);
                if (cpu >= deadline_s as f64 && t0.elapsed().as_secs() >= deadline_s) || t0.elapsed().as_secs() >= 4 * deadline_s {
                    let _ = child.kill();
                    let _ = child.wait();
                    timed_out = true;
                    break None;
                }
                std::thread::sleep(std::time::Duration::from_millis(5));
            }
            Err(_) => break None,
        }
    };
    let ok = status.map(|s| s.success()).unwrap_or(false) && std::path::Path::new(&format!("{dir}/stats.tsv")).exists();
    let last = std::fs::read_to_string(format!("{dir}/progress")).ok().and_then(|s| {
        let mut it = s.trim_end().splitn(3, '\t');
        Some((it.next()?.parse().ok()?, it.next()?.to_string(), it.next()?.to_string()))
    });
    ChildOut { ok, timed_out, last }
}

fn merge(ctx: &mut Ctx, dir: &str) {
    let read = |f: &str| std::fs::read_to_string(format!("{dir}/{f}")).unwrap_or_default();
    let (rq, an) = (read("requests.txt"), read("impl.txt"));
    for (r, a) in rq.lines().zip(an.lines()) {
        ctx.corr(r.to_string(), a.to_string());
    }
    for l in read("oracle.tsv").lines() {
        let mut it = l.splitn(3, '\t');
        let (c, t, k) = (it.next().unwrap_or(""), it.next().unwrap_or(""), it.next().unwrap_or(""));
        push_failure(ctx, c, t, k);
    }
    for x in read("keys.txt").split(',').filter_map(|x| u64::from_str_radix(x.trim(), 16).ok()) {
        if ctx.nontrivial.len() < 2_000_000 {
            ctx.nontrivial.insert(x);
        }
    }
    for l in read("stats.tsv").lines() {
        let Some((k, v)) = l.split_once('\t') else { continue };
        if let Some(h) = k.strip_prefix("hist:") {
            ctx.bump_by(h, v.parse().unwrap_or(0));
        } else if k == "oracle_evals" {
            ctx.oracle_evals += v.parse::<u64>().unwrap_or(0);
        } else if k == "sample" {
            let v = v.to_string();
            ctx.sample(|| v);
        }
    }
}

/// like Ctx::fail but without touching the histogram (the worker already counted)
fn push_failure(ctx: &mut Ctx, class: &str, text: &str, case: &str) {
    let same = ctx.failures.iter().filter(|f| f.0 == class).count();
    if same < 8 && ctx.failures.len() < 200 {
        ctx.failures.push((class.into(), text.into(), case.into()));
    }
}

fn died_text(o: &ChildOut) -> (&'static str, String) {
    if o.timed_out {
        ("hang", "the call did not return within the deadline (worker killed)".into())
    } else {
        ("abort", format!("the call aborted the process (address-space cap {} MB: a buffer grows without bound, or an allocation of absurd size)", MEM_CAP_KB / 1000))
    }
}

// ------------------------------------------------------------------------------------------------
// phases: every case is (phase, index), deterministic in (seed, tier)

const PHASES: [&str; 6] = ["ints", "corr", "bset", "gen", "fqz", "tok"];
const NX_FLAGS: [u8; 7] = [0x01, 0x04, 0x08, 0x10, 0x20, 0x40, 0x80];
const AAC_FLAGS: [u8; 7] = [0x01, 0x04, 0x08, 0x10, 0x20, 0x40, 0x80];

fn subset(bits: &[u8; 7], k: u64) -> u8 {
    (0..7).filter(|i| k >> i & 1 == 1).map(|i| bits[i]).fold(0, |a, b| a | b)
}

fn boundary_inputs() -> Vec<(Vec<u8>, &'static str)> {
    let mut v: Vec<(Vec<u8>, &'static str)> = vec![
        (vec![], "empty"),
        (vec![0], "len1to3"),
        (vec![7], "len1to3"),
        (vec![255], "len1to3"),
        (vec![0, 1], "len1to3"),
        (vec![1, 2, 3], "len1to3"),
        (vec![0, 1, 2], "len1to3"),
        (vec![253, 254, 255], "run-to-255"),
        (vec![252, 253, 254, 255], "run-to-255"),
        (vec![1, 1, 2, 2, 3, 3, 1, 2], "alphabet-gaps"),
        (vec![b'a'; 400], "single-symbol"),
        (vec![0; 4], "single-symbol"),
        (vec![255; 33], "single-symbol"),
        ((0..=255u8).collect(), "all-256"),
        ((0..=255u8).rev().collect(), "all-256"),
        ((0..1024).map(|i| (i % 256) as u8).collect(), "all-256"),
        (b"noodles".to_vec(), "text-like"),
    ];
    for n in [3usize, 4, 5, 31, 32, 33, 127, 128, 129] {
        v.push(((0..n).map(|i| b"ACGTN"[i * 7 % 5]).collect(), "len-4-32-edge"));
    }
    // 2000-byte quality-like
    let mut rng = Rng::new(2000);
    let mut q = 30u64;
    v.push((
        (0..2000)
            .map(|_| {
                if rng.chance(1, 3) {
                    q = 2 + rng.below(39);
                }
                (33 + q) as u8
            })
            .collect(),
        "quality-like",
    ));
    v
}

/// codec configurations every boundary input is run under
fn bset_codecs() -> Vec<Codec> {
    let mut v = vec![Codec::R4(0), Codec::R4(1)];
    for k in 0..128 {
        v.push(Codec::Nx(subset(&NX_FLAGS, k)));
    }
    for k in 0..128 {
        v.push(Codec::Aac(subset(&AAC_FLAGS, k)));
    }
    v.extend([Codec::Gz(6), Codec::Gz(0), Codec::Bz(9), Codec::Xz(6)]);
    v
}

fn gen_codec(it: u64, rng: &mut Rng) -> Codec {
    match it % 12 {
        0 | 1 => Codec::R4(0),
        2 => Codec::R4(1),
        3 | 4 | 5 => Codec::Nx(subset(&NX_FLAGS, rng.below(128))),
        6 | 7 | 8 => Codec::Aac(subset(&AAC_FLAGS, rng.below(128))),
        9 => Codec::Gz(rng.below(10) as u32),
        10 => Codec::Bz(1 + rng.below(9) as u32),
        _ => Codec::Xz(rng.below(10) as u32),
    }
}

fn phase_len(ctx: &Ctx, phase: &str) -> u64 {
    match phase {
        "ints" => ctx.n(4, 4 + 64),
        "corr" => corr_corpus().len() as u64 + ctx.n(600, 6000),
        "bset" => (boundary_inputs().len() * bset_codecs().len()) as u64,
        "gen" => ctx.n(3000, 80_000),
        "fqz" => ctx.n(500, 10_000),
        "tok" => ctx.n(500, 10_000),
        _ => 0,
    }
}

fn run_index(ctx: &mut Ctx, phase: &str, idx: u64) {
    match phase {
        "ints" => ints_chunk(ctx, idx),
        "corr" => corr_case(ctx, idx),
        "bset" => {
            let inputs = boundary_inputs();
            let codecs = bset_codecs();
            let (i, j) = (idx as usize / codecs.len(), idx as usize % codecs.len());
            oracle_case(ctx, codecs[j], &inputs[i].0, &[], inputs[i].1, true);
        }
        "gen" => {
            let sub = ctx.seed.wrapping_mul(1_000_003).wrapping_add(idx);
            let mut rng = Rng::new(sub ^ 0x0c0dec);
            let c = gen_codec(idx, &mut rng);
            let cap = if ctx.tier_thorough { 200_000 } else { 70_000 };
            // bzip2 / xz are slow on long inputs
            let cap = match c {
                Codec::Bz(_) | Codec::Xz(_) => cap.min(5000),
                _ => cap,
            };
            let (src, shape) = gen_input(sub, cap);
            oracle_case(ctx, c, &src, &[], shape, true);
        }
        "fqz" => {
            let (lens, src, shape) = gen_fqz(ctx.seed.wrapping_mul(2_000_003).wrapping_add(idx));
            oracle_case(ctx, Codec::Fqz, &src, &lens, &format!("fqz-{shape}"), false);
        }
        "tok" => {
            let (names, shape) = gen_names(ctx.seed.wrapping_mul(3_000_017).wrapping_add(idx));
            oracle_case(ctx, Codec::Tok, &join_names(&names), &[], &format!("tok-{shape}"), true);
        }
        _ => {}
    }
}

// ------------------------------------------------------------------------------------------------
// integer codings: correspondence (writer bytes, reader value + rest) and oracle (round trip)

fn i_hex_rest(v: String, rest: &[u8]) -> String {
    format!("{v} {}", hex(rest))
}

fn itf8_w(n: i32) -> String {
    let mut b = vec![];
    match guarded(|| v::write_itf8(&mut b, n)) {
        Ok(Ok(())) => hex(&b),
        Ok(Err(e)) => errclass(&e).into(),
        Err(_) => "panic".into(),
    }
}
fn itf8_r(b: &[u8]) -> String {
    let mut s = b;
    match guarded(|| v::read_itf8(&mut s)) {
        Ok(Ok(n)) => i_hex_rest(n.to_string(), s),
        Ok(Err(e)) => errclass(&e).into(),
        Err(_) => "panic".into(),
    }
}
fn ltf8_w(n: i64) -> String {
    let mut b = vec![];
    match guarded(|| v::write_ltf8(&mut b, n)) {
        Ok(Ok(())) => hex(&b),
        Ok(Err(e)) => errclass(&e).into(),
        Err(_) => "panic".into(),
    }
}
fn ltf8_r(b: &[u8]) -> String {
    let mut s = b;
    match guarded(|| v::read_ltf8(&mut s)) {
        Ok(Ok(n)) => i_hex_rest(n.to_string(), s),
        Ok(Err(e)) => errclass(&e).into(),
        Err(_) => "panic".into(),
    }
}
fn u7_w(n: u32) -> String {
    let mut b = vec![];
    match guarded(|| v::write_uint7(&mut b, n)) {
        Ok(Ok(())) => hex(&b),
        Ok(Err(e)) => errclass(&e).into(),
        Err(_) => "panic".into(),
    }
}
fn u7_r(b: &[u8]) -> String {
    let mut s = b;
    match guarded(|| v::read_uint7(&mut s)) {
        Ok(Ok(n)) => i_hex_rest(n.to_string(), s),
        Ok(Err(e)) => errclass(&e).into(),
        Err(_) => "panic".into(),
    }
}

/// boundary-dense signed values of `bits` width
fn boundary_ints(bits: u32) -> Vec<i128> {
    let mut v: Vec<i128> = vec![];
    let lo = -(1i128 << (bits - 1));
    let hi = (1i128 << (bits - 1)) - 1;
    for k in 0..bits {
        for d in -2i128..=2 {
            for sgn in [1i128, -1] {
                let x = sgn * (1i128 << k) + d;
                if x >= lo && x <= hi {
                    v.push(x);
                }
            }
        }
    }
    for d in 0..3 {
        v.push(lo + d);
        v.push(hi - d);
    }
    v.sort();
    v.dedup();
    v
}

fn itf8_oracle_one(ctx: &mut Ctx, n: i32) {
    let mut b = vec![];
    let ok = matches!(guarded(|| v::write_itf8(&mut b, n)), Ok(Ok(())));
    let mut s = &b[..];
    let r = guarded(|| v::read_itf8(&mut s));
    if !ok || !matches!(r, Ok(Ok(m)) if m == n) || !s.is_empty() || b.len() > 5 {
        ctx.fail("itf8-roundtrip", format!("ITF8 {n}: wrote {} read back {:?} rest {}", hex(&b), r.map(|x| x.map_err(|e| e.to_string())), s.len()), format!("int itf8 {n}"));
    }
}
fn ltf8_oracle_one(ctx: &mut Ctx, n: i64) {
    let mut b = vec![];
    let ok = matches!(guarded(|| v::write_ltf8(&mut b, n)), Ok(Ok(())));
    let mut s = &b[..];
    let r = guarded(|| v::read_ltf8(&mut s));
    if !ok || !matches!(r, Ok(Ok(m)) if m == n) || !s.is_empty() || b.len() > 9 {
        ctx.fail("ltf8-roundtrip", format!("LTF8 {n}: wrote {} read back {:?} rest {}", hex(&b), r.map(|x| x.map_err(|e| e.to_string())), s.len()), format!("int ltf8 {n}"));
    }
}
fn u7_oracle_one(ctx: &mut Ctx, n: u32) {
    let mut b = vec![];
    let ok = matches!(guarded(|| v::write_uint7(&mut b, n)), Ok(Ok(())));
    let mut s = &b[..];
    let r = guarded(|| v::read_uint7(&mut s));
    if !ok || !matches!(r, Ok(Ok(m)) if m == n) || !s.is_empty() || b.len() > 5 {
        ctx.fail("uint7-roundtrip", format!("uint7 {n}: wrote {} read back {:?} rest {}", hex(&b), r.map(|x| x.map_err(|e| e.to_string())), s.len()), format!("int u7 {n}"));
    }
}

fn rand_bits(rng: &mut Rng, maxbits: u64) -> u64 {
    let b = rng.below(maxbits + 1);
    if b == 0 { 0 } else { rng.next() >> (64 - b) }
}

fn ints_chunk(ctx: &mut Ctx, idx: u64) {
    set_progress_idx(idx);
    progress("ints", &format!("ints {idx}"));
    let mut rng = Rng::new(ctx.seed.wrapping_mul(31).wrapping_add(idx) ^ 0x1757);
    match idx {
        0 => {
            // ITF8: boundary set, correspondence + oracle
            for x in boundary_ints(32) {
                let n = x as i32;
                ctx.corr(format!("c08 itf8w {n}"), itf8_w(n));
                itf8_oracle_one(ctx, n);
                ctx.eval(Some(fnv(format!("itf8 {n}").as_bytes())));
                let len = { let mut b = vec![]; let _ = v::write_itf8(&mut b, n); b.len() };
                ctx.bump(&format!("itf8_len{len}_{}", if n < 0 { "neg" } else { "nonneg" }));
            }
            // reader on hand-written byte strings: every length class, padding nibble of the 5-byte
            // form, trailing bytes, truncation
            let corpus: [&[u8]; 16] = [
                &[0x00], &[0x7f], &[0x80, 0x80], &[0xbf, 0xff], &[0xc0, 0x40, 0x00], &[0xdf, 0xff, 0xff],
                &[0xe0, 0x20, 0x00, 0x00], &[0xef, 0xff, 0xff, 0xff], &[0xf0, 0x10, 0x00, 0x00, 0x00],
                &[0xff, 0xff, 0xff, 0xff, 0x0f], &[0xff, 0xff, 0xff, 0xff, 0xff], &[0xf7, 0x55, 0x99, 0x66, 0x82],
                &[0xf8, 0x00, 0x00, 0x00, 0x00], &[0x87, 0x55, 0xaa, 0xbb], &[], &[0xf0, 0x01],
            ];
            for b in corpus {
                ctx.corr(format!("c08 itf8r {}", hex(b)), itf8_r(b));
            }
        }
        1 => {
            for x in boundary_ints(64) {
                let n = x as i64;
                ctx.corr(format!("c08 ltf8w {n}"), ltf8_w(n));
                ltf8_oracle_one(ctx, n);
                ctx.eval(Some(fnv(format!("ltf8 {n}").as_bytes())));
                let len = { let mut b = vec![]; let _ = v::write_ltf8(&mut b, n); b.len() };
                ctx.bump(&format!("ltf8_len{len}_{}", if n < 0 { "neg" } else { "nonneg" }));
            }
            let corpus: [&[u8]; 12] = [
                &[0x00], &[0x80, 0x80], &[0xc0, 0x40, 0x00], &[0xe0, 0x20, 0, 0], &[0xf0, 0x10, 0, 0, 0], &[0xf8, 0x08, 0, 0, 0, 0],
                &[0xfc, 0x04, 0, 0, 0, 0, 0], &[0xfe, 0x02, 0, 0, 0, 0, 0, 0], &[0xff, 0x01, 0, 0, 0, 0, 0, 0, 0],
                &[0xff, 0xff, 0xff, 0xff, 0xff, 0xff, 0xff, 0xff, 0xff, 0x01], &[0xff, 0x80], &[],
            ];
            for b in corpus {
                ctx.corr(format!("c08 ltf8r {}", hex(b)), ltf8_r(b));
            }
        }
        2 => {
            let mut vals: Vec<u32> = boundary_ints(33).into_iter().filter(|x| *x >= 0 && *x <= u32::MAX as i128).map(|x| x as u32).collect();
            vals.dedup();
            for n in vals {
                ctx.corr(format!("c08 u7w {n}"), u7_w(n));
                u7_oracle_one(ctx, n);
                ctx.eval(Some(fnv(format!("u7 {n}").as_bytes())));
                let len = { let mut b = vec![]; let _ = v::write_uint7(&mut b, n); b.len() };
                ctx.bump(&format!("uint7_len{len}"));
            }
            let corpus: [&[u8]; 10] = [
                &[0x00], &[0x7f], &[0x81, 0x00], &[0x80, 0x01], &[0xff, 0xff, 0xff, 0xff, 0x7f], &[0x8f, 0xff, 0xff, 0xff, 0x7f],
                &[0x81, 0x80, 0x80, 0x80, 0x80, 0x00], &[0x81], &[], &[0x05, 0xaa],
            ];
            for b in corpus {
                ctx.corr(format!("c08 u7r {}", hex(b)), u7_r(b));
            }
        }
        3 => {
            // random values, uniformly over bit lengths; readers on random byte strings
            for _ in 0..ctx.n(1500, 20_000) {
                let n = rand_bits(&mut rng, 32) as u32 as i32;
                ctx.corr(format!("c08 itf8w {n}"), itf8_w(n));
                itf8_oracle_one(ctx, n);
                let m = rand_bits(&mut rng, 64) as i64;
                ctx.corr(format!("c08 ltf8w {m}"), ltf8_w(m));
                ltf8_oracle_one(ctx, m);
                let u = rand_bits(&mut rng, 32) as u32;
                ctx.corr(format!("c08 u7w {u}"), u7_w(u));
                u7_oracle_one(ctx, u);
                ctx.eval(Some(fnv(format!("rnd {n} {m} {u}").as_bytes())));
                ctx.eval(None);
                ctx.eval(None);
            }
            for _ in 0..ctx.n(600, 6000) {
                let len = rng.below(11) as usize;
                let mut b = rng.bytes(len);
                if !b.is_empty() && rng.chance(1, 2) {
                    // bias the first byte to the long forms
                    b[0] = *rng.pick(&[0x7fu8, 0x80, 0xbf, 0xc0, 0xdf, 0xe0, 0xef, 0xf0, 0xf7, 0xf8, 0xfb, 0xfc, 0xfd, 0xfe, 0xff]);
                }
                ctx.corr(format!("c08 itf8r {}", hex(&b)), itf8_r(&b));
                ctx.corr(format!("c08 ltf8r {}", hex(&b)), ltf8_r(&b));
                ctx.corr(format!("c08 u7r {}", hex(&b)), u7_r(&b));
            }
        }
        k => {
            // thorough tier: every i32 through the real ITF8 writer and reader, in 64 slices; nothing is stored
            let slice = k - 4;
            let lo = (slice << 26) as u32;
            let mut bad = 0u64;
            let mut buf = Vec::with_capacity(8);
            for off in 0..(1u32 << 26) {
                let n = (lo | off) as i32;
                buf.clear();
                let _ = v::write_itf8(&mut buf, n);
                let mut s = &buf[..];
                let ok = matches!(v::read_itf8(&mut s), Ok(m) if m == n) && s.is_empty();
                if !ok {
                    bad += 1;
                    if bad <= 3 {
                        itf8_oracle_one(ctx, n);
                    }
                }
            }
            ctx.oracle_evals += 1 << 26;
            ctx.bump_by("itf8_exhaustive_values", 1 << 26);
        }
    }
}

// ------------------------------------------------------------------------------------------------
// rANS 4x8 order-0 correspondence

fn fmt_bytes(b: &[u8]) -> String {
    if b.len() <= 64 { hex(b) } else { format!("{}:{}", b.len(), crc32(b)) }
}

fn bad_str(b: &Bad) -> String {
    match b {
        Bad::Err(c, _) => c.clone(),
        Bad::Panic(_) => "panic".into(),
    }
}

/// hand-written corpus, always first: one request per case of the model
fn corr_corpus() -> Vec<Vec<u8>> {
    let mut v: Vec<Vec<u8>> = vec![
        vec![],
        vec![0],
        vec![1],
        vec![255],
        vec![0, 1],
        vec![1, 2, 3],
        vec![0, 1, 2],
        vec![0, 2],
        vec![0, 1, 3],
        vec![253, 254, 255],
        vec![252, 253, 254, 255],
        vec![254, 255],
        vec![1, 1, 2, 2, 3, 3, 1, 2],
        vec![5; 4],
        vec![5; 5],
        vec![9; 4095],
        vec![9; 4096],
        vec![9; 5000],
        (0..=255u8).collect(),
        (0..=255u8).rev().collect(),
        (0..1024).map(|i| (i % 256) as u8).collect(),
        b"noodles".to_vec(),
        b"ACGTACGTNNACGT".to_vec(),
    ];
    // frequent + rare symbols: the normalisation's "sum above 4095" branch, including the shapes
    // where the excess reaches the largest frequency
    for (frequent, rare, m) in [(56usize, 200usize, 1000usize), (76, 180, 200), (16, 240, 300), (2, 30, 3000), (100, 156, 50), (60, 196, 80)] {
        let mut d = vec![];
        for s in 0..frequent {
            for _ in 0..m {
                d.push(s as u8);
            }
        }
        for s in 0..rare {
            d.push((frequent + s) as u8);
        }
        v.push(d);
    }
    v
}

fn corr_case(ctx: &mut Ctx, idx: u64) {
    set_progress_idx(idx);
    let corpus = corr_corpus();
    let (src, shape): (Vec<u8>, &str) = if (idx as usize) < corpus.len() {
        (corpus[idx as usize].clone(), "corpus")
    } else {
        let sub = ctx.seed.wrapping_mul(5_000_011).wrapping_add(idx);
        gen_input(sub, 20_000)
    };
    ctx.bump(&format!("corr_shape:{shape}"));
    let mut rng = Rng::new(fnv(&src) ^ idx);
    progress("rans4x8-o0", &case_str(Codec::R4(0), &src, &[]));
    let enc = encode(Codec::R4(0), &src, &[]);
    ctx.corr(format!("c08 r4enc0 {}", hex(&src)), match &enc { Ok(e) => fmt_bytes(e), Err(b) => bad_str(b) });
    let Ok(enc) = enc else {
        nx_corr(ctx, idx, &src, &mut rng);
        return;
    };
    // the specification decoder (model) and the real decoder on the real stream
    let dec = |b: &[u8]| match decode(Codec::R4(0), b, 0) {
        Ok(d) => fmt_bytes(&d),
        Err(b) => bad_str(&b),
    };
    ctx.corr(format!("c08 r4dec {}", hex(&enc)), dec(&enc));
    nx_corr(ctx, idx, &src, &mut rng);
    if enc.len() <= 3000 {
        // truncation: header, table, states, payload
        let cut = match rng.below(4) {
            0 => rng.below(9.min(enc.len() as u64)) as usize,
            1 => enc.len() - 1,
            2 => enc.len().saturating_sub(1 + rng.below(20) as usize),
            _ => rng.below(enc.len() as u64) as usize,
        };
        ctx.corr(format!("c08 r4dec {}", hex(&enc[..cut])), dec(&enc[..cut]));
        ctx.bump("corr_truncated_stream");
        // a corrupted state / payload byte (the table is left intact: the real reader traps on
        // hostile tables, which is C15's subject)
        let table_end = spec_table_end(&enc);
        if let Some(te) = table_end {
            if te < enc.len() {
                let mut m = enc.clone();
                let p = te + rng.below((enc.len() - te) as u64) as usize;
                m[p] ^= 1 << rng.below(8);
                ctx.corr(format!("c08 r4dec {}", hex(&m)), dec(&m));
                ctx.bump("corr_corrupted_payload");
            }
        }
    }
}

/// rANS Nx16 without the ORDER bit: real encoder = model encoder byte for byte, real decoder =
/// specification decoder (model) on the real stream, under flag subsets of
/// {N32, STRIPE, NO_SIZE, CAT, RLE, PACK}
fn nx_corr(ctx: &mut Ctx, idx: u64, src: &[u8], rng: &mut Rng) {
    const BITS: [u8; 6] = [0x04, 0x08, 0x10, 0x20, 0x40, 0x80];
    if src.len() > 4100 {
        // the model's table scans are quadratic-ish in Lean lists: long inputs are left to r4enc0
        return;
    }
    let all = (idx as usize) < corr_corpus().len() && src.len() <= 1100;
    let picks: Vec<u64> = if all { (0..64).collect() } else { (0..4).map(|_| rng.below(64)).collect() };
    for k in picks {
        let fl = (0..6).filter(|i| k >> i & 1 == 1).map(|i| BITS[i]).fold(0u8, |a, b| a | b);
        let c = Codec::Nx(fl);
        progress("nx16", &case_str(c, src, &[]));
        let enc = encode(c, src, &[]);
        ctx.corr(format!("c08 nxenc {fl:02x} {}", hex(src)), match &enc { Ok(e) => fmt_bytes(e), Err(b) => bad_str(b) });
        ctx.bump("corr_nx16_flag_subsets");
        if let Ok(enc) = enc {
            let d = match decode(c, &enc, src.len()) {
                Ok(d) => fmt_bytes(&d),
                Err(b) => bad_str(&b),
            };
            ctx.corr(format!("c08 nxdec {} {}", src.len(), hex(&enc)), d);
        }
    }
}

/// offset just after the order-0 frequency table of a stream (None if it does not parse)
fn spec_table_end(enc: &[u8]) -> Option<usize> {
    if enc.len() < 9 || enc[0] != 0 {
        return None;
    }
    let mut i = spec::In { b: enc, p: 9 };
    spec::read_freqs0(&mut i).ok()?;
    Some(i.p)
}

// ------------------------------------------------------------------------------------------------
// entry point

const BATCH: u64 = 400;

pub fn run(ctx: &mut Ctx) {
    if let Some(case) = ctx.replay_only.clone() {
        match case.first().map(|s| s.as_str()) {
            // worker: `batch <dir> <phase> <from> <to>`
            Some("batch") if case.len() >= 5 => {
                *PROGRESS.lock().unwrap() = Some((format!("{}/progress", case[1]), case[2].clone(), 0));
                let (from, to): (u64, u64) = (case[3].parse().unwrap_or(0), case[4].parse().unwrap_or(0));
                for idx in from..to {
                    set_progress_idx(idx);
                    run_index(ctx, &case[2], idx);
                }
                let keys: Vec<String> = ctx.nontrivial.iter().map(|k| format!("{k:x}")).collect();
                let _ = std::fs::write(format!("{}/keys.txt", case[1]), keys.join(","));
            }
            // one generated case by index: `child <dir> idx <phase> <idx>` (in a capped child, see below)
            Some("child") if case.get(2).map(|s| s.as_str()) == Some("idx") && case.len() >= 5 => {
                let idx = case[4].parse().unwrap_or(0);
                *PROGRESS.lock().unwrap() = Some((format!("{}/progress", case[1]), case[3].clone(), idx));
                run_index(ctx, &case[3], idx);
            }
            // worker for one replayed case
            Some("child") if case.len() >= 2 => {
                *PROGRESS.lock().unwrap() = Some((format!("{}/progress", case[1]), "replay".into(), 0));
                replay_inproc(ctx, &case[2..]);
            }
            // a replayed case runs in a capped child as well (it may be a non-terminating one)
            _ => {
                let dir = format!("{}/C08-replay-child", work_root());
                let mut words = vec!["child".to_string(), dir.clone()];
                words.extend(case.iter().cloned());
                let o = run_child(ctx, &dir, &words, 300);
                if o.ok {
                    merge(ctx, &dir);
                } else {
                    let (kind, text) = died_text(&o);
                    let fam = o.last.map(|l| l.1).unwrap_or("c08".into());
                    ctx.fail(&format!("{fam}-{kind}"), format!("{}: {text}", case.join(" ")), case.join(" "));
                }
                let _ = std::fs::remove_dir_all(work_root());
            }
        }
        return;
    }
    // the harness's own Nx16 decoder must reproduce the specification's reference streams
    if let Err(e) = spec_nx16::self_test() {
        ctx.fail("harness-self-test", format!("the independent Nx16 decoder fails a reference vector: {e}"), "selftest nx16".into());
    }
    ctx.bump("nx16_reference_vectors_checked");
    for phase in PHASES {
        let total = phase_len(ctx, phase);
        let mut from = 0;
        let mut limit: Option<u64> = None;
        let mut dead: Option<(u64, ChildOut)> = None;
        while from < total {
            if let Some((i, _)) = dead.take_if(|d| d.0 == from) {
                // the worker died (or ran out of time) at case `i`. A loaded machine can stall a
                // whole batch, so the case is confirmed on its own, with a generous deadline,
                // before anything is reported.
                let dir = format!("{}/C08-confirm", work_root());
                let words: Vec<String> = vec!["child".into(), dir.clone(), "idx".into(), phase.into(), i.to_string()];
                let o = run_child(ctx, &dir, &words, 600);
                if o.ok {
                    merge(ctx, &dir);
                    ctx.bump("worker_death_not_confirmed");
                } else {
                    let (kind, text) = died_text(&o);
                    let (_, fam, c) = o.last.clone().unwrap_or((i, "c08".into(), format!("idx {phase} {i}")));
                    ctx.fail(&format!("{fam}-{kind}"), format!("{c}: {text}"), c.clone());
                    ctx.eval(None);
                }
                from = i + 1;
                continue;
            }
            let to = limit.take().unwrap_or(total).min(from + BATCH).min(total);
            let dir = format!("{}/C08-worker", work_root());
            let words: Vec<String> = vec!["batch".into(), dir.clone(), phase.into(), from.to_string(), to.to_string()];
            let deadline = if ctx.tier_thorough { 900 } else { 240 };
            let t0 = std::time::Instant::now();
            let o = run_child(ctx, &dir, &words, deadline);
            if std::env::var("NVH_TRACE").is_ok() {
                eprintln!("batch {phase} {from}..{to}: {} ms ok={}", t0.elapsed().as_millis(), o.ok);
            }
            if o.ok {
                merge(ctx, &dir);
                from = to;
            } else {
                let i = o.last.as_ref().map(|l| l.0).unwrap_or(from).clamp(from, to - 1);
                ctx.bump("worker_died");
                if i > from {
                    limit = Some(i);
                }
                dead = Some((i, o));
            }
        }
    }
    super::c08_tok::run(ctx);
    super::c08_order1::run(ctx);
    super::c08_aac::run(ctx);
    super::c08_fqz::run(ctx);
    let _ = std::fs::remove_dir_all(work_root());
    ctx.sample(|| "c08 r4enc0 6e6f6f646c6573".into());
    ctx.sample(|| "rt nx c1 x6e6f6f646c6573 -".into());
}

fn work_root() -> String {
    // `--dir` is not visible here; the worker directories live next to the system temp dir of this run
    std::env::var("NVH_WORK").unwrap_or_else(|_| format!("{}/nvh-c08-{}", std::env::temp_dir().display(), std::process::id()))
}

fn replay_inproc(ctx: &mut Ctx, case: &[String]) {
    if super::c08_tok::replay(ctx, case) { return; }
    if super::c08_order1::replay(ctx, case) { return; }
    if super::c08_aac::replay(ctx, case) { return; }
    if super::c08_fqz::replay(ctx, case) { return; }
    match case.first().map(|s| s.as_str()) {
        Some("rt") if case.len() >= 4 => {
            let Some(c) = Codec::parse(&case[1], &case[2]) else { return };
            let src = case[3].strip_prefix('x').map(unhex).unwrap_or_default();
            let lens: Vec<usize> = match case.get(4).map(|s| s.as_str()) {
                None | Some("-") => vec![],
                Some(l) => l.split(',').filter_map(|x| x.parse().ok()).collect(),
            };
            oracle_case(ctx, c, &src, &lens, "replay", false);
        }
        Some("int") if case.len() >= 3 => match case[1].as_str() {
            "itf8" => itf8_oracle_one(ctx, case[2].parse().unwrap_or(0)),
            "ltf8" => ltf8_oracle_one(ctx, case[2].parse().unwrap_or(0)),
            "u7" => u7_oracle_one(ctx, case[2].parse().unwrap_or(0)),
            _ => {}
        },
        Some("batch") | Some("ints") => {}
        _ => {}
    }
}
