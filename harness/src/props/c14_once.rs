//! C14 extension "once": a destination that fails ONCE (`ScriptSink { fail_once: true }`) under the
//! real `bgzf::io::Writer`, with a caller that goes on after the `Err` (four continuation
//! policies), and the real `MultithreadedWriter` (stop at the first error).
//!
//! CORRESPONDENCE `c14 once <lvl> <policy> <script> <fallback> <failAt> <kind> <calls> <table>`:
//! the Lean model `Noodles.WP.Once.runPol` must predict, for every call the caller makes
//! (including retries), its result (destination's kind / the writer's own error class), and after
//! it `position()`, the number of staged bytes, the number of bytes the destination holds and the
//! number of destination calls; then the destination (len:crc32:calls:failed) before and after
//! `Drop`. The DEFLATE answers (table) are read off the complete frames of the same run.
//!
//! ORACLE (real code only): once:hidden-failure, once:spurious-error, once:ok-but-incomplete,
//! once:panic, once:bam-not-write-all, once:mt-*.
use super::c01;
use crate::adversary::{ScriptSink, SharedSink, SinkStep};
use crate::common::*;
use noodles_bam as bam;
use noodles_bgzf as bgzf;
use noodles_sam as sam;
use std::io::{self, ErrorKind, Read, Write};

const KINDS: [(ErrorKind, u32); 6] = [
    (ErrorKind::Other, 0),
    (ErrorKind::BrokenPipe, 1),
    (ErrorKind::PermissionDenied, 3),
    (ErrorKind::TimedOut, 4),
    (ErrorKind::InvalidInput, 5),
    (ErrorKind::WriteZero, 2),
];

const POLICIES: [&str; 4] = ["stop", "retry", "next", "finish"];

#[derive(Clone, Debug)]
enum Call {
    All(Vec<u8>),
    Flush,
    Finish,
}

/// calls separated by `,`; the primitives of one call (`?`-sequenced) by `+`; `s` = a call that
/// does nothing
fn fmt_calls(cs: &[Vec<Call>]) -> String {
    if cs.is_empty() {
        return "-".into();
    }
    cs.iter()
        .map(|call| {
            if call.is_empty() {
                return "s".to_string();
            }
            call.iter()
                .map(|c| match c {
                    Call::All(b) => format!("a{}", hex(b)),
                    Call::Flush => "f".into(),
                    Call::Finish => "F".into(),
                })
                .collect::<Vec<_>>()
                .join("+")
        })
        .collect::<Vec<_>>()
        .join(",")
}

fn fmt_script(s: &[SinkStep]) -> String {
    if s.is_empty() {
        return "-".into();
    }
    s.iter()
        .map(|s| match s {
            SinkStep::Accept(n) => format!("a{n}"),
            SinkStep::Interrupted => "i".into(),
        })
        .collect::<Vec<_>>()
        .join(",")
}

fn is_scripted(e: &io::Error) -> bool {
    e.get_ref().map(|i| i.to_string() == "scripted sink failure").unwrap_or(false)
}

fn res_str(r: &Result<io::Result<()>, String>) -> String {
    match r {
        Ok(Ok(())) => "ok".into(),
        Ok(Err(e)) if is_scripted(e) => {
            format!("err:kind{}", KINDS.iter().find(|(k, _)| *k == e.kind()).map(|(_, c)| *c).unwrap_or(99))
        }
        Ok(Err(e)) => match e.kind() {
            ErrorKind::WriteZero => "own:write-zero".into(),
            ErrorKind::InvalidInput => "own:invalid-input".into(),
            ErrorKind::InvalidData => "own:invalid-data".into(),
            ErrorKind::UnexpectedEof => "own:eof".into(),
            ErrorKind::Interrupted => "own:interrupted".into(),
            _ => "own:other".into(),
        },
        Err(_) => "panic".into(),
    }
}

#[derive(Clone, Debug)]
struct Cfg {
    script: Vec<SinkStep>,
    fallback: usize,
    fail_at: Option<(usize, ErrorKind)>,
}

impl Cfg {
    fn sink(&self) -> SharedSink {
        let mut s = ScriptSink::new(self.script.clone(), self.fallback, self.fail_at);
        s.fail_once = true;
        SharedSink::new(s)
    }
}

struct Out {
    /// per call made: (result string, position, staged, accepted, calls)
    per: Vec<String>,
    results: Vec<String>,
    /// destination failed while this call (index into `per`) was running
    failed_during: Option<usize>,
    pre: (Vec<u8>, usize, bool),
    post: (Vec<u8>, usize, bool),
    /// accepted-bytes deltas per call (and of Drop), for the DEFLATE table
    deltas: Vec<Vec<u8>>,
    last_was_finish: bool,
    /// bytes handed to write_all calls that returned Ok, in order
    payload_ok: Vec<u8>,
    /// every block the writer may have asked the DEFLATE library to compress (a superset; only
    /// used to put the library's answers into the request's table)
    cands: Vec<Vec<u8>>,
    shadow_mismatch: bool,
}

fn complete_frames(d: &[u8]) -> usize {
    let mut s = d;
    let mut n = 0;
    while s.len() >= 26 && s[0..4] == [0x1f, 0x8b, 0x08, 0x04] {
        let total = u16::from_le_bytes([s[16], s[17]]) as usize + 1;
        if total < 26 || total > s.len() {
            break;
        }
        n += 1;
        s = &s[total..];
    }
    n
}

/// the library's DEFLATE answer for one block at a level, as a table entry (real writer over a Vec)
fn deflate_of(level: u8, block: &[u8]) -> Option<String> {
    use std::collections::HashMap;
    use std::sync::{Mutex, OnceLock};
    static CACHE: OnceLock<Mutex<HashMap<(u8, u64, usize), Option<String>>>> = OnceLock::new();
    let key = (level, fnv(block), block.len());
    let cache = CACHE.get_or_init(|| Mutex::new(HashMap::new()));
    if let Some(e) = cache.lock().unwrap().get(&key) {
        return e.clone();
    }
    let mut w = bgzf::io::writer::Builder::default()
        .set_compression_level(bgzf::io::writer::CompressionLevel::new(level).unwrap())
        .build_from_writer(Vec::new());
    let e = w.write_all(block).ok().and_then(|_| w.finish().ok()).and_then(|out| {
        c01::split_members(&out).ok().and_then(|ms| ms.iter().find(|m| m.isize > 0).map(|m| format!("{}:{}:{}", m.crc, m.isize, hex(m.cdata))))
    });
    cache.lock().unwrap().insert(key, e.clone());
    e
}

/// the real stack under test: call `i` of the session, and the BGZF writer's `position()` /
/// `virtual_position()`
trait Stack {
    fn call(&mut self, i: usize) -> io::Result<()>;
    fn pos(&self) -> u64;
    fn vpos(&self) -> u64;
}

fn bgzf_writer(level: u8, sink: SharedSink) -> bgzf::io::Writer<SharedSink> {
    bgzf::io::writer::Builder::default()
        .set_compression_level(bgzf::io::writer::CompressionLevel::new(level).unwrap())
        .build_from_writer(sink)
}

struct BgzfStack {
    w: bgzf::io::Writer<SharedSink>,
    progs: Vec<Vec<Call>>,
}

impl Stack for BgzfStack {
    fn call(&mut self, i: usize) -> io::Result<()> {
        for p in &self.progs[i] {
            match p {
                Call::All(b) => self.w.write_all(b)?,
                Call::Flush => self.w.flush()?,
                Call::Finish => self.w.try_finish()?,
            }
        }
        Ok(())
    }
    fn pos(&self) -> u64 {
        self.w.position()
    }
    fn vpos(&self) -> u64 {
        u64::from(self.w.virtual_position())
    }
}

/// the real BAM writer over the real BGZF writer: call 0 = write_header, 1..=n =
/// write_alignment_record, n+1 = try_finish
struct BamStack {
    w: bam::io::Writer<bgzf::io::Writer<SharedSink>>,
    header: sam::Header,
    recs: Vec<sam::alignment::RecordBuf>,
}

impl Stack for BamStack {
    fn call(&mut self, i: usize) -> io::Result<()> {
        use sam::alignment::io::Write as _;
        if i == 0 {
            self.w.write_header(&self.header)
        } else if i <= self.recs.len() {
            self.w.write_alignment_record(&self.header, &self.recs[i - 1])
        } else {
            self.w.try_finish()
        }
    }
    fn pos(&self) -> u64 {
        self.w.get_ref().position()
    }
    fn vpos(&self) -> u64 {
        u64::from(self.w.get_ref().virtual_position())
    }
}

/// records the buffer of every `write_all` (the program of a format writer's call)
struct Rec(std::rc::Rc<std::cell::RefCell<Vec<Vec<u8>>>>, std::rc::Rc<std::cell::Cell<bool>>);

impl Write for Rec {
    fn write(&mut self, b: &[u8]) -> io::Result<usize> {
        // a format writer that called `write` directly would not be a WProg
        self.1.set(true);
        self.0.borrow_mut().push(b.to_vec());
        Ok(b.len())
    }
    fn write_all(&mut self, b: &[u8]) -> io::Result<()> {
        self.0.borrow_mut().push(b.to_vec());
        Ok(())
    }
    fn flush(&mut self) -> io::Result<()> {
        self.1.set(true);
        Ok(())
    }
}

/// the four caller policies on the real stack
fn run_real(mk: &dyn Fn(SharedSink) -> Box<dyn Stack>, policy: &str, progs: &[Vec<Call>], cfg: &Cfg) -> Out {
    let sink = cfg.sink();
    let mut per = vec![];
    let mut results = vec![];
    let mut deltas = vec![];
    let mut failed_during = None;
    let mut last_was_finish = false;
    let mut payload_ok = vec![];
    let mut stage: Vec<u8> = vec![];
    let mut cands: Vec<Vec<u8>> = vec![];
    let mut shadow_mismatch = false;
    let pre;
    {
        let mut w = mk(sink.clone());
        let mut do_call = |w: &mut Box<dyn Stack>, i: usize| -> bool {
            let before = sink.accepted().len();
            let was_failed = sink.failed();
            // shadow of `staging_buf`: the blocks this call compresses if every flush succeeds
            let mut sim = stage.clone();
            let mut events: Vec<Vec<u8>> = vec![];
            for c in &progs[i] {
                match c {
                    Call::All(b) => {
                        let mut rest = &b[..];
                        while !rest.is_empty() {
                            let amt = (c01::MAX_BUF - sim.len()).min(rest.len());
                            sim.extend_from_slice(&rest[..amt]);
                            rest = &rest[amt..];
                            if sim.len() >= c01::MAX_BUF {
                                events.push(std::mem::take(&mut sim));
                            }
                            if amt == 0 {
                                break;
                            }
                        }
                    }
                    _ => {
                        if !sim.is_empty() {
                            events.push(std::mem::take(&mut sim));
                        }
                    }
                }
            }
            let r = guarded(|| w.call(i));
            let rs = res_str(&r);
            let acc = sink.accepted();
            if !was_failed && sink.failed() {
                failed_during = Some(per.len());
            }
            let staged = guarded(|| w.vpos() & 0xffff).unwrap_or(u64::MAX);
            per.push(format!("{rs}:{}:{staged}:{}:{}", w.pos(), acc.len(), sink.calls()));
            if rs == "ok" {
                stage = sim;
            } else if rs.starts_with("err:kind") {
                // flush #j of this call failed: its block stays staged, nothing after it happened;
                // j beyond the flushes = the EOF marker failed after everything was flushed
                // (nothing staged afterwards = it was an EOF marker that failed, after its flush)
                if staged == 0 {
                    stage.clear();
                } else {
                    stage = events.get(complete_frames(&acc[before..])).cloned().unwrap_or(sim);
                }
            } else if staged == 0 {
                stage.clear();
            }
            if stage.len() as u64 != staged {
                shadow_mismatch = true;
            }
            cands.extend(events);
            deltas.push(acc[before..].to_vec());
            last_was_finish = matches!(progs[i].last(), Some(Call::Finish));
            let ok = rs == "ok";
            if ok {
                for c in &progs[i] {
                    if let Call::All(b) = c {
                        payload_ok.extend_from_slice(b);
                    }
                }
            }
            results.push(rs);
            ok
        };
        let mut i = 0;
        while i < progs.len() {
            let ok = do_call(&mut w, i);
            if !ok {
                match policy {
                    "stop" => break,
                    "next" => {}
                    "retry" => {
                        for _ in 0..2 {
                            if do_call(&mut w, i) {
                                break;
                            }
                        }
                    }
                    _ => {
                        if i + 1 < progs.len() {
                            do_call(&mut w, progs.len() - 1);
                        }
                        break;
                    }
                }
            }
            i += 1;
        }
        pre = (sink.accepted(), sink.calls(), sink.failed());
        let before = pre.0.len();
        if !stage.is_empty() {
            cands.push(stage.clone());
        }
        drop(w);
        deltas.push(sink.accepted()[before..].to_vec());
    }
    Out { per, results, failed_during, pre, post: (sink.accepted(), sink.calls(), sink.failed()), deltas, last_was_finish, payload_ok, cands, shadow_mismatch }
}

/// DEFLATE answers of the library, read off the complete frames of a run: a call's bytes are
/// complete frames, followed (only when the call failed) by the beginning of one
fn table_of(level: u8, deltas: &[Vec<u8>], cands: &[Vec<u8>]) -> String {
    let mut v: Vec<String> = vec![];
    for c in cands {
        if let Some(e) = deflate_of(level, c) {
            if !v.contains(&e) {
                v.push(e);
            }
        }
    }
    for d in deltas {
        let mut s = &d[..];
        while s.len() >= 26 && s[0..4] == [0x1f, 0x8b, 0x08, 0x04] {
            let total = u16::from_le_bytes([s[16], s[17]]) as usize + 1;
            if total < 26 || total > s.len() {
                break;
            }
            let crc = u32::from_le_bytes(s[total - 8..total - 4].try_into().unwrap());
            let isize = u32::from_le_bytes(s[total - 4..total].try_into().unwrap());
            if isize > 0 {
                let e = format!("{crc}:{isize}:{}", hex(&s[18..total - 8]));
                if !v.contains(&e) {
                    v.push(e);
                }
            }
            s = &s[total..];
        }
    }
    if v.is_empty() { "-".into() } else { v.join(",") }
}

fn read_back(b: &[u8]) -> Result<Vec<u8>, String> {
    let mut r = bgzf::io::Reader::new(b);
    let mut out = vec![];
    match guarded(|| r.read_to_end(&mut out)) {
        Ok(Ok(_)) => Ok(out),
        Ok(Err(e)) => Err(e.to_string()),
        Err(p) => Err(format!("panic: {p}")),
    }
}

fn fmt_end(e: &(Vec<u8>, usize, bool)) -> String {
    format!("{}:{}:{}:{}", e.0.len(), crc32(&e.0), e.1, e.2 as u8)
}

/// one (program, destination, policy): correspondence line + the property on the real run
fn one_case(ctx: &mut Ctx, level: u8, policy: &str, calls: &[Vec<Call>], mk: &dyn Fn(SharedSink) -> Box<dyn Stack>, cfg: &Cfg, case: &str) {
    let o = run_real(mk, policy, calls, cfg);
    let (fa, kind) = match cfg.fail_at {
        Some((k, kind)) => (k.to_string(), KINDS.iter().find(|(x, _)| *x == kind).map(|(_, c)| *c).unwrap_or(99)),
        None => ("-".into(), 0),
    };
    ctx.bump(&format!("once_policy_{policy}"));
    if o.shadow_mismatch {
        ctx.bump("once_shadow_mismatch");
    }
    {
        let per = if o.per.is_empty() { "-".to_string() } else { o.per.join(",") };
        ctx.corr(
            format!("c14 once {level} {policy} {} {} {fa} {kind} {} {}", fmt_script(&cfg.script), cfg.fallback, fmt_calls(calls), table_of(level, &o.deltas, &o.cands)),
            format!("{per} | pre={} post={}", fmt_end(&o.pre), fmt_end(&o.post)),
        );
    }
    // ---- the property, on the real run
    let payload: Vec<u8> = calls.iter().flatten().flat_map(|c| if let Call::All(b) = c { b.clone() } else { vec![] }).collect();
    ctx.eval(if payload.len() > 1 { Some(fnv(format!("{case}/{policy}/{:?}", cfg.fail_at).as_bytes())) } else { None });
    let what = format!("bgzf once policy={policy} fail_at={:?} results={:?}", cfg.fail_at, o.results);
    if o.results.iter().any(|r| r == "panic") {
        ctx.fail("once:panic", format!("{what}: a writer call panicked"), case.into());
        return;
    }
    let all_ok = o.results.iter().all(|r| r == "ok");
    let kind_s = format!("err:kind{kind}");
    match o.failed_during {
        Some(i) => {
            ctx.bump("once_failure_during_explicit_call");
            if !o.results.iter().any(|r| *r == kind_s) {
                ctx.fail("once:hidden-failure", format!("{what}: the destination failed during call #{i} but no call returned its error"), case.into());
            } else if o.results[i] != kind_s {
                // reported, but by a later call: allowed by the property (the model says it is
                // the same call, so the correspondence flags this) — counted only
                ctx.bump("once_reported_by_a_later_call");
            }
            // everything after the reported error Ok, finishing call Ok: is the file intact?
            let later_ok = o.results[i + 1..].iter().all(|r| r == "ok");
            if later_ok && o.last_was_finish && o.results.len() > i + 1 {
                match read_back(&o.pre.0) {
                    Ok(d) if d == payload => ctx.bump("once_reported_then_file_intact"),
                    Ok(_) => ctx.bump("once_reported_then_ok_but_payload_differs"),
                    Err(_) => ctx.bump("once_reported_then_ok_but_unreadable"),
                }
            } else if !later_ok {
                ctx.bump("once_later_call_also_failed");
                if o.results[i + 1..].iter().any(|r| r == "own:write-zero") {
                    ctx.bump("once_retry_returned_write_zero");
                }
            }
        }
        None => {
            if o.post.2 {
                ctx.bump("once_failure_inside_drop");
            } else {
                ctx.bump("once_no_failure");
            }
            if !all_ok {
                ctx.fail("once:spurious-error", format!("{what}: a call failed although the destination did not fail during any call"), case.into());
            }
        }
    }
    if all_ok && o.last_was_finish {
        match read_back(&o.pre.0) {
            Ok(d) if d == payload && d == o.payload_ok => {}
            other => ctx.fail("once:ok-but-incomplete", format!("{what}: every call returned Ok but the destination reads back as {:?} (wrote {} bytes)", other.map(|d| d.len()), payload.len()), case.into()),
        }
    }
}

fn singles(calls: &[Call]) -> Vec<Vec<Call>> {
    calls.iter().map(|c| vec![c.clone()]).collect()
}

fn gen_program(rng: &mut Rng, big: bool) -> Vec<Call> {
    let len = if big { c01::MAX_BUF + *rng.pick(&[0usize, 1, 700]) } else { match rng.below(5) { 0 => 0, 1 => 1, _ => rng.below(400) as usize } };
    let payload = c01::gen_payload(rng, len);
    let mut calls = vec![];
    let mut rest = &payload[..];
    while !rest.is_empty() {
        let n = if big { (1 + rng.below(70_000) as usize).min(rest.len()) } else { (1 + rng.below(200) as usize).min(rest.len()) };
        calls.push(Call::All(rest[..n].to_vec()));
        rest = &rest[n..];
        if rng.chance(1, 3) {
            calls.push(Call::Flush);
        }
        if !big && rng.chance(1, 12) {
            calls.push(Call::Finish);
        }
    }
    if rng.chance(1, 10) {
        calls.push(Call::All(vec![]));
    }
    if rng.chance(9, 10) {
        calls.push(Call::Finish);
    }
    calls
}

fn gen_script(rng: &mut Rng, big: bool) -> (Vec<SinkStep>, usize) {
    match rng.below(if big { 2 } else { 5 }) {
        0 | 1 => (vec![], usize::MAX),
        2 => (vec![], 7),
        3 => {
            let mut s = vec![];
            for _ in 0..rng.below(12) {
                if rng.chance(1, 3) { s.push(SinkStep::Interrupted) } else { s.push(SinkStep::Accept(1 + rng.below(20) as usize)) }
            }
            (s, usize::MAX)
        }
        _ => (vec![SinkStep::Interrupted, SinkStep::Interrupted], 3),
    }
}

fn program_cases(ctx: &mut Ctx, level: u8, calls: &[Call], script: &[SinkStep], fallback: usize, max_k: usize, rng: &mut Rng, case: &str) {
    let progs = singles(calls);
    let p2 = progs.clone();
    let mk = move |sink: SharedSink| -> Box<dyn Stack> { Box::new(BgzfStack { w: bgzf_writer(level, sink), progs: p2.clone() }) };
    stack_cases(ctx, level, &progs, &mk, script, fallback, max_k, rng, case);
}

fn stack_cases(ctx: &mut Ctx, level: u8, progs: &[Vec<Call>], mk: &dyn Fn(SharedSink) -> Box<dyn Stack>, script: &[SinkStep], fallback: usize, max_k: usize, rng: &mut Rng, case: &str) {
    let n = run_real(mk, "stop", progs, &Cfg { script: script.to_vec(), fallback, fail_at: None }).post.1;
    ctx.bump(&format!("once_healthy_dest_calls_{}", match n { 0..=1 => "0-1", 2..=15 => "2-15", 16..=60 => "16-60", _ => "61+" }));
    let ks: Vec<usize> = if n + 2 <= max_k { (0..n + 2).collect() } else { (0..max_k).map(|_| rng.below(n as u64 + 1) as usize).collect() };
    for (j, k) in ks.iter().enumerate() {
        let kind = KINDS[(j + *k) % KINDS.len()].0;
        let cfg = Cfg { script: script.to_vec(), fallback, fail_at: Some((*k, kind)) };
        for p in POLICIES {
            one_case(ctx, level, p, progs, mk, &cfg, case);
        }
    }
    let cfg = Cfg { script: script.to_vec(), fallback, fail_at: None };
    one_case(ctx, level, "next", progs, mk, &cfg, case);
}

/// the real BAM writer on top: the program of every call is RECORDED once (BAM writer over a
/// recording `Write`), the model must predict the real stack under every failure index x policy
fn bam_case(ctx: &mut Ctx, sub: u64) {
    use sam::alignment::io::Write as _;
    use sam::alignment::record::{cigar::{op::Kind, Op as COp}, Flags, MappingQuality};
    use sam::alignment::record_buf::{Cigar, QualityScores, Sequence};
    use sam::header::record::value::{map::ReferenceSequence, Map};
    let mut rng = Rng::new(sub ^ 0xBA3);
    let level = 1 + rng.below(9) as u8;
    let header = sam::Header::builder()
        .set_header(Default::default())
        .add_reference_sequence("sq0", Map::<ReferenceSequence>::new(std::num::NonZero::new(64).unwrap()))
        .build();
    let nrec = rng.below(4) as usize;
    let recs: Vec<sam::alignment::RecordBuf> = (0..nrec)
        .map(|i| {
            let len = 3 + rng.below(9) as usize;
            let b = sam::alignment::RecordBuf::builder().set_name(format!("r{i}"));
            if rng.chance(1, 4) {
                b.set_flags(Flags::UNMAPPED).set_sequence(Sequence::from(vec![b'A'; len])).set_quality_scores(QualityScores::from(vec![20u8; len])).build()
            } else {
                b.set_flags(Flags::empty())
                    .set_reference_sequence_id(0)
                    .set_alignment_start(noodles_core::Position::try_from(1 + i).unwrap())
                    .set_mapping_quality(MappingQuality::new(30).unwrap())
                    .set_cigar(Cigar::from(vec![COp::new(Kind::Match, len)]))
                    .set_sequence(Sequence::from(vec![b'C'; len]))
                    .set_quality_scores(QualityScores::from(vec![30u8; len]))
                    .build()
            }
        })
        .collect();
    // record the program of every call
    let log = std::rc::Rc::new(std::cell::RefCell::new(Vec::<Vec<u8>>::new()));
    let odd = std::rc::Rc::new(std::cell::Cell::new(false));
    let mut progs: Vec<Vec<Call>> = vec![];
    {
        let mut rw = bam::io::Writer::from(Rec(log.clone(), odd.clone()));
        let mut take = |r: io::Result<()>, progs: &mut Vec<Vec<Call>>| -> bool {
            progs.push(log.borrow_mut().drain(..).map(Call::All).collect());
            r.is_ok()
        };
        let r = rw.write_header(&header);
        if !take(r, &mut progs) {
            ctx.bump("once_bam_record_failed");
            return;
        }
        for rec in &recs {
            let r = rw.write_alignment_record(&header, rec);
            if !take(r, &mut progs) {
                ctx.bump("once_bam_record_failed");
                return;
            }
        }
    }
    if odd.get() {
        // the BAM writer used `write`/`flush` directly: not a sequence of write_all
        ctx.fail("once:bam-not-write-all", "the BAM writer called write()/flush() on its inner writer".into(), format!("once bam {sub}"));
        return;
    }
    progs.push(vec![Call::Finish]);
    ctx.bump("once_bam_sessions");
    ctx.bump(&format!("once_bam_records_{nrec}"));
    let (h2, r2) = (header.clone(), recs.clone());
    let mk = move |sink: SharedSink| -> Box<dyn Stack> {
        Box::new(BamStack { w: bam::io::Writer::from(bgzf_writer(level, sink)), header: h2.clone(), recs: r2.clone() })
    };
    let (script, fallback) = gen_script(&mut rng, false);
    let max_k = if ctx.tier_thorough { 80 } else { 24 };
    stack_cases(ctx, level, &progs, &mk, &script, fallback, max_k, &mut rng, &format!("once bam {sub}"));
}

fn corpus_programs() -> Vec<Vec<Call>> {
    use Call::*;
    vec![
        vec![],
        vec![Finish],
        vec![Flush, Finish],
        vec![All(vec![0x41]), Finish],
        vec![All(vec![0x41]), Flush, All(vec![0x42, 0x43]), Finish],
        vec![All(vec![1, 2, 3]), Finish, Finish],
        vec![All(vec![1, 2, 3]), Finish, All(vec![4]), Finish],
        vec![All(vec![]), All(vec![9]), Flush, Flush],
        vec![All(vec![7; 40])],
    ]
}

fn corpus(ctx: &mut Ctx) {
    let mut rng = Rng::new(0xC14_0CE);
    for (i, p) in corpus_programs().iter().enumerate() {
        let case = format!("once corpus {i}");
        program_cases(ctx, 6, p, &[], usize::MAX, 64, &mut rng, &case);
        ctx.bump("once_corpus_programs");
    }
    // one-byte acceptances and an interruption in front of the failing call
    let p = vec![Call::All(vec![0x41, 0x42]), Call::Finish];
    program_cases(ctx, 1, &p, &[SinkStep::Interrupted, SinkStep::Accept(1), SinkStep::Interrupted], 1, 80, &mut rng, "once corpus 100");
    // the buffer fills exactly / is exceeded inside one write_all: the flush happens inside `write`
    for (i, extra) in [0usize, 5].iter().enumerate() {
        let mut r2 = Rng::new(77 + i as u64);
        let data = c01::gen_payload(&mut r2, c01::MAX_BUF + extra);
        let p = vec![Call::All(data), Call::Finish];
        program_cases(ctx, 1, &p, &[], usize::MAX, 3, &mut rng, &format!("once corpus {}", 200 + i));
        ctx.bump("once_corpus_big");
    }
    // calls made of several `?`-sequenced primitives with a flush in the middle (what a format
    // writer's call looks like to the BGZF layer): the failure can strike mid-call, the rest of the
    // call is skipped, a retry repeats the call from its start
    for (i, progs) in [
        vec![vec![Call::All(vec![1, 2]), Call::Flush, Call::All(vec![3])], vec![Call::All(vec![4]), Call::Finish]],
        vec![vec![], vec![Call::All(vec![5; 30]), Call::All(vec![6; 3]), Call::Flush, Call::Flush], vec![Call::Flush, Call::All(vec![7]), Call::Finish, Call::All(vec![8])], vec![Call::Finish]],
    ]
    .iter()
    .enumerate()
    {
        let p2 = progs.clone();
        let mk = move |sink: SharedSink| -> Box<dyn Stack> { Box::new(BgzfStack { w: bgzf_writer(6, sink), progs: p2.clone() }) };
        stack_cases(ctx, 6, progs, &mk, &[], usize::MAX, 80, &mut rng, &format!("once corpus {}", 300 + i));
        ctx.bump("once_corpus_multi_primitive");
    }
    // malformed requests
    for bad in ["c14 once 6 stop - 1 - 0 zz -", "c14 once 6 never - 1 - 0 f -", "c14 once 6 stop"] {
        ctx.corr(bad.to_string(), "bad-op".to_string());
    }
}

fn generated(ctx: &mut Ctx, sub: u64, big: bool) {
    let mut rng = Rng::new(sub ^ 0x0CE);
    let level = rng.below(10) as u8;
    let calls = gen_program(&mut rng, big);
    let (script, fallback) = gen_script(&mut rng, big);
    ctx.bump(if big { "once_programs_big" } else { "once_programs_small" });
    ctx.bump(&format!("once_program_calls_{}", calls.len().min(9)));
    let case = format!("once gen {sub} {}", big as u8);
    let max_k = if big { 4 } else if ctx.tier_thorough { 120 } else { 40 };
    program_cases(ctx, level, &calls, &script, fallback, max_k, &mut rng, &case);
}

// ------------------------------------------------------------------ multithreaded writer

/// real `MultithreadedWriter`, destination fails once at call k, caller stops at the first error
/// (the schedule-independent part): which call classes are seen, and whether the accepted bytes
/// are a prefix of the healthy output cut at a `write_all` boundary of `write_frame`
fn mt_case(ctx: &mut Ctx, sub: u64) {
    let mut rng = Rng::new(sub ^ 0x317);
    let nblocks = 1 + rng.below(4) as usize;
    let chunks: Vec<Vec<u8>> = (0..nblocks).map(|_| { let n = 1 + rng.below(300) as usize; c01::gen_payload(&mut rng, n) }).collect();
    let case = format!("once mt {sub}");
    let run = |fail_at: Option<(usize, ErrorKind)>| -> Result<(Vec<String>, Vec<u8>, usize, bool), String> {
        let chunks = chunks.clone();
        guarded(move || {
            let mut s = ScriptSink::new(vec![], usize::MAX, fail_at);
            s.fail_once = true;
            let sink = SharedSink::new(s);
            let mut res = vec![];
            let mut w = bgzf::io::MultithreadedWriter::new(sink.clone());
            let mut stopped = false;
            for c in &chunks {
                let r = w.write_all(c).and_then(|_| w.flush());
                res.push(res_str(&Ok(r)));
                if res.last().unwrap() != "ok" {
                    stopped = true;
                    break;
                }
            }
            if !stopped {
                res.push(res_str(&Ok(w.finish().map(|_| ()))));
            } else {
                drop(w);
            }
            (res, sink.accepted(), sink.calls(), sink.failed())
        })
    };
    let healthy = match run(None) {
        Ok(h) => h,
        Err(p) => {
            ctx.fail("once:mt-panic", format!("multithreaded writer panicked on a healthy destination: {p}"), case);
            return;
        }
    };
    ctx.eval(Some(fnv(case.as_bytes())));
    if healthy.0.iter().any(|r| r != "ok") || read_back(&healthy.1).ok() != Some(chunks.concat()) {
        ctx.fail("once:mt-healthy", format!("multithreaded writer on a healthy destination: {:?}", healthy.0), case.clone());
        return;
    }
    let n = healthy.2;
    for k in 0..n {
        let kind = KINDS[k % 5].0;
        ctx.eval(Some(fnv(format!("{case}/{k}").as_bytes())));
        ctx.bump("once_mt_cases");
        match run(Some((k, kind))) {
            Err(p) => ctx.fail("once:mt-panic", format!("fail once at call {k}: panic {p}"), case.clone()),
            Ok((res, acc, _calls, failed)) => {
                let kind_s = format!("err:kind{}", KINDS[k % 5].1);
                let reported = res.iter().any(|r| *r == kind_s);
                if failed && !reported {
                    ctx.fail("once:mt-hidden-failure", format!("fail once at call {k}: destination failed, results {res:?}"), case.clone());
                }
                if !failed && res.iter().any(|r| r != "ok") {
                    ctx.fail("once:mt-spurious-error", format!("fail once at call {k}: destination never failed, results {res:?}"), case.clone());
                }
                if reported {
                    ctx.bump("once_mt_reported");
                    // stop at the first error: what the destination holds is the healthy output
                    // up to the failing write_all (Drop may append later frames: the destination
                    // has recovered), so the bytes before the failure are a prefix of the healthy
                    // output
                    let common = acc.iter().zip(healthy.1.iter()).take_while(|(a, b)| a == b).count();
                    if common == acc.len() { ctx.bump("once_mt_accepted_is_prefix_of_healthy") } else { ctx.bump("once_mt_accepted_diverges_after_error") }
                }
                if res.iter().all(|r| r == "ok") && read_back(&acc).ok() != Some(chunks.concat()) {
                    ctx.fail("once:mt-ok-but-incomplete", format!("fail once at call {k}: all Ok but the file does not read back"), case.clone());
                }
            }
        }
    }
}

pub fn run(ctx: &mut Ctx) {
    corpus(ctx);
    for it in 0..ctx.n(6, 120) {
        let sub = ctx.seed.wrapping_mul(5_000_011).wrapping_add(it);
        generated(ctx, sub, false);
    }
    for it in 0..ctx.n(1, 10) {
        let sub = ctx.seed.wrapping_mul(6_000_011).wrapping_add(it);
        generated(ctx, sub, true);
    }
    for it in 0..ctx.n(3, 40) {
        let sub = ctx.seed.wrapping_mul(8_000_009).wrapping_add(it);
        bam_case(ctx, sub);
    }
    for it in 0..ctx.n(3, 40) {
        let sub = ctx.seed.wrapping_mul(7_000_003).wrapping_add(it);
        mt_case(ctx, sub);
    }
}

pub fn replay(ctx: &mut Ctx, case: &[String]) -> bool {
    if case.first().map(|s| s.as_str()) != Some("once") {
        return false;
    }
    match case.get(1).map(|s| s.as_str()) {
        Some("corpus") => corpus(ctx),
        Some("gen") => generated(ctx, case[2].parse().unwrap(), case.get(3).map(|s| s == "1").unwrap_or(false)),
        Some("mt") => mt_case(ctx, case[2].parse().unwrap()),
        Some("bam") => bam_case(ctx, case[2].parse().unwrap()),
        _ => {}
    }
    true
}
