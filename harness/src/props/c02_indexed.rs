//! C02 (extension) — `bgzf::io::IndexedReader`: gzi-based random access by UNCOMPRESSED offset and
//! `std::io::Seek` on top of it, against the Lean model `Noodles.Bgzf.IR` (correspondence
//! `c02 idx …`, `c02 idxq …`, `c02 idxof …`, `c02 idxbuild …`) and against `std::io::Cursor` over the
//! flat payload (oracle class `indexed-differs-from-cursor`).
use super::c01::{gen_payload, make_member, stored_member, EOF};
use super::c02::{gzi_of, resolve, table, Blk};
use crate::common::*;
use noodles_bgzf as bgzf;
use std::io::{BufRead, Cursor, Read, Seek, SeekFrom};

#[derive(Clone, Debug)]
enum Op {
    Read(usize),
    ReadExact(usize),
    FillBuf,
    Consume(usize),
    Start(u64),
    Current(i64),
    End(i64),
    StreamPosition,
    Position,
    VPos,
}

fn compressed_member(data: &[u8], level: u32) -> Vec<u8> {
    let mut c = flate2::Compress::new(flate2::Compression::new(level), false);
    let mut cd = Vec::with_capacity(data.len() + 1024);
    c.compress_vec(data, &mut cd, flate2::FlushCompress::Finish).unwrap();
    make_member(&cd, crc32(data), data.len() as u32)
}

fn member(rng: &mut Rng, d: &[u8]) -> Vec<u8> {
    if d.len() >= 60_000 {
        compressed_member(d, 6)
    } else if rng.chance(1, 2) {
        stored_member(d)
    } else {
        compressed_member(d, 1 + rng.below(9) as u32)
    }
}

/// 1..12 members, sizes 0..65536, empty members anywhere, with / without / doubled EOF marker
fn gen_file(rng: &mut Rng) -> (Vec<u8>, Vec<Blk>) {
    let mut file = vec![];
    let mut layout = vec![];
    let n = 1 + rng.below(12);
    let allow_big = rng.chance(1, 8);
    for _ in 0..n {
        let len = match rng.below(16) {
            0..=3 => 0, // empty member mid-file
            4 if allow_big => 65280,
            5 if allow_big => 65535,
            6 if allow_big => 65536,
            7 => 300 + rng.below(700) as usize,
            _ => 1 + rng.below(40) as usize,
        };
        let d = if len >= 60_000 { vec![b'a' + rng.below(4) as u8; len] } else { gen_payload(rng, len) };
        let m = member(rng, &d);
        layout.push(Blk { csize: m.len(), data: d });
        file.extend_from_slice(&m);
    }
    if rng.chance(1, 25) {
        // the last member holds a full 65536 bytes and no EOF marker follows
        let d = vec![b'a' + rng.below(4) as u8; 65536];
        let m = member(rng, &d);
        layout.push(Blk { csize: m.len(), data: d });
        file.extend_from_slice(&m);
        return (file, layout);
    }
    let eofs = match rng.below(5) {
        0 => 0, // no EOF marker
        1 => 2,
        _ => 1,
    };
    for _ in 0..eofs {
        if layout.len() < 12 {
            file.extend_from_slice(&EOF);
            layout.push(Blk { csize: 28, data: vec![] });
        }
    }
    (file, layout)
}

/// a hand-built index: sorted by uncompressed offset (the documented precondition of
/// `partition_point`), compressed offsets are member boundaries or not representable (>= 2^48)
fn gen_hand_index(rng: &mut Rng, layout: &[Blk], ctx: &mut Ctx) -> Vec<(u64, u64)> {
    let t = table(layout);
    let built = gzi_of(&t, layout.len());
    let total = t.flat.len() as u64;
    match rng.below(7) {
        0 => {
            ctx.bump("idx_hand_empty");
            vec![]
        }
        1 | 2 => {
            // sparse: entries dropped (in-block offsets grow beyond the member / beyond u16)
            ctx.bump("idx_hand_sparse");
            built.into_iter().filter(|_| rng.chance(1, 2)).collect()
        }
        3 => {
            // uncompressed offsets shifted (still sorted)
            ctx.bump("idx_hand_shifted");
            let d = 1 + rng.below(3);
            if rng.chance(1, 2) {
                built.into_iter().map(|(c, u)| (c, u + d)).collect()
            } else {
                built.into_iter().map(|(c, u)| (c, u.saturating_sub(d))).collect()
            }
        }
        4 => {
            // an entry whose compressed offset does not fit a virtual position, for the tail
            ctx.bump("idx_hand_cpos_2pow48");
            let mut g = built;
            let u = if rng.chance(1, 2) { total } else { total.saturating_sub(rng.below(4)) };
            let u = u.max(g.last().map(|e| e.1).unwrap_or(0));
            g.push(((1u64 << 48) + rng.below(3), u));
            g
        }
        5 => {
            // entries duplicated, and one for the end of the file
            ctx.bump("idx_hand_dups_and_end");
            let mut g = vec![];
            for e in built {
                g.push(e);
                if rng.chance(1, 3) {
                    g.push(e);
                }
            }
            g.push((*t.coff.last().unwrap() as u64, total));
            g
        }
        _ => {
            // first member listed explicitly (htslib never does; harmless)
            ctx.bump("idx_hand_with_first");
            let mut g = vec![(0, 0)];
            g.extend(built);
            g
        }
    }
}

fn gen_ops(rng: &mut Rng, layout: &[Blk]) -> Vec<Op> {
    let t = table(layout);
    let total = t.flat.len();
    let n = 1 + rng.below(20);
    let mut ops = vec![];
    for _ in 0..n {
        let k = rng.below(layout.len() as u64 + 1) as usize;
        let blen = layout.get(k).map(|b| b.data.len()).unwrap_or(0);
        match rng.below(20) {
            0..=2 => ops.push(Op::Read(*rng.pick(&[0usize, 1, 3, 7, 40, 65535, 65536, 70000, blen, blen + 1, blen.saturating_sub(1)]))),
            3..=5 => ops.push(Op::ReadExact(*rng.pick(&[0usize, 1, 2, 5, 9, 41, blen, blen + 1, 65536, 65537, total + 1]))),
            6 | 7 => {
                ops.push(Op::FillBuf);
                ops.push(Op::Consume(*rng.pick(&[0usize, 1, 2, blen, blen / 2, blen + 5, 100_000])));
            }
            8..=14 => {
                // every member boundary ±1, the end, beyond the end
                let b = t.uoff[k] as i64;
                let p = match rng.below(10) {
                    0 | 1 => b,
                    2 => b - 1,
                    3 => b + 1,
                    4 => total as i64,
                    5 => total as i64 + 1,
                    6 => total as i64 + *rng.pick(&[2i64, 100, 65535, 65536, 70000]),
                    7 => total as i64 - 1,
                    _ => rng.below(total as u64 + 1) as i64,
                };
                ops.push(Op::Start(p.max(0) as u64));
            }
            15 => ops.push(if rng.chance(1, 2) { Op::Current(rng.below(5) as i64 - 2) } else { Op::End(-(rng.below(3) as i64)) }),
            16 => ops.push(Op::StreamPosition),
            17 => ops.push(Op::Position),
            _ => ops.push(Op::VPos),
        }
    }
    ops
}

fn fmt_bytes(b: &[u8]) -> String {
    if b.len() <= 32 { hex(b) } else { format!("{}:{}", b.len(), crc32(b)) }
}

fn fmt_layout(layout: &[Blk]) -> String {
    if layout.is_empty() {
        return "-".into();
    }
    layout.iter().map(|b| format!("{}:{}", b.csize, hex(&b.data))).collect::<Vec<_>>().join(",")
}

fn fmt_gzi(g: &[(u64, u64)]) -> String {
    if g.is_empty() {
        return "-".into();
    }
    g.iter().map(|(c, u)| format!("{c}:{u}")).collect::<Vec<_>>().join(",")
}

fn fmt_ops(ops: &[Op]) -> String {
    if ops.is_empty() {
        return "-".into();
    }
    ops.iter()
        .map(|o| match o {
            Op::Read(n) => format!("r{n}"),
            Op::ReadExact(n) => format!("x{n}"),
            Op::FillBuf => "b".into(),
            Op::Consume(n) => format!("c{n}"),
            Op::Start(p) => format!("S{p}"),
            Op::Current(d) => format!("C{d}"),
            Op::End(d) => format!("E{d}"),
            Op::StreamPosition => "p".into(),
            Op::Position => "q".into(),
            Op::VPos => "t".into(),
        })
        .collect::<Vec<_>>()
        .join(",")
}

/// Run `ops` on the real `IndexedReader`; per-op canonical answers for the correspondence. With
/// `oracle` (the index is the index OF the file) every answer is also compared with
/// `std::io::Cursor` over the flat payload.
fn run_case(ctx: &mut Ctx, file: &[u8], layout: &[Blk], gzi: &[(u64, u64)], ops: &[Op], case: &str, oracle: bool, emit_corr: bool) {
    let t = table(layout);
    let total = t.flat.len();
    // the index goes through its FILE format (gzi::io::Writer -> gzi::io::Reader) on every other case:
    // what is read back must be the index written (Lean `indexed_gzi_file_same_answers`)
    let mut index = bgzf::gzi::Index::from(gzi.to_vec());
    if fnv(case.as_bytes()) % 2 == 0 || case == "idx-corpus" {
        let back = guarded(|| -> std::io::Result<bgzf::gzi::Index> {
            let mut w = bgzf::gzi::io::Writer::new(Vec::new());
            w.write_index(&index)?;
            let buf = w.into_inner();
            bgzf::gzi::io::Reader::new(&buf[..]).read_index()
        });
        match back {
            Ok(Ok(ix)) if ix == index => {
                ctx.bump("idx_index_through_gzi_file");
                index = ix;
            }
            other => {
                ctx.fail("indexed-differs-from-cursor", format!("a gzi index of {} entries written to its file format and read back is not the same index: {:?}", gzi.len(), other.map(|r| r.map(|ix| ix.as_ref().len()).map_err(|e| e.to_string()))), case.into());
                return;
            }
        }
    }
    let mut r = match bgzf::io::indexed_reader::Builder::default().set_index(index).build_from_reader(Cursor::new(file.to_vec())) {
        Ok(r) => r,
        Err(e) => {
            ctx.fail("indexed-differs-from-cursor", format!("Builder::build_from_reader with an index failed: {e}"), case.into());
            return;
        }
    };
    let mut cur = Cursor::new(t.flat.clone());
    // `synced`: the cursor stands where the reader stands (lost after an error the cursor does not share)
    let mut synced = true;
    let mut last_fill = 0usize;
    let mut answers = vec![];
    let mut failed: Option<String> = None;
    let last_full = layout.last().map(|b| b.data.len() == 65536).unwrap_or(false);
    for (i, op) in ops.iter().enumerate() {
        let res: Result<Result<String, String>, String> = guarded(|| match op {
            Op::Read(n) => {
                let mut buf = vec![0u8; *n];
                match r.read(&mut buf) {
                    Ok(k) => {
                        buf.truncate(k);
                        if oracle && synced {
                            let at = cur.position() as usize;
                            let mut want = vec![0u8; k];
                            let ok = cur.read_exact(&mut want).is_ok() && want == buf && (k > 0 || *n == 0 || at == total);
                            if !ok {
                                return Err(format!("read({n}) at offset {at} of {total} returned {k} bytes that are not what Cursor holds there (or nothing before the end)"));
                            }
                        }
                        Ok(fmt_bytes(&buf))
                    }
                    Err(e) => {
                        if oracle {
                            return Err(format!("read({n}) failed on a well-formed file: {e}"));
                        }
                        Ok(errclass(&e).to_string())
                    }
                }
            }
            Op::ReadExact(n) => {
                let mut buf = vec![0u8; *n];
                let got = r.read_exact(&mut buf);
                if oracle && synced {
                    let at = cur.position() as usize;
                    let mut want = vec![0u8; *n];
                    let w = cur.read_exact(&mut want);
                    match (&got, &w) {
                        (Ok(()), Ok(())) if buf == want => {}
                        (Err(a), Err(b)) if a.kind() == b.kind() => {}
                        _ => return Err(format!("read_exact({n}) at offset {at} of {total}: reader {:?}, Cursor {:?} (or different bytes)", got.as_ref().map_err(|e| e.kind()), w.as_ref().map_err(|e| e.kind()))),
                    }
                }
                match got {
                    Ok(()) => Ok(fmt_bytes(&buf)),
                    Err(e) => Ok(errclass(&e).to_string()),
                }
            }
            Op::FillBuf => match r.fill_buf() {
                Ok(b) => {
                    let b = b.to_vec();
                    if oracle && synced {
                        let at = cur.position() as usize;
                        let want = cur.fill_buf().unwrap();
                        if !(want.starts_with(&b) && b.is_empty() == want.is_empty()) {
                            return Err(format!("fill_buf at offset {at} of {total} returned {} bytes that are not a prefix of what Cursor exposes (or empty before the end)", b.len()));
                        }
                    }
                    last_fill = b.len();
                    Ok(fmt_bytes(&b))
                }
                Err(e) => {
                    if oracle {
                        return Err(format!("fill_buf failed on a well-formed file: {e}"));
                    }
                    Ok(errclass(&e).to_string())
                }
            },
            Op::Consume(n) => {
                // BufRead contract: at most what fill_buf exposed; the reader clamps, Cursor does not
                r.consume(*n);
                if oracle && synced {
                    cur.consume((*n).min(last_fill));
                }
                last_fill = 0;
                Ok("ok".into())
            }
            Op::Start(p) => match r.seek(SeekFrom::Start(*p)) {
                Ok(q) => {
                    if oracle {
                        let w = cur.seek(SeekFrom::Start(*p)).unwrap();
                        if q != w || *p as usize > total {
                            return Err(format!("seek(Start({p})) of {total} returned {q}, Cursor {w} (beyond the end the reader is expected to refuse)"));
                        }
                        synced = true;
                    }
                    Ok(format!("p{q}"))
                }
                Err(e) => {
                    if oracle {
                        if (*p as usize) < total || (*p as usize == total && !last_full) {
                            return Err(format!("seek(Start({p})) of {total} failed: {e}"));
                        }
                        synced = false;
                    }
                    Ok(errclass(&e).to_string())
                }
            },
            Op::Current(d) => r.seek(SeekFrom::Current(*d)).map(|q| format!("p{q}")).or_else(|e| Ok(errclass(&e).to_string())),
            Op::End(d) => r.seek(SeekFrom::End(*d)).map(|q| format!("p{q}")).or_else(|e| Ok(errclass(&e).to_string())),
            Op::StreamPosition => r.stream_position().map(|q| format!("p{q}")).or_else(|e| Ok(errclass(&e).to_string())),
            Op::Position => Ok(format!("p{}", r.position())),
            Op::VPos => {
                let (c, u) = r.virtual_position().into();
                Ok(format!("v{c}/{u}"))
            }
        });
        let a = match res {
            Ok(Ok(a)) => a,
            Ok(Err(text)) => {
                failed = Some(format!("op {i} {op:?}: {text}"));
                break;
            }
            Err(_p) => "panic".to_string(),
        };
        ctx.bump(&format!(
            "idx_op_{}",
            match (op, a.as_str()) {
                (Op::Start(_), "err:invalid-input") => "seek_start_err_invalid_input",
                (Op::Start(_), "err:invalid-data") => "seek_start_err_invalid_data",
                (Op::Start(p), _) if *p as usize == total => "seek_start_end_ok",
                (Op::Start(_), _) => "seek_start_ok",
                (Op::Current(_), "panic") | (Op::End(_), "panic") => "seek_current_end_unimplemented_panic",
                (Op::StreamPosition, "panic") => "stream_position_unimplemented_panic",
                (Op::Current(_), _) | (Op::End(_), _) | (Op::StreamPosition, _) => "seek_relative_other",
                (Op::Read(n), _) if *n >= 65536 => "read_direct_path",
                (Op::Read(_), _) => "read",
                (Op::ReadExact(_), "err:eof") => "read_exact_eof",
                (Op::ReadExact(_), _) => "read_exact",
                (Op::FillBuf, "-") => "fill_buf_at_end",
                (Op::FillBuf, _) => "fill_buf",
                (Op::Consume(_), _) => "consume",
                (Op::Position, _) => "position",
                (Op::VPos, _) => "virtual_position",
            }
        ));
        let (c, u): (u64, u16) = r.virtual_position().into();
        answers.push(format!("{a}@{c}/{u}#{}", r.position()));
        if oracle {
            let named = resolve(layout, &t, c, u);
            if synced {
                if named != Some(cur.position() as usize) {
                    failed = Some(format!("after op {i} {op:?} the reader reports ({c},{u}) which names flat offset {named:?}, Cursor stands at {}", cur.position()));
                    break;
                }
            } else {
                match named {
                    // a refused seek leaves the reader at SOME byte boundary: follow it
                    Some(o) => {
                        cur.set_position(o as u64);
                        synced = true;
                    }
                    None => {
                        failed = Some(format!("after op {i} {op:?} the reader reports ({c},{u}) which is not a byte boundary of the file"));
                        break;
                    }
                }
            }
        }
    }
    if oracle {
        ctx.eval(if layout.len() >= 2 && ops.len() >= 2 { Some(fnv(case.as_bytes())) } else { None });
    }
    if let Some(text) = failed {
        ctx.fail("indexed-differs-from-cursor", format!("{text}; layout sizes {:?}, ops {}", layout.iter().map(|b| b.data.len()).collect::<Vec<_>>(), fmt_ops(ops)), case.into());
        return;
    }
    if emit_corr {
        ctx.corr(format!("c02 idx {} {} {}", fmt_layout(layout), fmt_gzi(gzi), fmt_ops(ops)), if answers.is_empty() { "-".into() } else { answers.join(" ") });
    }
}

/// seek(Start(p)), then the read-until-0 loop with a buffer of `n` bytes: exactly `payload[p..]`
/// (Lean `indexed_seek_then_read_all`; model function `IR.readAll`)
fn read_all_case(ctx: &mut Ctx, file: &[u8], layout: &[Blk], p: usize, n: usize, case: &str, emit_corr: bool) {
    let t = table(layout);
    let total = t.flat.len();
    let gzi = gzi_of(&t, layout.len());
    let got = guarded(|| -> std::io::Result<Vec<u8>> {
        let mut r = bgzf::io::IndexedReader::new(Cursor::new(file.to_vec()), bgzf::gzi::Index::from(gzi.clone()));
        r.seek(SeekFrom::Start(p as u64))?;
        let mut out = vec![];
        let mut buf = vec![0u8; n];
        loop {
            let k = r.read(&mut buf)?;
            if k == 0 {
                break;
            }
            out.extend_from_slice(&buf[..k]);
        }
        Ok(out)
    });
    ctx.eval(Some(fnv(format!("{case} {p} {n}").as_bytes())));
    let last_full = layout.last().map(|b| b.data.len() == 65536).unwrap_or(false);
    let served = p < total || (p == total && !last_full);
    let a = match got {
        Ok(Ok(out)) => {
            if !(served && out == t.flat[p..]) {
                ctx.fail("indexed-differs-from-cursor", format!("seek(Start({p})) of {total} + read loop with a {n}-byte buffer delivered {} bytes, Cursor delivers {}", out.len(), total.saturating_sub(p)), case.into());
                return;
            }
            ctx.bump("idx_read_all_ok");
            fmt_bytes(&out)
        }
        Ok(Err(e)) => {
            if served {
                ctx.fail("indexed-differs-from-cursor", format!("seek(Start({p})) of {total} + read loop failed on a well-formed file: {e}"), case.into());
                return;
            }
            ctx.bump("idx_read_all_seek_refused");
            errclass(&e).to_string()
        }
        Err(p) => {
            ctx.fail("indexed-differs-from-cursor", format!("seek + read loop panicked: {p}"), case.into());
            return;
        }
    };
    if emit_corr {
        ctx.corr(format!("c02 idxall {} {} {p} {n}", fmt_layout(layout), fmt_gzi(&gzi)), a);
    }
}

fn read_all_of(sub: u64) -> (Vec<u8>, Vec<Blk>, usize, usize) {
    let mut rng = Rng::new(sub);
    let (file, layout) = gen_file(&mut rng);
    let t = table(&layout);
    let total = t.flat.len();
    let k = rng.below(layout.len() as u64 + 1) as usize;
    let p = match rng.below(6) {
        0 => t.uoff[k],
        1 => t.uoff[k].saturating_sub(1),
        2 => total,
        3 => total + 1,
        _ => rng.below(total as u64 + 1) as usize,
    };
    let n = *rng.pick(&[1usize, 2, 7, 64, 4096, 65535, 65536, 100_000]);
    // keep the 1-byte loop for small payloads
    let n = if total > 5000 && n < 64 { 4096 } else { n };
    (file, layout, p, n)
}

/// `Index::query` alone, on sorted indices of any content
fn query_case(ctx: &mut Ctx, g: &[(u64, u64)], pos: u64) {
    let ix = bgzf::gzi::Index::from(g.to_vec());
    let a = match guarded(|| ix.query(pos)) {
        Ok(Ok(v)) => {
            let (c, u): (u64, u16) = v.into();
            ctx.bump("idxq_ok");
            format!("v{c}/{u}")
        }
        Ok(Err(e)) => {
            ctx.bump(&format!("idxq_{}", errclass(&e)));
            errclass(&e).to_string()
        }
        Err(_) => {
            ctx.bump("idxq_panic");
            "panic".into()
        }
    };
    ctx.corr(format!("c02 idxq {} {pos}", fmt_gzi(g)), a);
}

/// `slice::partition_point` as std executes it, on sorted AND unsorted slices, against the Lean
/// transcription of the binary search (`IR.partitionPointBS`)
fn pp_case(ctx: &mut Ctx, g: &[(u64, u64)], pos: u64) {
    let i = g.partition_point(|r| r.1 <= pos);
    ctx.bump(if g.windows(2).all(|w| w[0].1 <= w[1].1) { "idxpp_sorted" } else { "idxpp_unsorted" });
    ctx.corr(format!("c02 idxpp {} {pos}", fmt_gzi(g)), i.to_string());
}

fn gen_query(rng: &mut Rng) -> (Vec<(u64, u64)>, u64) {
    let n = rng.below(7);
    let mut g = vec![];
    let mut c = 0u64;
    let mut u = 0u64;
    for _ in 0..n {
        c += *rng.pick(&[28u64, 100, 65536, 1 << 40, 1 << 47, 1 << 48]);
        u += *rng.pick(&[0u64, 0, 1, 7, 65535, 65536, 65537, 1 << 33]);
        g.push((c, u));
    }
    let pos = match rng.below(6) {
        0 => 0,
        1 => u,
        2 => u + *rng.pick(&[1u64, 65535, 65536, 1 << 20]),
        _ => {
            let e = if g.is_empty() { 0 } else { g[rng.below(g.len() as u64) as usize].1 };
            (e + *rng.pick(&[0u64, 1, 65535, 65536])).saturating_sub(rng.below(2))
        }
    };
    (g, pos)
}

fn case_of(sub: u64, ctx: &mut Ctx) -> (Vec<u8>, Vec<Blk>, Vec<(u64, u64)>, Vec<Op>, bool) {
    let mut rng = Rng::new(sub);
    let (file, layout) = gen_file(&mut rng);
    let built = rng.chance(3, 5);
    let gzi = if built { gzi_of(&table(&layout), layout.len()) } else { gen_hand_index(&mut rng, &layout, ctx) };
    let ops = gen_ops(&mut rng, &layout);
    (file, layout, gzi, ops, built)
}

pub fn replay(ctx: &mut Ctx, case: &[String]) -> bool {
    match case.first().map(|s| s.as_str()) {
        Some("idx") => {
            let sub: u64 = case.get(1).and_then(|s| s.parse().ok()).unwrap_or(0);
            let (file, layout, gzi, ops, built) = case_of(sub, ctx);
            run_case(ctx, &file, &layout, &gzi, &ops, &format!("idx {sub}"), built, false);
            true
        }
        Some("idx-all") => {
            let sub: u64 = case.get(1).and_then(|s| s.parse().ok()).unwrap_or(0);
            let (file, layout, p, n) = read_all_of(sub);
            read_all_case(ctx, &file, &layout, p, n, &format!("idx-all {sub}"), false);
            true
        }
        Some("idx-corpus") => {
            corpus(ctx);
            true
        }
        _ => false,
    }
}

pub fn run(ctx: &mut Ctx) {
    corpus(ctx);
    let n = ctx.n(700, 30_000);
    for it in 0..n {
        let sub = ctx.seed.wrapping_mul(9_100_019).wrapping_add(it);
        let (file, layout, gzi, ops, built) = case_of(sub, ctx);
        let big = layout.iter().map(|b| b.data.len()).sum::<usize>() > 100_000;
        run_case(ctx, &file, &layout, &gzi, &ops, &format!("idx {sub}"), built, !big || it % 4 == 0);
        ctx.bump(if built { "idx_index_built" } else { "idx_index_hand" });
        ctx.bump(&format!("idx_members_{:02}", layout.len()));
        if layout.iter().take(layout.len().saturating_sub(1)).any(|b| b.data.is_empty()) {
            ctx.bump("idx_layout_with_empty_member_mid_file");
        }
        if layout.last().map(|b| !b.data.is_empty()).unwrap_or(false) {
            ctx.bump("idx_layout_without_eof_marker");
        }
        if layout.last().map(|b| b.data.len() == 65536).unwrap_or(false) {
            ctx.bump("idx_layout_last_member_full_64KiB");
        }
        if it % 10 == 0 && !big {
            // the index OF the file, as the model computes it, is the one the harness scans
            ctx.corr(format!("c02 idxof {}", fmt_layout(&layout)), fmt_gzi(&gzi_of(&table(&layout), layout.len())));
        }
    }
    let n = ctx.n(150, 6_000);
    for it in 0..n {
        let sub = ctx.seed.wrapping_mul(9_100_027).wrapping_add(it);
        let (file, layout, p, n) = read_all_of(sub);
        let big = layout.iter().map(|b| b.data.len()).sum::<usize>() > 100_000;
        read_all_case(ctx, &file, &layout, p, n, &format!("idx-all {sub}"), !big || it % 4 == 0);
    }
    let n = ctx.n(400, 20_000);
    for it in 0..n {
        let mut rng = Rng::new(ctx.seed.wrapping_mul(9_100_021).wrapping_add(it));
        let (g, pos) = gen_query(&mut rng);
        query_case(ctx, &g, pos);
        pp_case(ctx, &g, pos);
        // any slice, any order, lengths 0..40
        let len = rng.below(41);
        let sorted = rng.chance(1, 2);
        let mut h: Vec<(u64, u64)> = (0..len).map(|k| (k, rng.below(12))).collect();
        if sorted {
            h.sort_by_key(|e| e.1);
        }
        pp_case(ctx, &h, rng.below(13));
    }
    // Builder::build_from_reader: the index is mandatory
    let a = match bgzf::io::indexed_reader::Builder::default().build_from_reader(Cursor::new(Vec::new())) {
        Ok(_) => "ok -".to_string(),
        Err(e) => errclass(&e).to_string(),
    };
    ctx.corr("c02 idxbuild none".into(), a);
    let a = match bgzf::io::indexed_reader::Builder::default().set_index(bgzf::gzi::Index::from(vec![(35, 7)])).build_from_reader(Cursor::new(Vec::new())) {
        Ok(r) => format!("ok {}", fmt_gzi(r.index().as_ref())),
        Err(e) => errclass(&e).to_string(),
    };
    ctx.corr("c02 idxbuild 35:7".into(), a);
    ctx.sample(|| "c02 idx 35:6e6f6f646c6573,28:-,31:62677a66,28:- 35:7,63:7,94:11 S7,r65536,S11,S12,S3,x4,p,q,t".into());
}

/// boundary cases, always first
fn corpus(ctx: &mut Ctx) {
    let a = stored_member(b"noodles");
    let b = stored_member(b"bgzf");
    let e = EOF.to_vec();
    let mut f = a.clone();
    f.extend_from_slice(&e);
    f.extend_from_slice(&e);
    f.extend_from_slice(&b);
    f.extend_from_slice(&e);
    let l = vec![
        Blk { csize: a.len(), data: b"noodles".to_vec() },
        Blk { csize: 28, data: vec![] },
        Blk { csize: 28, data: vec![] },
        Blk { csize: b.len(), data: b"bgzf".to_vec() },
        Blk { csize: 28, data: vec![] },
    ];
    let g = gzi_of(&table(&l), l.len());
    // every offset 0..=total+1, each followed by a read; then the unimplemented calls
    let mut ops = vec![];
    for p in 0..=12u64 {
        ops.push(Op::Start(p));
        ops.push(Op::VPos);
        ops.push(Op::Read(3));
    }
    ops.extend([Op::Start(5), Op::Start(5), Op::ReadExact(4), Op::StreamPosition, Op::Current(0), Op::End(0), Op::Position, Op::FillBuf, Op::Consume(1), Op::ReadExact(9), Op::Start(11), Op::Read(1), Op::Start(70_000), Op::Start(11 + 65536), Op::Read(1)]);
    run_case(ctx, &f, &l, &g, &ops, "idx-corpus", true, true);
    // the same file with: no index entries, a sparse index, an index with an unrepresentable offset
    run_case(ctx, &f, &l, &[], &ops, "idx-corpus", false, true);
    run_case(ctx, &f, &l, &[g[2]], &ops, "idx-corpus", false, true);
    run_case(ctx, &f, &l, &[g[0], g[1], (1 << 48, 9)], &ops, "idx-corpus", false, true);
    // single member without EOF marker; empty file; EOF marker only
    let l1 = vec![Blk { csize: a.len(), data: b"noodles".to_vec() }];
    let ops1 = vec![Op::Start(7), Op::Read(1), Op::Start(8), Op::VPos, Op::Start(0), Op::ReadExact(7), Op::Start(6), Op::Read(65536), Op::Read(65536)];
    run_case(ctx, &a, &l1, &[], &ops1, "idx-corpus", true, true);
    run_case(ctx, &[], &[], &[], &[Op::Start(0), Op::Read(1), Op::Start(1), Op::Start(65536), Op::VPos], "idx-corpus", true, true);
    run_case(ctx, &e, &[Blk { csize: 28, data: vec![] }], &[], &[Op::Start(0), Op::Read(1), Op::Start(1), Op::VPos], "idx-corpus", true, true);
    // the end of a stream whose last member holds a full 65536 bytes is refused (as coded; Lean
    // `indexed_seek_end_full_block`); with an EOF marker after it, it is served
    let d = vec![b'x'; 65536];
    let m = compressed_member(&d, 6);
    let lf = vec![Blk { csize: a.len(), data: b"noodles".to_vec() }, Blk { csize: m.len(), data: d.clone() }];
    let mut ff = a.clone();
    ff.extend_from_slice(&m);
    let gf = gzi_of(&table(&lf), lf.len());
    let opsf = vec![Op::Start(7 + 65536), Op::VPos, Op::Start(7 + 65535), Op::Read(5), Op::Start(7), Op::Read(70_000), Op::VPos];
    run_case(ctx, &ff, &lf, &gf, &opsf, "idx-corpus", true, true);
    let mut lfe = lf.clone();
    lfe.push(Blk { csize: 28, data: vec![] });
    let mut ffe = ff.clone();
    ffe.extend_from_slice(&e);
    let gfe = gzi_of(&table(&lfe), lfe.len());
    run_case(ctx, &ffe, &lfe, &gfe, &opsf, "idx-corpus", true, true);
    for (p, n) in [(0usize, 1usize), (7, 3), (11, 1), (12, 1), (6, 65536)] {
        read_all_case(ctx, &f, &l, p, n, "idx-corpus", true);
    }
    read_all_case(ctx, &ff, &lf, 7 + 65536, 10, "idx-corpus", true);
    read_all_case(ctx, &ff, &lf, 3, 65536, "idx-corpus", true);
    // Lean witnesses of `indexed_seek_beyond_end_errors`: [noodles-like 3 bytes, EOF], offsets 4 and 70000
    let c3 = stored_member(&[1, 2, 3]);
    let mut f3 = c3.clone();
    f3.extend_from_slice(&e);
    let l3 = vec![Blk { csize: c3.len(), data: vec![1, 2, 3] }, Blk { csize: 28, data: vec![] }];
    let g3 = gzi_of(&table(&l3), l3.len());
    run_case(ctx, &f3, &l3, &g3, &[Op::Start(4), Op::VPos, Op::Start(70_000), Op::VPos, Op::Start(3), Op::Read(1)], "idx-corpus", true, true);
    query_case(ctx, &g3, 4);
    query_case(ctx, &g3, 70_000);
    // Index::query doc example and edge entries
    let gd = vec![(8u64, 21u64), (13, 55)];
    for p in [0u64, 13, 20, 21, 34, 54, 55, 89, 55 + 65535, 55 + 65536] {
        query_case(ctx, &gd, p);
    }
    query_case(ctx, &[], 65535);
    query_case(ctx, &[], 65536);
    query_case(ctx, &[((1 << 48) - 1, 5)], 5);
    query_case(ctx, &[(1 << 48, 5)], 5);
    query_case(ctx, &[(1 << 48, 5)], 4);
}
