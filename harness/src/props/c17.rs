//! C17 — binning soundness, chunk merging coverage, index files round trip.
use crate::common::*;
use indexmap::IndexMap;
use noodles_bgzf as bgzf;
use noodles_core::Position;
use noodles_csi::{
    self as csi,
    binning_index::{
        self,
        index::{
            reference_sequence::{bin::Chunk, index::BinnedIndex, index::LinearIndex, Bin, Metadata},
            Header, ReferenceSequence,
        },
        BinningIndex, Indexer, ReferenceSequence as _,
    },
};

pub fn pos(n: usize) -> Position {
    Position::try_from(n).unwrap()
}
pub fn vp(n: u64) -> bgzf::VirtualPosition {
    bgzf::VirtualPosition::from(n)
}
pub fn ch(s: u64, e: u64) -> Chunk {
    Chunk::new(vp(s), vp(e))
}

/// number of bins for a depth, computed independently: sum 8^l, l = 0..=depth
pub fn nbins(depth: u8) -> usize {
    (0..=depth as u32).map(|l| 8usize.pow(l)).sum()
}
pub fn maxpos(ms: u8, d: u8) -> usize {
    (1usize << (ms as usize + 3 * d as usize)) - 1
}

/// The real `reg2bin`, observed through the public indexer: add one record, read the bin id.
pub fn impl_reg2bin(ms: u8, d: u8, s: usize, e: usize) -> usize {
    let mut ix = Indexer::<LinearIndex>::new(ms, d);
    ix.add_record(Some((0, pos(s), pos(e), true)), ch(1, 2)).unwrap();
    let index = ix.build(1);
    let rs = &index.reference_sequences()[0];
    assert_eq!(rs.bins().len(), 1);
    *rs.bins().keys().next().unwrap()
}

/// A reference sequence in which every bin id is present; chunk start = bin id.
pub fn all_bins(d: u8) -> ReferenceSequence<LinearIndex> {
    let bins: IndexMap<usize, Bin> = (0..nbins(d))
        .map(|i| (i, Bin::new(vec![ch(i as u64, i as u64 + 1)])))
        .collect();
    ReferenceSequence::new(bins, Vec::new(), None)
}

/// The real `reg2bins`, observed through `ReferenceSequence::query` on the all-bins sequence.
pub fn impl_reg2bins(all: &ReferenceSequence<LinearIndex>, ms: u8, d: u8, s: usize, e: usize) -> Vec<usize> {
    let bins = all.query(ms, d, pos(s)..=pos(e)).unwrap();
    let mut ids: Vec<usize> = bins.iter().map(|b| u64::from(b.chunks()[0].start()) as usize).collect();
    ids.sort();
    ids
}

fn runs(ids: &[usize]) -> String {
    let mut out = vec![];
    let mut i = 0;
    while i < ids.len() {
        let mut j = i;
        while j + 1 < ids.len() && ids[j + 1] == ids[j] + 1 {
            j += 1;
        }
        out.push(format!("{}-{}", ids[i], ids[j]));
        i = j + 1;
    }
    if out.is_empty() { "-".into() } else { out.join(",") }
}

pub fn fmt_chunks(cs: &[Chunk]) -> String {
    if cs.is_empty() {
        return "-".into();
    }
    cs.iter()
        .map(|c| format!("{}:{}", u64::from(c.start()), u64::from(c.end())))
        .collect::<Vec<_>>()
        .join(",")
}
pub fn parse_chunks(s: &str) -> Vec<Chunk> {
    if s == "-" {
        return vec![];
    }
    s.split(',')
        .map(|p| {
            let (a, b) = p.split_once(':').unwrap();
            ch(a.parse().unwrap(), b.parse().unwrap())
        })
        .collect()
}

fn gen_interval(rng: &mut Rng, ms: u8, d: u8) -> (usize, usize) {
    let mp = maxpos(ms, d);
    // bias to bin edges of a random level
    let lvl = rng.below(d as u64 + 1) as usize;
    let w = 1usize << (ms as usize + 3 * lvl);
    let edge = |rng: &mut Rng| -> usize {
        let k = rng.below((mp / w) as u64 + 1) as usize;
        let base = k * w;
        let delta = rng.below(5) as i64 - 2;
        ((base as i64 + delta).clamp(1, mp as i64)) as usize
    };
    let a = if rng.chance(2, 3) { edge(rng) } else { rng.range(1, mp as u64) as usize };
    let b = match rng.below(4) {
        0 => a,
        1 => (a + rng.below(3 * w as u64) as usize).min(mp),
        2 => edge(rng),
        _ => rng.range(1, mp as u64) as usize,
    };
    (a.min(b), a.max(b))
}

pub fn run(ctx: &mut Ctx) {
    if let Some(case) = ctx.replay_only.clone() {
        replay(ctx, &case);
        return;
    }
    binning(ctx);
    chunks(ctx);
    min_offsets(ctx);
    roundtrips(ctx);
    // index files against the byte-level models (BAI / CSI / tabix / gzi / fai / crai)
    super::c17_index::run(ctx);
    super::c17_reach::run(ctx);
}

fn check_containment(ctx: &mut Ctx, ms: u8, d: u8, f: (usize, usize), r: (usize, usize), fb: usize, rbins: &[usize]) {
    let inter = f.0 <= r.1 && r.0 <= f.1;
    if !inter {
        return;
    }
    ctx.eval(Some(fnv(format!("cont {ms} {d} {f:?} {r:?}").as_bytes())));
    if rbins.binary_search(&fb).is_err() {
        ctx.fail(
            "containment",
            format!("geometry ({ms},{d}): feature {}-{} has bin {fb}, not among bins of intersecting region {}-{}", f.0, f.1, r.0, r.1),
            format!("containment {ms} {d} {} {} {} {}", f.0, f.1, r.0, r.1),
        );
    }
}

fn binning(ctx: &mut Ctx) {
    // exhaustive over all interval pairs in the smallest geometries
    let exhaustive: &[(u8, u8)] = if ctx.tier_thorough { &[(1, 1), (2, 1), (3, 1), (1, 2)] } else { &[(1, 1), (2, 1), (3, 1)] };
    for &(ms, d) in exhaustive {
        let mp = maxpos(ms, d);
        let all = all_bins(d);
        let mut ivs = vec![];
        for s in 1..=mp {
            for e in s..=mp {
                ivs.push((s, e));
            }
        }
        let fbins: Vec<usize> = ivs.iter().map(|&(s, e)| impl_reg2bin(ms, d, s, e)).collect();
        let rbins: Vec<Vec<usize>> = ivs.iter().map(|&(s, e)| impl_reg2bins(&all, ms, d, s, e)).collect();
        // correspondence: every interval of the geometry (bounded count for the larger ones)
        let stride = (ivs.len() / 2500).max(1);
        for (i, &(s, e)) in ivs.iter().enumerate() {
            if i % stride == 0 {
                ctx.corr(format!("c17 reg2bin {ms} {d} {s} {e}"), format!("{}", fbins[i]));
                ctx.corr(format!("c17 reg2bins {ms} {d} {s} {e}"), runs(&rbins[i]));
            }
        }
        let before = ctx.failures.len();
        for (i, &f) in ivs.iter().enumerate() {
            for (j, &r) in ivs.iter().enumerate() {
                if f.0 <= r.1 && r.0 <= f.1 {
                    ctx.oracle_evals += 1;
                    if rbins[j].binary_search(&fbins[i]).is_err() && ctx.failures.len() < before + 5 {
                        check_containment(ctx, ms, d, f, r, fbins[i], &rbins[j]);
                    }
                }
            }
        }
        ctx.bump_by(&format!("exhaustive_geometry_{ms}_{d}_intervals"), ivs.len() as u64);
    }
    // sampled: small geometries (1..3 x 1..3), default (14,5), other CSI geometries
    let mut geoms: Vec<(u8, u8)> = vec![];
    for ms in 1..=3 {
        for d in 1..=3 {
            geoms.push((ms, d));
        }
    }
    geoms.extend_from_slice(&[(14, 5), (14, 6), (12, 5), (16, 4), (10, 6), (14, 1), (20, 3), (1, 5)]);
    let per = ctx.n(400, 20000);
    for &(ms, d) in &geoms {
        let all = all_bins(d);
        for _ in 0..per {
            let f = gen_interval(&mut ctx.rng, ms, d);
            // region: intersecting with high probability
            let r = if ctx.rng.chance(3, 4) {
                let mp = maxpos(ms, d);
                let a = ctx.rng.range(1, f.1 as u64) as usize;
                let lo = a.max(f.0);
                let b = ctx.rng.range(lo as u64, mp as u64) as usize;
                let b = if ctx.rng.chance(1, 2) { lo + (b - lo) % 40 } else { b };
                (a, b.min(mp))
            } else {
                gen_interval(&mut ctx.rng, ms, d)
            };
            let fb = impl_reg2bin(ms, d, f.0, f.1);
            let rb = impl_reg2bins(&all, ms, d, r.0, r.1);
            ctx.corr(format!("c17 reg2bin {ms} {d} {} {}", f.0, f.1), format!("{fb}"));
            ctx.corr(format!("c17 reg2bins {ms} {d} {} {}", r.0, r.1), runs(&rb));
            check_containment(ctx, ms, d, f, r, fb, &rb);
            ctx.bump(&format!("sampled_geometry_{ms}_{d}"));
        }
    }
    ctx.sample(|| "c17 reg2bin 14 5 16384 16385 ; c17 reg2bins 14 5 1 536870911".into());
}

fn gen_chunks(rng: &mut Rng) -> Vec<Chunk> {
    let n = rng.below(9) as usize;
    let span = *rng.pick(&[20u64, 60, 1000, 1 << 20]);
    (0..n)
        .map(|_| {
            let s = rng.below(span);
            let e = match rng.below(5) {
                0 => s,              // empty chunk
                1 => s + 1,
                _ => s + rng.below(span / 3 + 2),
            };
            ch(s, e)
        })
        .collect()
}

fn covered(cs: &[Chunk], x: u64) -> bool {
    cs.iter().any(|c| u64::from(c.start()) <= x && x < u64::from(c.end()))
}

fn check_optimize(ctx: &mut Ctx, input: &[Chunk], min: u64) {
    let out = binning_index::optimize_chunks(input, vp(min));
    let retained: Vec<Chunk> = input.iter().copied().filter(|c| u64::from(c.end()) > min).collect();
    let key = fnv(format!("{} {}", fmt_chunks(input), min).as_bytes());
    ctx.eval(if retained.len() >= 2 { Some(key) } else { None });
    // every point covered by a retained chunk is covered by the output; no new coverage
    let mut pts: Vec<u64> = vec![];
    for c in input.iter().chain(out.iter()) {
        for p in [u64::from(c.start()), u64::from(c.end())] {
            pts.extend_from_slice(&[p.saturating_sub(1), p, p + 1]);
        }
    }
    let case = format!("optimize {min} {}", fmt_chunks(input));
    for &x in &pts {
        if covered(&retained, x) && !covered(&out, x) {
            ctx.fail("optimize-uncovers", format!("offset {x} covered by a retained chunk is not covered by the optimized list {}", fmt_chunks(&out)), case.clone());
            return;
        }
        if covered(&out, x) && !covered(&retained, x) {
            ctx.fail("optimize-invents", format!("offset {x} covered by optimized list {} but by no retained chunk", fmt_chunks(&out)), case.clone());
            return;
        }
    }
    for w in out.windows(2) {
        if !(w[0].end() < w[1].start()) {
            ctx.fail("optimize-unsorted", format!("optimized list not sorted/disjoint: {}", fmt_chunks(&out)), case.clone());
            return;
        }
    }
}

fn check_addchunk(ctx: &mut Ctx, input: &[Chunk]) {
    let mut bin = Bin::new(vec![]);
    for c in input {
        bin.add_chunk(*c);
    }
    ctx.eval(if input.len() >= 2 { Some(fnv(fmt_chunks(input).as_bytes())) } else { None });
    let out = bin.chunks();
    let mut pts: Vec<u64> = vec![];
    for c in input {
        pts.extend_from_slice(&[u64::from(c.start()), u64::from(c.end()).saturating_sub(1)]);
    }
    for &x in &pts {
        if covered(input, x) && !covered(out, x) {
            ctx.fail("addchunk-uncovers", format!("offset {x} covered by an added chunk is not covered by the bin's chunks {}", fmt_chunks(out)), format!("addchunk {}", fmt_chunks(input)));
            return;
        }
    }
}

fn chunks(ctx: &mut Ctx) {
    let n = ctx.n(1500, 100_000);
    for i in 0..n {
        let cs = gen_chunks(&mut ctx.rng);
        let min = if cs.is_empty() || ctx.rng.chance(1, 4) {
            ctx.rng.below(50)
        } else {
            let c = *ctx.rng.pick(&cs);
            let b = if ctx.rng.chance(1, 2) { u64::from(c.end()) } else { u64::from(c.start()) };
            (b + ctx.rng.below(3)).saturating_sub(1)
        };
        if i < 1500 {
            let out = binning_index::optimize_chunks(&cs, vp(min));
            ctx.corr(format!("c17 optimize {min} {}", fmt_chunks(&cs)), fmt_chunks(&out));
        }
        check_optimize(ctx, &cs, min);
        // add_chunk is fed the extents of consecutive records: in file order, non-empty,
        // each starting at or after the end of the previous one (touching = same block run)
        let mut ordered: Vec<Chunk> = vec![];
        let mut o = ctx.rng.below(100);
        for _ in 0..cs.len() {
            if ctx.rng.chance(1, 3) {
                o += 1 + ctx.rng.below(70000);
            }
            let e = o + 1 + ctx.rng.below(400);
            ordered.push(ch(o, e));
            o = e;
        }
        if i < 1500 {
            let mut bin = Bin::new(vec![]);
            for c in &ordered {
                bin.add_chunk(*c);
            }
            ctx.corr(format!("c17 addchunks {}", fmt_chunks(&ordered)), fmt_chunks(bin.chunks()));
        }
        check_addchunk(ctx, &ordered);
        ctx.bump(&format!("chunklist_len_{}", cs.len()));
    }
    ctx.sample(|| "c17 optimize 5 2:3,5:8,7:13,21:34".into());
}

fn min_offsets(ctx: &mut Ctx) {
    use csi::binning_index::index::reference_sequence::Index as _;
    let n = ctx.n(600, 20000);
    for _ in 0..n {
        let (ms, d) = *ctx.rng.pick(&[(1u8, 1u8), (2, 2), (3, 3), (14, 5), (14, 6), (12, 4)]);
        let nb = nbins(d);
        let k = ctx.rng.below(7) as usize;
        let mut m: BinnedIndex = IndexMap::new();
        for _ in 0..k {
            let id = if ctx.rng.chance(1, 3) { ctx.rng.below(9.min(nb as u64)) as usize } else { ctx.rng.below(nb as u64) as usize };
            m.insert(id, vp(ctx.rng.below(1000)));
        }
        let start = gen_interval(&mut ctx.rng, ms, d).0;
        let rs: ReferenceSequence<BinnedIndex> = ReferenceSequence::new(IndexMap::new(), m.clone(), None);
        let got = u64::from(rs.min_offset(ms, d, pos(start)));
        let desc = m.iter().map(|(k, v)| format!("{}:{}", k, u64::from(*v))).collect::<Vec<_>>().join(",");
        ctx.corr(format!("c17 minoffset-binned {ms} {d} {start} {}", if desc.is_empty() { "-".into() } else { desc }), format!("{got}"));
        ctx.bump("minoffset_binned");
    }
    for _ in 0..n {
        let len = ctx.rng.below(6) as usize;
        let lin: LinearIndex = (0..len).map(|_| vp(ctx.rng.below(1000))).collect();
        let start = (ctx.rng.below(7) * 16384 + ctx.rng.below(3) * 16383 + 1) as usize;
        let got = u64::from(lin.min_offset(14, 5, pos(start)));
        let desc = lin.iter().map(|v| format!("{}", u64::from(*v))).collect::<Vec<_>>().join(",");
        ctx.corr(format!("c17 minoffset-linear {start} {}", if desc.is_empty() { "-".into() } else { desc }), format!("{got}"));
        ctx.bump("minoffset_linear");
    }
}

// ---------- index files: write → read → same index or at least same answers ----------

pub struct GenRec {
    pub rid: usize,
    pub s: usize,
    pub e: usize,
    pub mapped: bool,
    pub c: Chunk,
}

pub fn gen_sorted_records(rng: &mut Rng, ms: u8, d: u8, nref: usize) -> (Vec<GenRec>, u64) {
    let mp = maxpos(ms, d);
    let mut out = vec![];
    let mut off = 1000u64 + rng.below(5000);
    for rid in 0..nref {
        if rng.chance(1, 5) {
            continue; // empty reference
        }
        let n = rng.below(14) as usize;
        let mut starts: Vec<usize> = (0..n).map(|_| gen_interval(rng, ms, d).0).collect();
        starts.sort();
        for s in starts {
            let len = match rng.below(5) {
                0 => 0,
                1 => rng.below(1 << ms as u64) as usize,
                2 => rng.below(1 << (ms as u64 + 3)) as usize,
                3 => rng.below(1 << (ms as u64 + 6).min(40)) as usize,
                _ => rng.below(200) as usize,
            };
            let e = (s + len).min(mp);
            let sz = 1 + rng.below(300);
            // sometimes start a new block: compressed offset jumps, in-block offset resets
            let next = if rng.chance(1, 6) { ((off >> 16) + 1 + rng.below(3)) << 16 } else { off + sz };
            out.push(GenRec { rid, s, e, mapped: rng.chance(9, 10), c: ch(off, next) });
            off = next;
        }
    }
    (out, off)
}

fn queries_for(rng: &mut Rng, ms: u8, d: u8, recs: &[GenRec]) -> Vec<(usize, usize)> {
    let mp = maxpos(ms, d);
    let mut qs = vec![(1, mp), (1, 1), (mp, mp)];
    for r in recs.iter().take(12) {
        qs.push((r.s, r.s));
        qs.push((r.e, (r.e + 10).min(mp)));
        qs.push(((r.s + r.e) / 2, (r.s + r.e) / 2));
    }
    for _ in 0..6 {
        qs.push(gen_interval(rng, ms, d));
    }
    qs
}

fn same_answers<I: csi::binning_index::index::reference_sequence::Index>(
    ctx: &mut Ctx,
    kind: &str,
    a: &binning_index::Index<I>,
    b: &binning_index::Index<I>,
    qs: &[(usize, usize)],
    case: &str,
) -> bool {
    if a.reference_sequences().len() != b.reference_sequences().len() {
        ctx.fail(&format!("{kind}-roundtrip"), "reference sequence count changed".into(), case.into());
        return false;
    }
    for rid in 0..a.reference_sequences().len() {
        for &(s, e) in qs {
            let iv = noodles_core::region::Interval::from(pos(s)..=pos(e));
            let qa = a.query(rid, iv).map(|c| fmt_chunks(&c)).map_err(|e| errclass(&e).to_string());
            let qb = b.query(rid, iv).map(|c| fmt_chunks(&c)).map_err(|e| errclass(&e).to_string());
            if qa != qb {
                ctx.fail(
                    &format!("{kind}-roundtrip"),
                    format!("query ref {rid} {s}-{e} answers {qa:?} before and {qb:?} after write+read"),
                    case.into(),
                );
                return false;
            }
        }
        let ma = a.reference_sequences()[rid].metadata().cloned();
        let mb = b.reference_sequences()[rid].metadata().cloned();
        if ma != mb {
            ctx.fail(&format!("{kind}-roundtrip"), format!("metadata of ref {rid} changed: {ma:?} -> {mb:?}"), case.into());
            return false;
        }
    }
    if a.unplaced_unmapped_record_count() != b.unplaced_unmapped_record_count() {
        ctx.fail(&format!("{kind}-roundtrip"), "unplaced unmapped count changed".into(), case.into());
        return false;
    }
    if a.header() != b.header() {
        ctx.fail(&format!("{kind}-roundtrip"), "tabix header changed".into(), case.into());
        return false;
    }
    // (CSI rewrites each bin's loffset to the minimum over its ancestor chain on output, so the
    // *maximum* loffset may move to an earlier position; it is only a seek hint for the unmapped
    // scan. For linear indexes it is the last linear offset and must be preserved exactly.)
    if kind != "csi" && a.last_first_record_start_position() != b.last_first_record_start_position() {
        ctx.fail(&format!("{kind}-roundtrip"), format!("last_first_record_start_position changed {:?} -> {:?}", a.last_first_record_start_position(), b.last_first_record_start_position()), case.into());
        return false;
    }
    true
}

/// An index BUILT by the indexer from a sorted record stream answers every query with chunks that
/// cover the start offset of every mapped record intersecting the region: the bins of the region
/// contain the record's bin (containment) and pruning by the linear / per-bin offset keeps its chunk.
fn covers_records<I: csi::binning_index::index::reference_sequence::Index>(ctx: &mut Ctx, kind: &str, ix: &binning_index::Index<I>, recs: &[GenRec], qs: &[(usize, usize)], case: &str) {
    for &(s, e) in qs {
        if s > e {
            continue;
        }
        let iv = noodles_core::region::Interval::from(pos(s)..=pos(e));
        for rid in 0..ix.reference_sequences().len() {
            let Ok(chunks) = ix.query(rid, iv) else { continue };
            for r in recs.iter().filter(|r| r.rid == rid && r.mapped && r.s <= e && s <= r.e) {
                ctx.eval(None);
                let at = u64::from(r.c.start());
                if !covered(&chunks, at) {
                    ctx.fail(
                        &format!("{kind}-query-uncovers-record"),
                        format!("record {}..{} of ref {rid} at offset {at} intersects {s}-{e} but the query's chunks {} do not cover it", r.s, r.e, fmt_chunks(&chunks)),
                        case.into(),
                    );
                    return;
                }
            }
        }
    }
    ctx.bump(&format!("{kind}_query_covers_records"));
}

fn gen_header(rng: &mut Rng, nref: usize) -> Header {
    let mut b = match rng.below(4) {
        0 => Header::builder(),
        1 => csi::binning_index::index::header::Builder::bed(),
        2 => csi::binning_index::index::header::Builder::gff(),
        _ => csi::binning_index::index::header::Builder::vcf(),
    };
    let mut names = csi::binning_index::index::header::ReferenceSequenceNames::new();
    for i in 0..nref {
        let mut nm: Vec<u8> = match rng.below(4) {
            0 => format!("chr{i}").into_bytes(),
            1 => vec![b'a' + (i as u8 % 26); 1 + rng.below(40) as usize],
            _ => (0..1 + rng.below(12)).map(|_| 1 + rng.below(255) as u8).collect(), // any non-NUL bytes
        };
        nm.extend_from_slice(format!("_{i}").as_bytes());
        names.insert(nm.into());
    }
    if rng.chance(1, 2) {
        b = b.set_line_skip_count(rng.below(1000) as u32).set_line_comment_prefix(rng.below(256) as u8);
    }
    b.set_reference_sequence_names(names).build()
}

fn build_index<I>(recs: &[GenRec], ms: u8, d: u8, nref: usize, unplaced: u64, header: Option<Header>) -> binning_index::Index<I>
where
    I: csi::binning_index::index::reference_sequence::Index + Default,
{
    let mut ix = Indexer::<I>::new(ms, d);
    if let Some(h) = header {
        ix = ix.set_header(h);
    }
    for r in recs {
        ix.add_record(Some((r.rid, pos(r.s), pos(r.e), r.mapped)), r.c).unwrap();
    }
    for _ in 0..unplaced {
        ix.add_record(None, ch(0, 0)).unwrap();
    }
    ix.build(nref)
}

fn arbitrary_linear_index(rng: &mut Rng, nref: usize, header: Option<Header>) -> binning_index::Index<LinearIndex> {
    let rss: Vec<ReferenceSequence<LinearIndex>> = (0..nref)
        .map(|_| {
            let nb = rng.below(6);
            let mut bins = IndexMap::new();
            for _ in 0..nb {
                let id = rng.below(37449) as usize;
                let cs: Vec<Chunk> = (0..rng.below(4)).map(|_| { let s = rng.below(1 << 40); ch(s, s + rng.below(1 << 20)) }).collect();
                bins.insert(id, Bin::new(cs));
            }
            let lin: LinearIndex = (0..rng.below(8)).map(|_| vp(rng.below(1 << 40))).collect();
            let md = if rng.chance(1, 2) { Some(Metadata::new(vp(rng.below(1 << 30)), vp(rng.below(1 << 30)), rng.below(1000), rng.below(1000))) } else { None };
            ReferenceSequence::new(bins, lin, md)
        })
        .collect();
    let mut b = binning_index::Index::builder().set_reference_sequences(rss);
    if rng.chance(1, 2) {
        b = b.set_unplaced_unmapped_record_count(rng.below(1 << 33));
    }
    if let Some(h) = header {
        b = b.set_header(h);
    }
    b.build()
}

fn roundtrips(ctx: &mut Ctx) {
    let n = ctx.n(150, 8000);
    for it in 0..n {
        let sub = Rng::new(ctx.seed.wrapping_mul(1_000_003).wrapping_add(it)).0;
        one_roundtrip(ctx, sub);
    }
    index_text_roundtrips(ctx);
}

fn one_roundtrip(ctx: &mut Ctx, sub: u64) {
    let mut rng = Rng::new(sub);
    let case = format!("roundtrip {sub}");
    let nref = 1 + rng.below(4) as usize;
    // --- BAI (linear index, fixed geometry)
    {
        let (recs, _) = gen_sorted_records(&mut rng, 14, 5, nref);
        let unplaced = rng.below(4);
        let built = !rng.chance(1, 4);
        let idx: noodles_bam::bai::Index = if !built { arbitrary_linear_index(&mut rng, nref, None) } else { build_index(&recs, 14, 5, nref, unplaced, None) };
        let r = guarded(|| -> std::io::Result<noodles_bam::bai::Index> {
            let mut w = noodles_bam::bai::io::Writer::new(Vec::new());
            w.write_index(&idx)?;
            let buf = w.into_inner();
            noodles_bam::bai::io::Reader::new(&buf[..]).read_index()
        });
        ctx.eval(if recs.len() >= 2 { Some(fnv(format!("bai{sub}").as_bytes())) } else { None });
        match r {
            Ok(Ok(back)) => {
                let qs = queries_for(&mut rng, 14, 5, &recs);
                // BAI does not store an absent unplaced count distinctly from… compare answers, and equality when possible
                same_answers(ctx, "bai", &idx, &back, &qs, &case);
                if built {
                    covers_records(ctx, "bai", &back, &recs, &qs, &case);
                }
                if back != idx && idx.unplaced_unmapped_record_count().is_some() {
                    ctx.bump("bai_not_structurally_equal");
                }
            }
            Ok(Err(e)) => ctx.fail("bai-roundtrip", format!("write/read failed: {e}"), case.clone()),
            Err(p) => ctx.fail("bai-roundtrip", format!("panic: {p}"), case.clone()),
        }
        ctx.bump("bai_roundtrip");
    }
    // --- tabix
    {
        let (recs, _) = gen_sorted_records(&mut rng, 14, 5, nref);
        let header = gen_header(&mut rng, nref);
        let unplaced = rng.below(4);
        let built = !rng.chance(1, 4);
        let idx: noodles_tabix::Index = if !built { arbitrary_linear_index(&mut rng, nref, Some(header)) } else { build_index(&recs, 14, 5, nref, unplaced, Some(header)) };
        let r = guarded(|| -> std::io::Result<noodles_tabix::Index> {
            let mut w = noodles_tabix::io::Writer::new(Vec::new());
            w.write_index(&idx)?;
            w.try_finish()?;
            let buf = w.into_inner().into_inner();
            noodles_tabix::io::Reader::new(&buf[..]).read_index()
        });
        ctx.eval(if recs.len() >= 2 { Some(fnv(format!("tbi{sub}").as_bytes())) } else { None });
        match r {
            Ok(Ok(back)) => {
                let qs = queries_for(&mut rng, 14, 5, &recs);
                same_answers(ctx, "tabix", &idx, &back, &qs, &case);
                if built {
                    covers_records(ctx, "tabix", &back, &recs, &qs, &case);
                }
            }
            Ok(Err(e)) => ctx.fail("tabix-roundtrip", format!("write/read failed: {e}"), case.clone()),
            Err(p) => ctx.fail("tabix-roundtrip", format!("panic: {p}"), case.clone()),
        }
        ctx.bump("tabix_roundtrip");
    }
    // --- CSI (binned index, any geometry)
    {
        let (ms, d) = *rng.pick(&[(14u8, 5u8), (14, 5), (14, 6), (12, 5), (16, 4), (10, 6), (4, 2), (1, 1), (3, 3)]);
        let (recs, _) = gen_sorted_records(&mut rng, ms, d, nref);
        let header = if rng.chance(1, 2) { Some(gen_header(&mut rng, nref)) } else { None };
        let unplaced = rng.below(4);
        let idx: csi::Index = build_index(&recs, ms, d, nref, unplaced, header);
        let r = guarded(|| -> std::io::Result<csi::Index> {
            let mut w = csi::io::Writer::new(Vec::new());
            w.write_index(&idx)?;
            let buf = w.into_inner().finish()?;
            csi::io::Reader::new(&buf[..]).read_index()
        });
        ctx.eval(if recs.len() >= 2 { Some(fnv(format!("csi{sub}").as_bytes())) } else { None });
        match r {
            Ok(Ok(back)) => {
                let qs = queries_for(&mut rng, ms, d, &recs);
                same_answers(ctx, "csi", &idx, &back, &qs, &case);
                covers_records(ctx, "csi", &back, &recs, &qs, &case);
            }
            Ok(Err(e)) => ctx.fail("csi-roundtrip", format!("write/read failed: {e}"), case.clone()),
            Err(p) => ctx.fail("csi-roundtrip", format!("panic: {p}"), case.clone()),
        }
        ctx.bump(&format!("csi_roundtrip_{ms}_{d}"));
    }
    // --- gzi
    {
        let mut c = 0u64;
        let mut u = 0u64;
        let n = rng.below(8);
        let v: Vec<(u64, u64)> = (0..n)
            .map(|_| {
                c += 28 + rng.below(65000);
                u += rng.below(65537);
                (c, u)
            })
            .collect();
        let idx = bgzf::gzi::Index::from(v.clone());
        let r = guarded(|| -> std::io::Result<bgzf::gzi::Index> {
            let mut w = bgzf::gzi::io::Writer::new(Vec::new());
            w.write_index(&idx)?;
            let buf = w.into_inner();
            bgzf::gzi::io::Reader::new(&buf[..]).read_index()
        });
        ctx.eval(if n >= 2 { Some(fnv(format!("gzi{sub}").as_bytes())) } else { None });
        match r {
            Ok(Ok(back)) => {
                if back != idx {
                    ctx.fail("gzi-roundtrip", format!("index {v:?} read back as {:?}", back.as_ref()), case.clone());
                } else {
                    for off in [0, 1, u / 2, u, u + 1] {
                        let a = idx.query(off).map(u64::from).map_err(|e| errclass(&e));
                        let b = back.query(off).map(u64::from).map_err(|e| errclass(&e));
                        if a != b {
                            ctx.fail("gzi-roundtrip", format!("query {off}: {a:?} vs {b:?}"), case.clone());
                        }
                    }
                }
            }
            Ok(Err(e)) => ctx.fail("gzi-roundtrip", format!("write/read failed: {e}"), case.clone()),
            Err(p) => ctx.fail("gzi-roundtrip", format!("panic: {p}"), case.clone()),
        }
        ctx.bump("gzi_roundtrip");
    }
}

fn index_text_roundtrips(ctx: &mut Ctx) {
    use noodles_cram::crai;
    use noodles_fasta::fai;
    let n = ctx.n(200, 5000);
    for it in 0..n {
        // fai
        let k = ctx.rng.below(6);
        let recs: Vec<fai::Record> = (0..k)
            .map(|i| {
                let name: Vec<u8> = match ctx.rng.below(3) {
                    0 => format!("sq{i}").into_bytes(),
                    _ => {
                        // any bytes a FASTA name can hold: no whitespace/tab/newline
                        let mut v: Vec<u8> = (0..1 + ctx.rng.below(10)).map(|_| 33 + ctx.rng.below(94) as u8).collect();
                        v.extend_from_slice(format!("{i}").as_bytes());
                        v
                    }
                };
                let lb = 1 + ctx.rng.below(200);
                fai::Record::new(name, ctx.rng.below(1 << 40), ctx.rng.below(1 << 40), std::num::NonZero::new(lb).unwrap(), std::num::NonZero::new(lb + 1 + ctx.rng.below(2)).unwrap())
            })
            .collect();
        let idx = fai::Index::from(recs);
        let r = guarded(|| -> std::io::Result<fai::Index> {
            let mut w = fai::io::Writer::new(Vec::new());
            w.write_index(&idx)?;
            let buf = w.into_inner();
            fai::io::Reader::new(&buf[..]).read_index()
        });
        ctx.eval(if k >= 2 { Some(fnv(format!("fai{it}{:?}", idx).as_bytes())) } else { None });
        match r {
            Ok(Ok(back)) if back == idx => {}
            Ok(Ok(back)) => ctx.fail("fai-roundtrip", format!("{idx:?} read back as {back:?}"), format!("fai-seeded {} {it}", ctx.seed)),
            Ok(Err(e)) => ctx.fail("fai-roundtrip", format!("write/read of {idx:?} failed: {e}"), format!("fai-seeded {} {it}", ctx.seed)),
            Err(p) => ctx.fail("fai-roundtrip", format!("panic: {p}"), format!("fai-seeded {} {it}", ctx.seed)),
        }
        ctx.bump("fai_roundtrip");
        // crai
        let k = ctx.rng.below(6);
        let recs: Vec<crai::Record> = (0..k)
            .map(|_| {
                let (rid, st, span) = if ctx.rng.chance(1, 5) {
                    (None, None, 0)
                } else {
                    (Some(ctx.rng.below(100) as usize), Position::new(1 + ctx.rng.below(1 << 30) as usize), ctx.rng.below(1 << 20) as usize)
                };
                crai::Record::new(rid, st, span, ctx.rng.below(1 << 40), ctx.rng.below(1 << 20), ctx.rng.below(1 << 30))
            })
            .collect();
        let r = guarded(|| -> std::io::Result<crai::Index> {
            let mut w = crai::io::Writer::new(Vec::new());
            w.write_index(&recs)?;
            let buf = w.finish()?;
            crai::io::Reader::new(&buf[..]).read_index()
        });
        ctx.eval(if k >= 2 { Some(fnv(format!("crai{it}{:?}", recs).as_bytes())) } else { None });
        match r {
            Ok(Ok(back)) if back == recs => {}
            Ok(Ok(back)) => ctx.fail("crai-roundtrip", format!("{recs:?} read back as {back:?}"), format!("crai-seeded {} {it}", ctx.seed)),
            Ok(Err(e)) => ctx.fail("crai-roundtrip", format!("write/read of {recs:?} failed: {e}"), format!("crai-seeded {} {it}", ctx.seed)),
            Err(p) => ctx.fail("crai-roundtrip", format!("panic: {p}"), format!("crai-seeded {} {it}", ctx.seed)),
        }
        ctx.bump("crai_roundtrip");
    }
}

fn replay(ctx: &mut Ctx, case: &[String]) {
    if super::c17_index::replay(ctx, case) || super::c17_reach::replay(ctx, case) {
        return;
    }
    match case.first().map(|s| s.as_str()) {
        Some("containment") => {
            let a: Vec<usize> = case[1..].iter().map(|s| s.parse().unwrap()).collect();
            let (ms, d) = (a[0] as u8, a[1] as u8);
            let all = all_bins(d);
            let fb = impl_reg2bin(ms, d, a[2], a[3]);
            let rb = impl_reg2bins(&all, ms, d, a[4], a[5]);
            check_containment(ctx, ms, d, (a[2], a[3]), (a[4], a[5]), fb, &rb);
        }
        Some("optimize") => {
            let min: u64 = case[1].parse().unwrap();
            let cs = parse_chunks(&case[2]);
            check_optimize(ctx, &cs, min);
        }
        Some("addchunk") => {
            let cs = parse_chunks(&case[1]);
            check_addchunk(ctx, &cs);
        }
        Some("roundtrip") => {
            let sub: u64 = case[1].parse().unwrap();
            one_roundtrip(ctx, sub);
        }
        _ => {
            // seeded text-index cases: re-run the whole suite with that seed
            if case.len() >= 2 {
                ctx.rng = Rng::new(case[1].parse().unwrap_or(1));
            }
            index_text_roundtrips(ctx);
        }
    }
}
