//! C15bin — hostile BINARY headers and index files (extension of C15).
//!
//! CORRESPONDENCE. The readers transcribed in `lean/Noodles/Hostile/{IndexRead,BamHeader,
//! BcfFraming,CramFraming}.lean` are run, in process under `guarded`, on structured hostile inputs
//! through the PUBLIC API of noodles and compared with the Lean model by class and by a canonical
//! rendering of what came back `Ok` (request words `c15 bai|tbi|csi|tbihdr|bamhdr|bamhdrparts|
//! bcfhdr|bcfhdrparts|bcfrec|cramdef|cramfh|cramfhparts|cramcont …`, handled by
//! `Noodles/Hostile/DriverC15Bin.lean`). Inputs: a hand-written corpus first, then for every
//! structured base: every truncation, every count/length field at boundary values (whole field
//! and single bytes: 0, 1, 0x7f, 0x80, 0xff, sign bit), ITF8/LTF8 fields re-encoded at boundary
//! values, CRC-32s re-sealed and not, random damage.
//! External components are passed as tables on the request line: the SAM/VCF header parser's
//! verdict on the lines the real text reader delivered, flate2's behaviour on a gzip file header
//! block, the block codecs' answers for every block of the input.
//!
//! ORACLE. Every request is one evaluation of the property on the real code (a panic is reported
//! with its replay, `corrbin <suite> <request hash>`); every stream reader is run a second and third
//! time behind a reader that delivers 1 and 7 bytes per call and has to give the same answer
//! (`bin-chunking:<suite>`) — the model treats `Take`/`BufReader` buffering as invisible.
use crate::adversary::SchedReader;
use crate::common::*;
use crate::props::c15::{cramwalk, seeds};
use crate::props::c17::fmt_chunks;
use noodles_bam as bam;
use noodles_bcf as bcf;
use noodles_cram as cram;
use noodles_cram::verif as cv;
use noodles_csi as csi;
use noodles_sam as sam;
use noodles_vcf as vcf;
use std::io::{self, BufRead, Read};

thread_local! {
    /// replay: only the request with this hash is evaluated
    static ONLY: std::cell::Cell<Option<u64>> = const { std::cell::Cell::new(None) };
}

fn io_class(e: &io::Error) -> String {
    errclass(e).to_string()
}

/// a byte source that can say how much it has left
trait Src: Read {
    fn left(&self) -> usize;
}
impl Src for &[u8] {
    fn left(&self) -> usize {
        self.len()
    }
}
impl Src for SchedReader {
    fn left(&self) -> usize {
        self.data.len() - self.pos
    }
}

/// run `f` (the real code's canonical answer) under `guarded`; record the correspondence line
fn emit(ctx: &mut Ctx, req: String, f: impl FnOnce() -> String) -> Option<String> {
    let h = fnv(req.as_bytes());
    if let Some(only) = ONLY.with(|o| o.get()) {
        if only != h {
            return None;
        }
    }
    let suite = req.split(' ').nth(1).unwrap_or("?").to_string();
    let ans = match guarded(f) {
        Ok(a) => a,
        Err(p) => {
            let shown = if req.len() > 600 { format!("{}…", &req[..600]) } else { req.clone() };
            ctx.fail(&format!("panic:corrbin:{suite}"), format!("PANIC {p} — request `{shown}`"), format!("corrbin {suite} {h}"));
            "panic".to_string()
        }
    };
    ctx.eval(if ans.starts_with("ok") { Some(h) } else { None });
    let key = format!("bin:{suite}:{}", ans.split([' ']).next().unwrap_or("?"));
    ctx.bump(&key);
    ctx.corr(req, ans.clone());
    Some(ans)
}

/// the chunked-delivery oracle: the same reader behind 1- and 7-byte reads gives the same answer
fn chunk_oracle(ctx: &mut Ctx, suite: &str, req: &str, slice_ans: &str, f: impl Fn(SchedReader) -> String, bytes: &[u8]) {
    for k in [1usize, 7] {
        let b = bytes.to_vec();
        let got = match guarded(|| f(SchedReader::new(b, vec![], k))) {
            Ok(a) => a,
            Err(_) => "panic".to_string(), // reported by `emit` when the slice run panics too
        };
        ctx.eval(None);
        if got != slice_ans {
            let h = fnv(req.as_bytes());
            let shown = if req.len() > 400 { format!("{}…", &req[..400]) } else { req.to_string() };
            ctx.fail(&format!("bin-chunking:{suite}"), format!("answer over a slice `{slice_ans}` ≠ answer behind {k}-byte reads `{got}` — request `{shown}`"), format!("corrbin {suite} {h}"));
        }
    }
}

// ---------------------------------------------------------------- layouts and the mutation engine

/// bytes with the offsets of their fields. kinds: 'u' u32 count, 'i' i32 count, 'w' other 32-bit
/// word, 'q' u64, 'b' enum byte, 't' ITF8, 'l' LTF8, 'x' opaque bytes
#[derive(Clone, Default)]
struct Lay {
    b: Vec<u8>,
    f: Vec<(usize, usize, char)>,
    /// CRC-32 fields: (first covered offset, offset of the 4 CRC bytes)
    crcs: Vec<(usize, usize)>,
}

impl Lay {
    fn put(&mut self, bytes: &[u8], k: char) {
        self.f.push((self.b.len(), bytes.len(), k));
        self.b.extend_from_slice(bytes);
    }
    fn u32(&mut self, v: u32, k: char) {
        self.put(&v.to_le_bytes(), k);
    }
    fn u64(&mut self, v: u64) {
        self.put(&v.to_le_bytes(), 'q');
    }
    fn byte(&mut self, v: u8) {
        self.put(&[v], 'b');
    }
    fn itf8(&mut self, v: i32) {
        self.put(&cramwalk::write_itf8(v), 't');
    }
    fn ltf8(&mut self, v: i64) {
        let mut d = vec![];
        cv::write_ltf8(&mut d, v).unwrap();
        self.put(&d, 'l');
    }
    fn raw(&mut self, bytes: &[u8]) {
        self.put(bytes, 'x');
    }
    /// a CRC-32 over everything from `start` on
    fn crc(&mut self, start: usize) {
        let c = crc32(&self.b[start..]);
        self.crcs.push((start, self.b.len()));
        self.put(&c.to_le_bytes(), 'w');
    }
    /// append another layout (offsets shifted)
    fn append(&mut self, o: &Lay) {
        let base = self.b.len();
        self.b.extend_from_slice(&o.b);
        self.f.extend(o.f.iter().map(|(a, l, k)| (a + base, *l, *k)));
        self.crcs.extend(o.crcs.iter().map(|(a, c)| (a + base, c + base)));
    }
}

/// replace `len` bytes at `off` by `new`; re-seal the CRC-32s (innermost first) when asked
fn splice(lay: &Lay, off: usize, len: usize, new: &[u8], seal: bool) -> Vec<u8> {
    let mut b = lay.b[..off].to_vec();
    b.extend_from_slice(new);
    b.extend_from_slice(&lay.b[off + len..]);
    if seal {
        let delta = new.len() as i64 - len as i64;
        let shift = |x: usize| if x >= off + len { (x as i64 + delta) as usize } else { x };
        let mut crcs: Vec<(usize, usize)> = lay.crcs.iter().map(|(a, c)| (shift(*a), shift(*c))).collect();
        crcs.sort_by_key(|(a, c)| c - a);
        for (a, c) in crcs {
            if a <= c && c + 4 <= b.len() {
                let v = crc32(&b[a..c]);
                b[c..c + 4].copy_from_slice(&v.to_le_bytes());
            }
        }
    }
    b
}

const BYTE_SUBS: [u8; 5] = [0, 1, 0x7f, 0x80, 0xff];

fn word_values(v: u32, k: char) -> Vec<u32> {
    let mut w = vec![0, 1, 2, 3, 0x7f, 0x80, 0xff, 0x100, 0xffff, 0x1_0000, 0x7fff_ffff, 0x8000_0000, 0xffff_ffff, v.wrapping_add(1), v.wrapping_sub(1)];
    if k == 'w' {
        w.extend_from_slice(&[37450, 37449, 4681, 299_594, 0x1_0001, 0x2_0000, 0x1_0002, 0xffff_0001, 0xffff_0002]);
    }
    w
}

const ITF8_VALUES: [i32; 16] = [0, 1, 2, 0x7f, 0x80, 0x3fff, 0x4000, 0x1f_ffff, 0x20_0000, 0xfff_ffff, 0x1000_0000, i32::MAX, -1, -2, -3, i32::MIN];
const LTF8_VALUES: [i64; 9] = [0, 1, 0x7f, 0x80, 1 << 35, 1 << 56, i64::MAX, -1, i64::MIN];

/// every mutant of a layout: (family, bytes). `seal`: also the CRC-re-sealed twin of each.
fn mutants(rng: &mut Rng, lay: &Lay, n_random: u64, trunc_stride: usize) -> Vec<(&'static str, Vec<u8>)> {
    let mut out: Vec<(&'static str, Vec<u8>)> = vec![("base", lay.b.clone())];
    let seals: &[bool] = if lay.crcs.is_empty() { &[false] } else { &[false, true] };
    // truncations: every length (or every `trunc_stride`-th plus every field boundary ± 1)
    let mut cuts: std::collections::BTreeSet<usize> = (0..lay.b.len()).step_by(trunc_stride.max(1)).collect();
    for (o, l, _) in &lay.f {
        for c in [o.saturating_sub(1), *o, o + 1, o + l - 1] {
            if c < lay.b.len() {
                cuts.insert(c);
            }
        }
    }
    for c in cuts {
        out.push(("trunc", lay.b[..c].to_vec()));
    }
    for &(o, l, k) in &lay.f {
        for &seal in seals {
            match k {
                'u' | 'i' | 'w' => {
                    let v = u32::from_le_bytes(lay.b[o..o + 4].try_into().unwrap());
                    for w in word_values(v, k) {
                        if w != v {
                            out.push(("field", splice(lay, o, 4, &w.to_le_bytes(), seal)));
                        }
                    }
                    for i in 0..4 {
                        for s in BYTE_SUBS {
                            if lay.b[o + i] != s {
                                out.push(("byte", splice(lay, o + i, 1, &[s], seal)));
                            }
                        }
                    }
                }
                'q' => {
                    for w in [0u64, 1, 1 << 63, u64::MAX] {
                        out.push(("field", splice(lay, o, 8, &w.to_le_bytes(), seal)));
                    }
                }
                'b' => {
                    for s in [0u8, 1, 2, 3, 4, 5, 6, 7, 8, 9, 0x7f, 0x80, 0xff] {
                        if lay.b[o] != s {
                            out.push(("byte", splice(lay, o, 1, &[s], seal)));
                        }
                    }
                }
                't' => {
                    let mut p = 0;
                    let v = cramwalk::read_itf8(&lay.b[o..o + l], &mut p).unwrap_or(0);
                    for w in ITF8_VALUES.iter().copied().chain([v.wrapping_add(1), v.wrapping_sub(1)]) {
                        if w != v {
                            out.push(("itf8", splice(lay, o, l, &cramwalk::write_itf8(w), seal)));
                        }
                    }
                    for s in BYTE_SUBS {
                        if lay.b[o] != s {
                            out.push(("byte", splice(lay, o, 1, &[s], seal)));
                        }
                    }
                }
                'l' => {
                    for w in LTF8_VALUES {
                        let mut d = vec![];
                        cv::write_ltf8(&mut d, w).unwrap();
                        out.push(("ltf8", splice(lay, o, l, &d, seal)));
                    }
                }
                _ => {
                    // opaque bytes: the first and the last byte
                    if l > 0 {
                        for (i, s) in [(0usize, 0u8), (0, 0xff), (l - 1, 0), (l - 1, 0xff), (l - 1, 0x0a)] {
                            if lay.b[o + i] != s {
                                out.push(("byte", splice(lay, o + i, 1, &[s], seal)));
                            }
                        }
                    }
                }
            }
        }
    }
    // random damage
    for _ in 0..n_random {
        let mut b = lay.b.clone();
        if b.is_empty() {
            break;
        }
        for _ in 0..1 + rng.below(3) {
            let p = if rng.chance(2, 3) && !lay.f.is_empty() {
                let (o, l, _) = *rng.pick(&lay.f);
                o + rng.below(l.max(1) as u64) as usize
            } else {
                rng.below(b.len() as u64) as usize
            };
            if p < b.len() {
                b[p] = match rng.below(4) {
                    0 => *rng.pick(&BYTE_SUBS),
                    1 => b[p].wrapping_add(1),
                    _ => rng.next() as u8,
                };
            }
        }
        let tmp = Lay { b, f: vec![], crcs: lay.crcs.clone() };
        let mut b = if !lay.crcs.is_empty() && rng.chance(1, 2) { splice(&tmp, 0, 0, &[], true) } else { tmp.b };
        if rng.chance(1, 4) {
            let k = rng.below(b.len() as u64 + 1) as usize;
            b.truncate(k);
        }
        if rng.chance(1, 8) {
            let n = 1 + rng.below(6) as usize;
            let extra = rng.bytes(n);
            b.extend_from_slice(&extra);
        }
        out.push(("damage", b));
    }
    out
}

// ---------------------------------------------------------------- descriptions (as in suite c17)

use csi::binning_index::index::{
    header::{format::CoordinateSystem, Format},
    reference_sequence::{
        index::{BinnedIndex, LinearIndex},
        Bin, Metadata,
    },
    Header, ReferenceSequence,
};
use csi::binning_index::{BinningIndex, ReferenceSequence as _};
type Lin = csi::binning_index::Index<LinearIndex>;
type Csi = csi::binning_index::Index<BinnedIndex>;

fn join_or_dash(v: Vec<String>, sep: &str) -> String {
    if v.is_empty() { "-".into() } else { v.join(sep) }
}
fn d_bins(b: &indexmap::IndexMap<usize, Bin>) -> String {
    join_or_dash(b.iter().map(|(id, bin)| format!("{}={}", id, fmt_chunks(bin.chunks()))).collect(), "+")
}
fn d_md(m: Option<&Metadata>) -> String {
    match m {
        None => "-".into(),
        Some(m) => format!("{}:{}:{}:{}", u64::from(m.start_position()), u64::from(m.end_position()), m.mapped_record_count(), m.unmapped_record_count()),
    }
}
fn d_reflin(r: &ReferenceSequence<LinearIndex>) -> String {
    let lin = join_or_dash(r.index().iter().map(|v| u64::from(*v).to_string()).collect(), ",");
    format!("{}|{}|{}", d_bins(r.bins()), d_md(r.metadata()), lin)
}
fn d_refcsi(r: &ReferenceSequence<BinnedIndex>) -> String {
    let ix = join_or_dash(r.index().iter().map(|(k, v)| format!("{}:{}", k, u64::from(*v))).collect(), ",");
    format!("{}|{}|{}", d_bins(r.bins()), d_md(r.metadata()), ix)
}
fn d_opt(n: Option<u64>) -> String {
    n.map(|n| n.to_string()).unwrap_or_else(|| "-".into())
}
fn d_name(n: &[u8]) -> String {
    if n.is_empty() { "_".into() } else { hex(n) }
}
fn d_header(h: Option<&Header>) -> String {
    let Some(h) = h else { return "-".into() };
    let f = match h.format() {
        Format::Generic(CoordinateSystem::Gff) => "g0",
        Format::Generic(CoordinateSystem::Bed) => "g1",
        Format::Sam => "s",
        Format::Vcf => "v",
    };
    let names = join_or_dash(h.reference_sequence_names().iter().map(|n| d_name(n.as_ref())).collect(), ".");
    format!("{},{},{},{},{},{},{}", f, h.reference_sequence_name_index(), h.start_position_index(), d_opt(h.end_position_index().map(|n| n as u64)), h.line_comment_prefix(), h.line_skip_count(), names)
}
fn d_bai(ix: &Lin) -> String {
    let refs = join_or_dash(ix.reference_sequences().iter().map(d_reflin).collect(), ";");
    format!("{}/{}", refs, d_opt(ix.unplaced_unmapped_record_count()))
}
fn d_tbi(ix: &Lin) -> String {
    format!("{}/{}", d_header(ix.header()), d_bai(ix))
}
fn d_csi(ix: &Csi) -> String {
    let refs = join_or_dash(ix.reference_sequences().iter().map(d_refcsi).collect(), ";");
    format!("{},{}/{}/{}/{}", ix.min_shift(), ix.depth(), d_header(ix.header()), refs, d_opt(ix.unplaced_unmapped_record_count()))
}

/// the class of the root cause of an error chain (an `io::Error` at the bottom, or `InvalidData`)
fn root_class(e: &(dyn std::error::Error + 'static)) -> String {
    let mut cur = e;
    loop {
        if let Some(ioe) = cur.downcast_ref::<io::Error>() {
            return io_class(ioe);
        }
        match cur.source() {
            Some(s) => cur = s,
            None => return "err:invalid-data".into(),
        }
    }
}

// ---------------------------------------------------------------- BAI / tabix / CSI

fn bai_answer<S: Src>(src: S) -> String {
    let mut r = bam::bai::io::Reader::new(src);
    match r.read_index() {
        Ok(ix) => format!("ok {} rest={}", d_bai(&ix), r.get_ref().left()),
        Err(e) => io_class(&e),
    }
}

/// the payload behind a BGZF layer of stored members of `member` bytes
fn bgzf_small(payload: &[u8], member: usize) -> Vec<u8> {
    use crate::props::c01::{stored_member, EOF};
    let mut out = vec![];
    for c in payload.chunks(member.max(1)) {
        out.extend_from_slice(&stored_member(c));
    }
    out.extend_from_slice(&EOF);
    out
}

fn tbi_answer(payload: &[u8], member: usize) -> String {
    let file = bgzf_small(payload, member);
    match noodles_tabix::io::Reader::new(&file[..]).read_index() {
        Ok(ix) => format!("ok {}", d_tbi(&ix)),
        Err(e) => io_class(&e),
    }
}

fn csi_answer(payload: &[u8], member: usize) -> String {
    let file = bgzf_small(payload, member);
    match csi::io::Reader::new(&file[..]).read_index() {
        Ok(ix) => format!("ok {}", d_csi(&ix)),
        Err(e) => io_class(&e),
    }
}

fn tbihdr_answer<S: Src>(mut src: S) -> String {
    match csi::io::reader::index::read_header(&mut src) {
        Ok(h) => format!("ok {} rest={}", d_header(Some(&h)), src.left()),
        Err(e) => root_class(&e),
    }
}

fn bai_case(ctx: &mut Ctx, b: &[u8]) {
    let v = b.to_vec();
    let req = format!("c15 bai {}", hex(b));
    if let Some(a) = emit(ctx, req.clone(), move || bai_answer(&v[..])) {
        chunk_oracle(ctx, "bai", &req, &a, bai_answer, b);
    }
}

fn bgzf_oracle(ctx: &mut Ctx, suite: &str, req: &str, a: &str, f: fn(&[u8], usize) -> String, b: &[u8]) {
    for member in [5usize, 64] {
        let v = b.to_vec();
        let got = guarded(move || f(&v, member)).unwrap_or_else(|_| "panic".to_string());
        ctx.eval(None);
        if got != a {
            let h = fnv(req.as_bytes());
            ctx.fail(&format!("bin-chunking:{suite}"), format!("answer `{a}` ≠ answer behind {member}-byte BGZF members `{got}` — request `{}`", &req[..req.len().min(400)]), format!("corrbin {suite} {h}"));
        }
    }
}

fn tbi_case(ctx: &mut Ctx, b: &[u8]) {
    let v = b.to_vec();
    let req = format!("c15 tbi {}", hex(b));
    if let Some(a) = emit(ctx, req.clone(), move || tbi_answer(&v, 60000)) {
        bgzf_oracle(ctx, "tbi", &req, &a, tbi_answer, b);
    }
}

fn csi_case(ctx: &mut Ctx, b: &[u8]) {
    let v = b.to_vec();
    let req = format!("c15 csi {}", hex(b));
    if let Some(a) = emit(ctx, req.clone(), move || csi_answer(&v, 60000)) {
        bgzf_oracle(ctx, "csi", &req, &a, csi_answer, b);
    }
}

fn tbihdr_case(ctx: &mut Ctx, b: &[u8]) {
    let v = b.to_vec();
    let req = format!("c15 tbihdr {}", hex(b));
    if let Some(a) = emit(ctx, req.clone(), move || tbihdr_answer(&v[..])) {
        chunk_oracle(ctx, "tbihdr", &req, &a, tbihdr_answer, b);
    }
}

#[derive(Clone, Copy, PartialEq)]
enum Ix {
    Bai,
    Tbi,
    Csi(u8),
}

/// the bins + (linear index) of one reference sequence
fn gen_ref(rng: &mut Rng, lay: &mut Lay, kind: Ix, small: bool) {
    let ck = if kind == Ix::Bai { 'u' } else { 'i' };
    let meta_id: u32 = match kind {
        Ix::Csi(d) if d <= 10 => (((1u64 << ((d as u32 + 1) * 3)) / 7) + 1) as u32,
        Ix::Csi(_) => 37450,
        _ => 37450,
    };
    let nbin = rng.below(4) as u32;
    let with_meta = rng.chance(1, 2);
    let dup = rng.chance(1, 8);
    lay.u32(nbin + with_meta as u32 + dup as u32, ck);
    let val = |rng: &mut Rng| if small { rng.below(1 << 16) } else if rng.chance(1, 6) { u64::MAX - rng.below(3) } else { rng.next() >> rng.below(60) };
    let mut ids: Vec<u32> = vec![];
    let meta_at = rng.below(nbin as u64 + 1) as u32;
    for i in 0..nbin + dup as u32 {
        if with_meta && i == meta_at {
            lay.u32(meta_id, 'w');
            if let Ix::Csi(_) = kind {
                lay.u64(0);
            }
            lay.u32(2, 'u');
            for _ in 0..4 {
                let v = val(rng);
                lay.u64(v);
            }
        }
        let id = if dup && i == nbin && !ids.is_empty() {
            ids[0]
        } else {
            let mut id;
            loop {
                id = match rng.below(4) {
                    0 => 0,
                    1 => 4681 + rng.below(8) as u32,
                    2 => meta_id.saturating_sub(1 + rng.below(3) as u32),
                    _ => rng.below(40000) as u32,
                };
                if id != meta_id && !ids.contains(&id) {
                    break;
                }
            }
            id
        };
        ids.push(id);
        lay.u32(id, 'w');
        if let Ix::Csi(_) = kind {
            let v = val(rng);
            lay.u64(v);
        }
        let nch = rng.below(3) as u32;
        lay.u32(nch, 'i');
        for _ in 0..nch * 2 {
            let v = val(rng);
            lay.u64(v);
        }
    }
    if with_meta && meta_at >= nbin + dup as u32 {
        lay.u32(meta_id, 'w');
        if let Ix::Csi(_) = kind {
            lay.u64(0);
        }
        lay.u32(2, 'u');
        for _ in 0..4 {
            let v = val(rng);
            lay.u64(v);
        }
    }
    if !matches!(kind, Ix::Csi(_)) {
        let n = rng.below(3) as u32;
        lay.u32(n, ck);
        for _ in 0..n {
            let v = val(rng);
            lay.u64(v);
        }
    }
}

/// a tabix header (also the CSI aux block)
fn gen_tbi_header(rng: &mut Rng, lay: &mut Lay) {
    let fmt: u32 = *rng.pick(&[0u32, 0x1_0000, 1, 2, 2, 1, 0]);
    lay.u32(fmt, 'w');
    let col_seq = 1 + rng.below(3) as u32;
    let col_beg = 1 + rng.below(5) as u32;
    lay.u32(col_seq, 'i');
    lay.u32(col_beg, 'i');
    let col_end = if fmt & 0xffff != 0 { 0 } else if rng.chance(1, 3) { col_beg } else { 1 + rng.below(6) as u32 };
    lay.u32(col_end, 'i');
    lay.u32(*rng.pick(&[b'#' as u32, 0, 255, b'@' as u32]), 'i');
    lay.u32(rng.below(3) as u32, 'i');
    let mut names = vec![];
    let n = rng.below(4);
    for i in 0..n {
        let l = if rng.chance(1, 8) { 0 } else { 1 + rng.below(5) as usize };
        let mut nm: Vec<u8> = (0..l).map(|_| b'a' + rng.below(26) as u8).collect();
        nm.push(b'0' + i as u8);
        if rng.chance(1, 12) {
            nm = b"dup".to_vec();
        }
        names.extend_from_slice(&nm);
        names.push(0);
    }
    if rng.chance(1, 10) {
        names.extend_from_slice(b"tail"); // a last name without its NUL
    }
    lay.u32(names.len() as u32, 'i');
    lay.raw(&names);
}

fn gen_index(rng: &mut Rng, kind: Ix, small: bool) -> Lay {
    let mut lay = Lay::default();
    let nref = rng.below(3) as u32;
    match kind {
        Ix::Bai => {
            lay.raw(b"BAI\x01");
            lay.u32(nref, 'u');
        }
        Ix::Tbi => {
            lay.raw(b"TBI\x01");
            lay.u32(nref, 'i');
            gen_tbi_header(rng, &mut lay);
        }
        Ix::Csi(d) => {
            lay.raw(b"CSI\x01");
            lay.u32(*rng.pick(&[14u32, 14, 1, 12, 31]), 'i');
            lay.u32(d as u32, 'i');
            if rng.chance(1, 2) {
                lay.u32(0, 'i');
            } else {
                let mut h = Lay::default();
                gen_tbi_header(rng, &mut h);
                let slack = *rng.pick(&[0u32, 0, 0, 3, 8]);
                lay.u32(h.b.len() as u32 + slack, 'i');
                lay.append(&h);
                if slack > 0 && rng.chance(1, 2) {
                    // what `l_aux` promises beyond the header: read and dropped by the reader (/repo fix
                    // 8288cb5); without these bytes the drain eats into `n_ref` and what follows
                    lay.raw(&vec![0u8; slack as usize]);
                }
            }
            lay.u32(nref, 'i');
        }
    }
    for _ in 0..nref {
        gen_ref(rng, &mut lay, kind, small);
    }
    match rng.below(4) {
        0 => {}
        1 => lay.raw(&[1, 2, 3]), // fewer than 8 bytes left: no count
        _ => {
            let v = rng.below(1000);
            lay.u64(v);
            if rng.chance(1, 3) {
                lay.raw(&[9, 9]);
            }
        }
    }
    lay
}

fn le32(v: u32) -> Vec<u8> {
    v.to_le_bytes().to_vec()
}
fn le64(v: u64) -> Vec<u8> {
    v.to_le_bytes().to_vec()
}

fn index_corpus(ctx: &mut Ctx) {
    // BAI: empty, magic only, wrong magic, counts at the edge, metadata with n_chunk ≠ 2, duplicates
    let meta = |id: u32, n: u32| [le32(id), le32(n), le64(1), le64(2), le64(3), le64(4)].concat();
    let bai: Vec<Vec<u8>> = vec![
        vec![],
        b"BAI".to_vec(),
        b"BAI\x01".to_vec(),
        b"BAI\x02\0\0\0\0".to_vec(),
        b"BAM\x01\0\0\0\0".to_vec(),
        [b"BAI\x01".to_vec(), le32(0)].concat(),
        [b"BAI\x01".to_vec(), le32(0), le64(7)].concat(),
        [b"BAI\x01".to_vec(), le32(0), vec![1, 2, 3, 4, 5, 6, 7]].concat(),
        [b"BAI\x01".to_vec(), le32(1)].concat(),
        [b"BAI\x01".to_vec(), le32(0xffff_ffff)].concat(),
        [b"BAI\x01".to_vec(), le32(0x8000_0000), le32(0), le32(0)].concat(),
        [b"BAI\x01".to_vec(), le32(1), le32(0xffff_ffff)].concat(),
        [b"BAI\x01".to_vec(), le32(1), le32(0), le32(0xffff_ffff)].concat(),
        [b"BAI\x01".to_vec(), le32(1), le32(1), meta(37450, 2), le32(0)].concat(),
        [b"BAI\x01".to_vec(), le32(1), le32(1), meta(37450, 3), le32(0)].concat(),
        [b"BAI\x01".to_vec(), le32(1), le32(1), meta(37450, 0), le32(0)].concat(),
        [b"BAI\x01".to_vec(), le32(1), le32(2), meta(37450, 2), meta(37450, 2), le32(0)].concat(),
        [b"BAI\x01".to_vec(), le32(1), le32(1), le32(37450), le32(2), le64(1)].concat(),
        [b"BAI\x01".to_vec(), le32(1), le32(2), le32(5), le32(0), le32(5), le32(0), le32(0)].concat(),
        [b"BAI\x01".to_vec(), le32(1), le32(1), le32(5), le32(0xffff_ffff), le32(0)].concat(),
        [b"BAI\x01".to_vec(), le32(1), le32(1), le32(5), le32(0x7fff_ffff), le32(0)].concat(),
        [b"BAI\x01".to_vec(), le32(1), le32(1), le32(5), le32(1), le64(1), le64(2), le32(1), le64(3), le64(9)].concat(),
        [b"BAI\x01".to_vec(), le32(1), le32(1), le32(0xffff_ffff), le32(0), le32(0)].concat(),
        [b"BAI\x01".to_vec(), le32(2), le32(0), le32(0), le32(0), le32(0)].concat(),
    ];
    for b in &bai {
        bai_case(ctx, b);
    }
    // tabix header
    let hdr = |fmt: u32, a: u32, b: u32, c: u32, m: u32, s: u32, l: u32, names: &[u8]| [le32(fmt), le32(a), le32(b), le32(c), le32(m), le32(s), le32(l), names.to_vec()].concat();
    let hs: Vec<Vec<u8>> = vec![
        vec![],
        le32(2),
        hdr(2, 1, 2, 0, 35, 0, 0, b""),
        hdr(2, 1, 2, 0, 35, 0, 2, b"a\0"),
        hdr(2, 1, 2, 0, 35, 0, 2, b"a\0rest"),
        hdr(2, 1, 2, 0, 35, 0, 9, b"a\0"),
        hdr(2, 1, 2, 0, 35, 0, 1, b"a\0"),
        hdr(2, 1, 2, 0, 35, 0, 4, b"a\0a\0"),
        hdr(2, 1, 2, 0, 35, 0, 3, b"\0\0\0"),
        hdr(2, 1, 2, 0, 35, 0, 1, b"\0"),
        hdr(2, 1, 2, 0, 35, 0, 0xffff_ffff, b"a\0"),
        hdr(2, 1, 2, 0, 35, 0, 0x7fff_ffff, b"a\0b\0"),
        hdr(2, 1, 2, 1, 35, 0, 0, b""),
        hdr(1, 1, 2, 0, 35, 0, 0, b""),
        hdr(0x7fff_0001, 1, 2, 0, 35, 0, 0, b""),
        hdr(0xffff_0002, 1, 2, 0, 35, 0, 0, b""),
        hdr(0, 1, 2, 3, 35, 0, 0, b""),
        hdr(0, 1, 2, 2, 35, 0, 0, b""),
        hdr(0, 1, 2, 0, 35, 0, 0, b""),
        hdr(0, 1, 2, 0xffff_ffff, 35, 0, 0, b""),
        hdr(0x1_0000, 1, 2, 3, 35, 0, 0, b""),
        hdr(0x2_0000, 1, 2, 3, 35, 0, 0, b""),
        hdr(3, 1, 2, 3, 35, 0, 0, b""),
        hdr(2, 0, 2, 0, 35, 0, 0, b""),
        hdr(2, 0x8000_0000, 2, 0, 35, 0, 0, b""),
        hdr(2, 0x7fff_ffff, 0x7fff_ffff, 0, 35, 0, 0, b""),
        hdr(2, 1, 0, 0, 35, 0, 0, b""),
        hdr(2, 1, 2, 0, 256, 0, 0, b""),
        hdr(2, 1, 2, 0, 255, 0, 0, b""),
        hdr(2, 1, 2, 0, 0xffff_ffff, 0, 0, b""),
        hdr(2, 1, 2, 0, 35, 0xffff_ffff, 0, b""),
        hdr(2, 1, 2, 0, 35, 0x7fff_ffff, 0, b""),
    ];
    for h in &hs {
        tbihdr_case(ctx, h);
        tbi_case(ctx, &[b"TBI\x01".to_vec(), le32(0), h.clone()].concat());
        tbi_case(ctx, &[b"TBI\x01".to_vec(), le32(1), h.clone(), le32(0), le32(0)].concat());
        csi_case(ctx, &[b"CSI\x01".to_vec(), le32(14), le32(5), le32(h.len() as u32), h.clone(), le32(0)].concat());
        // `l_aux` one short / five long (the five bytes after the header are skipped: /repo fix 8288cb5)
        csi_case(ctx, &[b"CSI\x01".to_vec(), le32(14), le32(5), le32((h.len() as u32).saturating_sub(1)), h.clone(), le32(0)].concat());
        csi_case(ctx, &[b"CSI\x01".to_vec(), le32(14), le32(5), le32(h.len() as u32 + 5), h.clone(), le32(0), le32(0)].concat());
    }
    tbi_case(ctx, b"TBI\x01");
    tbi_case(ctx, b"TBI\x02\0\0\0\0");
    tbi_case(ctx, &[b"TBI\x01".to_vec(), le32(0xffff_ffff), hs[2].clone()].concat());
    tbi_case(ctx, &[b"TBI\x01".to_vec(), le32(0x7fff_ffff), hs[2].clone()].concat());
    tbi_case(ctx, &[b"TBI\x01".to_vec(), le32(1), hs[2].clone(), le32(0xffff_ffff)].concat());
    tbi_case(ctx, &[b"TBI\x01".to_vec(), le32(1), hs[2].clone(), le32(0), le32(0xffff_ffff)].concat());
    tbi_case(ctx, &[b"TBI\x01".to_vec(), le32(1), hs[2].clone(), le32(1), meta(37450, 2), le32(0), le64(3)].concat());
    tbi_case(ctx, &[b"TBI\x01".to_vec(), le32(1), hs[2].clone(), le32(1), meta(37450, 1), le32(0)].concat());
    // CSI geometry: every (min_shift, depth) edge of `validate_geometry`; depth 11 with a reference
    // sequence is the input that reached `bin_limit`'s assertion before the check existed
    for (ms, d) in [(14u32, 5u32), (0, 5), (1, 0), (14, 10), (14, 11), (14, 255), (14, 256), (255, 0), (256, 0), (63, 0), (64, 0), (61, 1), (60, 1), (34, 10), (33, 10), (31, 11), (0xffff_ffff, 5), (14, 0xffff_ffff), (0x8000_000e, 5), (1, 20), (1, 21)] {
        let mid = if d <= 10 { (((1u64 << ((d + 1) * 3)) / 7) + 1) as u32 } else { 37450 };
        csi_case(ctx, &[b"CSI\x01".to_vec(), le32(ms), le32(d), le32(0), le32(0)].concat());
        csi_case(ctx, &[b"CSI\x01".to_vec(), le32(ms), le32(d), le32(0), le32(1), le32(0)].concat());
        csi_case(ctx, &[b"CSI\x01".to_vec(), le32(ms), le32(d), le32(0), le32(1), le32(2), le32(mid), le64(0), le32(2), le64(1), le64(2), le64(3), le64(4), le32(3), le64(8), le32(1), le64(5), le64(6), le64(77)].concat());
        csi_case(ctx, &[b"CSI\x01".to_vec(), le32(ms), le32(d), le32(0), le32(1), le32(2), le32(mid), le64(0), le32(2), le64(1), le64(2), le64(3), le64(4), le32(mid), le64(0), le32(2), le64(1), le64(2), le64(3), le64(4)].concat());
        csi_case(ctx, &[b"CSI\x01".to_vec(), le32(ms), le32(d), le32(0), le32(1), le32(2), le32(3), le64(8), le32(0), le32(3), le64(9), le32(0)].concat());
    }
    csi_case(ctx, b"CSI\x01");
    csi_case(ctx, b"CSI\x02\x0e\0\0\0\x05\0\0\0\0\0\0\0\0\0\0\0");
    csi_case(ctx, &[b"CSI\x01".to_vec(), le32(14), le32(5), le32(0xffff_ffff), le32(0)].concat());
    csi_case(ctx, &[b"CSI\x01".to_vec(), le32(14), le32(5), le32(0x7fff_ffff), le32(0)].concat());
    csi_case(ctx, &[b"CSI\x01".to_vec(), le32(14), le32(5), le32(0), le32(0xffff_ffff)].concat());
    csi_case(ctx, &[b"CSI\x01".to_vec(), le32(14), le32(5), le32(0), le32(0x7fff_ffff)].concat());
    csi_case(ctx, &[b"CSI\x01".to_vec(), le32(14), le32(5), le32(0), le32(1), le32(0xffff_ffff)].concat());
    csi_case(ctx, &[b"CSI\x01".to_vec(), le32(14), le32(5), le32(0), le32(1), le32(1), le32(3), le64(8), le32(0xffff_ffff)].concat());
}

fn index_suite(ctx: &mut Ctx, sub: u64) {
    let mut rng = Rng::new(ctx.seed ^ 0xb1a5_0000 ^ sub.wrapping_mul(0x9e37));
    let nbase = ctx.n(4, 40);
    let nrand = ctx.n(30, 200);
    for it in 0..nbase {
        for kind in [Ix::Bai, Ix::Tbi, Ix::Csi(*rng.pick(&[5u8, 5, 0, 1, 6, 10]))] {
            let small = it % 2 == 0;
            let lay = gen_index(&mut rng, kind, small);
            ctx.bump(&format!("bin_base_len:{}:{}", match kind { Ix::Bai => "bai", Ix::Tbi => "tbi", Ix::Csi(_) => "csi" }, (lay.b.len() / 64) * 64));
            for (fam, m) in mutants(&mut rng, &lay, nrand, 1) {
                ctx.bump(&format!("bin_family:{fam}"));
                match kind {
                    Ix::Bai => bai_case(ctx, &m),
                    Ix::Tbi => tbi_case(ctx, &m),
                    Ix::Csi(_) => csi_case(ctx, &m),
                }
            }
            if kind == Ix::Tbi {
                // the header on its own
                let mut h = Lay::default();
                gen_tbi_header(&mut rng, &mut h);
                h.raw(&[7, 7, 7]);
                for (_, m) in mutants(&mut rng, &h, nrand / 2, 1) {
                    tbihdr_case(ctx, &m);
                }
            }
        }
    }
}

include!("c15_bin/headers.rs");
include!("c15_bin/cram.rs");

pub fn run(ctx: &mut Ctx) {
    index_corpus(ctx);
    index_suite(ctx, 0);
    headers_corpus(ctx);
    headers_suite(ctx, 0);
    cram_corpus(ctx);
    cram_suite(ctx, 0);
}

/// `corrbin <suite> <request hash>`: re-run that one request
pub fn replay(ctx: &mut Ctx, case: &[String]) -> bool {
    if case.first().map(|s| s.as_str()) != Some("corrbin") {
        return false;
    }
    let only: Option<u64> = case.get(2).and_then(|s| s.parse().ok());
    ONLY.with(|o| o.set(only));
    run(ctx);
    ONLY.with(|o| o.set(None));
    true
}
