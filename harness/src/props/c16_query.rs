//! C16 extension "query": the chunk readers `csi::io::Query` (sync) and `csi::r#async::io::Query`
//! (async) — correspondence with the Lean state machines (`c16 query …`, `c16 query-sync …`,
//! `c16 query-cancel …`; model `lean/Noodles/Csi/QueryIo.lean`) and the oracle "async query reader ==
//! sync query reader" on real BGZF files (every member layout `c02::gen_file` produces: empty members
//! mid-file, two EOF markers, no EOF marker, 64 KiB blocks) × chunk lists {from positions the real
//! reader reports while scanning records, empty list, empty chunks, adjacent, overlapping, reversed,
//! wild ends} × async source schedules × seek `Pending`s × worker counts.
use super::c01::{stored_member, EOF};
use super::c02::{gen_file, table, Blk, Tab};
use crate::adversary::{block_on, poll_schedule, AsyncSchedReader, Poll1};
use crate::common::*;
use noodles_bgzf as bgzf;
use noodles_csi as csi;
use noodles_csi::binning_index::index::reference_sequence::bin::Chunk;
use std::collections::VecDeque;
use std::io::{BufRead, Cursor, Read, SeekFrom};
use std::num::NonZero;
use std::pin::Pin;
use std::task::{Context, Poll};
use tokio::io::{AsyncBufRead, AsyncBufReadExt};

type VP = (u64, u16);

/// the scripted source + a script for `poll_complete` (`false` = `Pending`)
struct SeekPend {
    inner: AsyncSchedReader,
    sk: VecDeque<bool>,
}

impl tokio::io::AsyncRead for SeekPend {
    fn poll_read(mut self: Pin<&mut Self>, cx: &mut Context<'_>, buf: &mut tokio::io::ReadBuf<'_>) -> Poll<std::io::Result<()>> {
        Pin::new(&mut self.inner).poll_read(cx, buf)
    }
}

impl tokio::io::AsyncSeek for SeekPend {
    fn start_seek(mut self: Pin<&mut Self>, position: SeekFrom) -> std::io::Result<()> {
        Pin::new(&mut self.inner).start_seek(position)
    }
    fn poll_complete(mut self: Pin<&mut Self>, cx: &mut Context<'_>) -> Poll<std::io::Result<u64>> {
        if let Some(false) = self.sk.pop_front() {
            cx.waker().wake_by_ref();
            return Poll::Pending;
        }
        Pin::new(&mut self.inner).poll_complete(cx)
    }
}

fn fmt_bytes(b: &[u8]) -> String {
    if b.len() <= 32 { hex(b) } else { format!("{}:{}", b.len(), crc32(b)) }
}

fn fmt_layout(layout: &[Blk]) -> String {
    if layout.is_empty() {
        return "-".into();
    }
    layout.iter().map(|b| format!("{}:{}", b.csize, hex(&b.data))).collect::<Vec<_>>().join(",")
}

fn fmt_sched(s: &[Poll1]) -> String {
    if s.is_empty() {
        return "-".into();
    }
    s.iter().take(48).map(|p| match p { Poll1::Pending => "p".to_string(), Poll1::Ready(n) => n.to_string() }).collect::<Vec<_>>().join(",")
}

fn fmt_chunks(c: &[(VP, VP)]) -> String {
    if c.is_empty() {
        return "-".into();
    }
    c.iter().map(|(s, e)| format!("{}/{}:{}/{}", s.0, s.1, e.0, e.1)).collect::<Vec<_>>().join(",")
}

fn fmt_ns(ns: &[usize]) -> String {
    if ns.is_empty() {
        return "-".into();
    }
    ns.iter().map(|n| n.to_string()).collect::<Vec<_>>().join(",")
}

fn fmt_bits(b: &[bool]) -> String {
    if b.is_empty() {
        return "-".into();
    }
    b.iter().map(|x| if *x { '1' } else { '0' }).collect()
}

fn mk_chunks(c: &[(VP, VP)]) -> Vec<Chunk> {
    c.iter().map(|(s, e)| Chunk::new(bgzf::VirtualPosition::try_from(*s).unwrap(), bgzf::VirtualPosition::try_from(*e).unwrap())).collect()
}

/// results until the first error, then ` @c/u`
fn run_sync(file: &[u8], chunks: &[(VP, VP)], ns: &[usize]) -> String {
    let file = file.to_vec();
    let chunks = mk_chunks(chunks);
    let ns = ns.to_vec();
    guarded(move || {
        let mut r = bgzf::io::Reader::new(Cursor::new(file));
        let mut outs: Vec<String> = vec![];
        {
            let mut q = csi::io::Query::new(&mut r, chunks);
            for n in ns {
                match q.fill_buf() {
                    Ok(b) => {
                        outs.push(fmt_bytes(b));
                        let k = n.min(b.len());
                        q.consume(k);
                    }
                    Err(e) => {
                        outs.push(errclass(&e).to_string());
                        break;
                    }
                }
            }
        }
        let (c, u): (u64, u16) = r.virtual_position().into();
        format!("{} @{c}/{u}", outs.join(" "))
    })
    .unwrap_or_else(|_| "panic".into())
}

struct AsyncRun {
    first: String,
    /// the same chunk list queried again on the same (used) reader
    second: String,
}

fn run_async(file: &[u8], chunks: &[(VP, VP)], ns: &[usize], workers: usize, sched: Vec<Poll1>, fallback: usize, sk: &[bool]) -> Result<AsyncRun, String> {
    let src = SeekPend { inner: AsyncSchedReader::new(file.to_vec(), sched, fallback), sk: sk.iter().copied().collect() };
    let chunks = mk_chunks(chunks);
    let ns = ns.to_vec();
    let first_done: std::sync::Arc<std::sync::Mutex<Option<String>>> = Default::default();
    let fd = first_done.clone();
    let r = guarded(move || {
        block_on(async move {
            let mut r = bgzf::r#async::io::reader::Builder::default().set_worker_count(NonZero::new(workers).unwrap()).build_from_reader(src);
            let mut res = vec![];
            for round in 0..2 {
                let mut outs: Vec<String> = vec![];
                {
                    let mut q = csi::r#async::io::Query::new(&mut r, chunks.clone());
                    for n in &ns {
                        match q.fill_buf().await {
                            Ok(b) => {
                                outs.push(fmt_bytes(b));
                                let k = (*n).min(b.len());
                                Pin::new(&mut q).consume(k);
                            }
                            Err(e) => {
                                outs.push(errclass(&e).to_string());
                                break;
                            }
                        }
                    }
                }
                let (c, u): (u64, u16) = r.virtual_position().into();
                res.push(format!("{} @{c}/{u}", outs.join(" ")));
                if round == 0 {
                    *fd.lock().unwrap() = Some(res[0].clone());
                }
            }
            let second = res.pop().unwrap();
            AsyncRun { first: res.pop().unwrap(), second }
        })
    });
    match r {
        Ok(x) => Ok(x),
        // a panic in the SECOND query: keep the first answer
        Err(p) => match first_done.lock().unwrap().take() {
            Some(first) => Ok(AsyncRun { first, second: format!("panic: {p}") }),
            None => Err(p),
        },
    }
}

/// a first query over `chunks0` is polled `polls` times (while `Pending`) and dropped; then the
/// query over `chunks` runs on the same reader
fn run_async_cancel(file: &[u8], chunks0: &[(VP, VP)], polls: usize, chunks: &[(VP, VP)], ns: &[usize], workers: usize, sched: Vec<Poll1>, fallback: usize, sk: &[bool]) -> Result<String, String> {
    let src = SeekPend { inner: AsyncSchedReader::new(file.to_vec(), sched, fallback), sk: sk.iter().copied().collect() };
    let chunks0 = mk_chunks(chunks0);
    let chunks = mk_chunks(chunks);
    let ns = ns.to_vec();
    guarded(move || {
        block_on(async move {
            let mut r = bgzf::r#async::io::reader::Builder::default().set_worker_count(NonZero::new(workers).unwrap()).build_from_reader(src);
            {
                let mut q = csi::r#async::io::Query::new(&mut r, chunks0);
                let mut left = polls;
                std::future::poll_fn(|cx| {
                    while left > 0 {
                        left -= 1;
                        if Pin::new(&mut q).poll_fill_buf(cx).is_ready() {
                            break;
                        }
                    }
                    Poll::Ready(())
                })
                .await;
                // the query (and with it the pending seek) is dropped here
            }
            let mut outs: Vec<String> = vec![];
            {
                let mut q = csi::r#async::io::Query::new(&mut r, chunks);
                for n in &ns {
                    match q.fill_buf().await {
                        Ok(b) => {
                            outs.push(fmt_bytes(b));
                            let k = (*n).min(b.len());
                            Pin::new(&mut q).consume(k);
                        }
                        Err(e) => {
                            outs.push(errclass(&e).to_string());
                            break;
                        }
                    }
                }
            }
            let (c, u): (u64, u16) = r.virtual_position().into();
            format!("A {} @{c}/{u}", outs.join(" "))
        })
    })
}

fn vlt(a: (u64, u64), b: VP) -> bool {
    a.0 < b.0 || (a.0 == b.0 && a.1 < b.1 as u64)
}

/// Lean `EndOk`: the end does not lie in ((Y,0),(Z,0)] for an empty member [Y,Z)
fn end_ok(layout: &[Blk], t: &Tab, ce: VP) -> bool {
    layout.iter().enumerate().all(|(k, b)| !b.data.is_empty() || vlt((t.coff[k] as u64, 0), ce) == vlt((t.coff[k + 1] as u64, 0), ce))
}

fn no_adjacent_empty(layout: &[Blk]) -> bool {
    layout.windows(2).all(|w| !(w[0].data.is_empty() && w[1].data.is_empty()))
}

struct Case {
    file: Vec<u8>,
    layout: Vec<Blk>,
    chunks: Vec<(VP, VP)>,
    kind: &'static str,
    ns: Vec<usize>,
    workers: usize,
    sched: Vec<Poll1>,
    fallback: usize,
    sched_name: String,
    inf: Vec<bool>,
    sk: Vec<bool>,
}

/// positions the real sync reader reports while it scans length-`len` records (what an indexer
/// records as chunk bounds)
fn scan_tells(file: &[u8], rng: &mut Rng) -> Vec<VP> {
    let mut r = bgzf::io::Reader::new(Cursor::new(file.to_vec()));
    let mut v: Vec<VP> = vec![r.virtual_position().into()];
    for _ in 0..40 {
        let len = 1 + rng.below(60) as usize;
        let mut buf = vec![0u8; len];
        if r.read_exact(&mut buf).is_err() {
            break;
        }
        v.push(r.virtual_position().into());
    }
    v
}

fn case_of(sub: u64) -> Case {
    let mut rng = Rng::new(sub);
    let (mut file, mut layout) = gen_file(&mut rng);
    for _ in 0..4 {
        if layout.iter().map(|b| b.data.len()).sum::<usize>() <= 3000 {
            break;
        }
        let g = gen_file(&mut rng);
        file = g.0;
        layout = g.1;
    }
    let t = table(&layout);
    // a valid seek target: a member boundary (incl. the end of the file) and an offset inside the
    // member; offset 0 for an empty member (`SeekValid`)
    let valid = |rng: &mut Rng| -> VP {
        let k = rng.below(layout.len() as u64 + 1) as usize;
        let blen = layout.get(k).map(|b| b.data.len()).unwrap_or(0);
        let u = match rng.below(4) { 0 => 0, 1 => blen, _ => rng.below(blen as u64 + 1) as usize };
        (t.coff[k] as u64, u.min(65535) as u16)
    };
    let tells = scan_tells(&file, &mut rng);
    let mut sorted: Vec<VP> = if tells.len() >= 4 && rng.chance(1, 2) {
        let mut v: Vec<VP> = (0..4).map(|_| *rng.pick(&tells)).collect();
        v.sort();
        v
    } else {
        let mut v: Vec<VP> = (0..4).map(|_| valid(&mut rng)).collect();
        v.sort();
        v
    };
    if rng.chance(1, 8) {
        sorted[1] = sorted[0];
    }
    let p = sorted;
    let (kind, mut chunks): (&'static str, Vec<(VP, VP)>) = match rng.below(9) {
        0 => ("empty-list", vec![]),
        1 | 2 => ("sorted", vec![(p[0], p[1]), (p[2], p[3])]),
        3 => ("adjacent", vec![(p[0], p[1]), (p[1], p[2]), (p[2], p[3])]),
        4 => ("overlapping", vec![(p[0], p[2]), (p[1], p[3])]),
        5 => ("reversed", vec![(p[2], p[3]), (p[0], p[1])]),
        6 => ("empty-chunks", vec![(p[0], p[0]), (p[1], p[2]), (p[3], p[3])]),
        7 => ("single-whole", vec![((0, 0), (file.len() as u64, 0))]),
        _ => {
            // wild ends: anywhere (not a member boundary, offset beyond the block, before the start)
            let n = 1 + rng.below(4);
            let total = file.len() as u64;
            ("wild-ends", (0..n).map(|_| {
                let s = valid(&mut rng);
                let e = match rng.below(4) {
                    0 => valid(&mut rng),
                    1 => (rng.below(total + 40), rng.below(70) as u16),
                    2 => (s.0, s.1.saturating_add(rng.below(5) as u16)),
                    _ => (*rng.pick(&t.coff) as u64, *rng.pick(&[0u16, 1, 7, 65535])),
                };
                (s, e)
            }).collect())
        }
    };
    // a start with an offset beyond a non-empty member / beyond the end of the file: InvalidInput
    if !chunks.is_empty() && rng.chance(1, 12) {
        let k = rng.below(layout.len() as u64 + 1) as usize;
        let blen = layout.get(k).map(|b| b.data.len()).unwrap_or(0);
        if (blen > 0 || k == layout.len()) && blen < 65000 {
            let i = rng.below(chunks.len() as u64) as usize;
            chunks[i].0 = (t.coff[k] as u64, (blen + 1 + rng.below(3) as usize) as u16);
        }
    }
    // Three cases in four: move every end that lies just behind an empty member (where the async
    // result depends on uncontrolled inflate completion times, so that only the sync side can be
    // tied to the model) to the next position that does not.
    if rng.chance(3, 4) {
        let total = file.len() as u64;
        let mut cands: Vec<VP> = vec![(total + 5, 0)];
        for k in 0..=layout.len() {
            let blen = layout.get(k).map(|b| b.data.len()).unwrap_or(0).min(65535) as u16;
            for u in [0u16, 1.min(blen), blen] {
                cands.push((t.coff[k] as u64, u));
            }
        }
        cands.retain(|c| end_ok(&layout, &t, *c));
        cands.sort();
        for c in chunks.iter_mut() {
            if !end_ok(&layout, &t, c.1) {
                c.1 = *cands.iter().find(|x| **x >= c.1).unwrap();
            }
        }
    }
    let nn = 2 + rng.below(10);
    let mut ns: Vec<usize> = (0..nn).map(|_| *rng.pick(&[0usize, 1, 3, 17, 100_000, 100_000, 100_000])).collect();
    for _ in 0..rng.below(4) {
        ns.push(100_000);
    }
    let workers = 1 + rng.below(8) as usize;
    let kindn = rng.below(4) as usize;
    let (sched, fallback, sched_name) = poll_schedule(&mut rng, kindn, file.len());
    let inf = (0..rng.below(12)).map(|_| rng.chance(1, 2)).collect();
    let sk = (0..rng.below(8)).map(|_| rng.chance(1, 2)).collect();
    Case { file, layout, chunks, kind, ns, workers, sched, fallback, sched_name, inf, sk }
}

fn split_run(s: &str) -> (&str, &str) {
    s.rsplit_once(" @").unwrap_or((s, ""))
}

fn check(ctx: &mut Ctx, cs: &Case, case: &str, emit_corr: bool) {
    let t = table(&cs.layout);
    let sync = run_sync(&cs.file, &cs.chunks, &cs.ns);
    let asy = run_async(&cs.file, &cs.chunks, &cs.ns, cs.workers, cs.sched.clone(), cs.fallback, &cs.sk);
    ctx.eval(if cs.layout.len() >= 2 && !cs.chunks.is_empty() { Some(fnv(case.as_bytes())) } else { None });
    let ends_ok = cs.chunks.iter().all(|c| end_ok(&cs.layout, &t, c.1));
    let nae = no_adjacent_empty(&cs.layout);
    ctx.bump(&format!("q_chunks_{}", cs.kind));
    ctx.bump(&format!("q_workers_{}", cs.workers));
    ctx.bump(&format!("q_schedule_{}", cs.sched_name));
    ctx.bump(&format!("q_seek_pendings_{}", cs.sk.iter().filter(|b| !**b).count().min(4)));
    ctx.bump(&format!("q_layout_blocks_{}", cs.layout.len().min(8)));
    if !ends_ok {
        ctx.bump("q_some_chunk_end_just_behind_an_empty_member(EndOk fails)");
    }
    if !nae {
        ctx.bump("q_layout_with_adjacent_empty_members");
    }
    if cs.layout.iter().take(cs.layout.len().saturating_sub(1)).any(|b| b.data.is_empty()) {
        ctx.bump("q_layout_with_empty_member_mid_file");
    }
    let how = format!("chunks {} ({}), consumer {}, workers {}, schedule {}, seek script {}", fmt_chunks(&cs.chunks), cs.kind, fmt_ns(&cs.ns), cs.workers, cs.sched_name, fmt_bits(&cs.sk));
    if sync == "panic" {
        ctx.bump("q_sync_query_panicked");
        return;
    }
    let (souts, spos) = split_run(&sync);
    for o in souts.split(' ') {
        ctx.bump(if o.starts_with("err:") { "q_result_error" } else if o == "-" || o.is_empty() { "q_result_empty_slice" } else { "q_result_bytes" });
        if o.starts_with("err:") {
            ctx.bump(&format!("q_error_{o}"));
        }
    }
    let asy = match asy {
        Ok(a) => a,
        Err(p) => {
            ctx.fail("csi-async-query-differs", format!("the async query reader panicked: {p}; the sync one answers {sync}; {how}"), case.into());
            return;
        }
    };
    let (aouts, apos) = split_run(&asy.first);
    let mut failed = false;
    if ends_ok && nae {
        // theorem `async_query_eq_sync_fresh`
        if aouts != souts || apos != spos {
            ctx.fail("csi-async-query-differs", format!("async query reader: {} ; sync query reader: {sync}; {how}", asy.first), case.into());
            failed = true;
        }
    } else if aouts != souts {
        ctx.bump("q_async_differs_from_sync_outside_the_theorem(chunk end behind an empty member / adjacent empty members)");
    } else if apos != spos {
        ctx.bump("q_final_position_differs_numerically_outside_the_theorem");
    }
    if ends_ok && !cs.chunks.is_empty() {
        // theorem `async_query_same_on_used_reader`
        let (bouts, _) = split_run(&asy.second);
        if bouts != aouts {
            ctx.fail("csi-async-query-second-differs", format!("the same query again on the used reader: {} ; first time: {}; {how}", asy.second, asy.first), case.into());
            failed = true;
        }
    }
    if emit_corr && !failed {
        if ends_ok {
            ctx.corr(
                format!("c16 query {} {} {} {} {} {} {}", cs.workers, fmt_layout(&cs.layout), fmt_chunks(&cs.chunks), fmt_ns(&cs.ns), fmt_sched(&cs.sched), fmt_bits(&cs.inf), fmt_bits(&cs.sk)),
                format!("A {} | S {sync}", asy.first),
            );
        } else {
            // the async result depends on the (uncontrolled) completion times of the inflate tasks
            ctx.corr(format!("c16 query-sync {} {} {}", fmt_layout(&cs.layout), fmt_chunks(&cs.chunks), fmt_ns(&cs.ns)), format!("S {sync}"));
        }
    }
}

fn layout_of(members: &[Vec<u8>], datas: &[&[u8]]) -> (Vec<u8>, Vec<Blk>) {
    let mut file = vec![];
    let mut layout = vec![];
    for (m, d) in members.iter().zip(datas.iter()) {
        file.extend_from_slice(m);
        layout.push(Blk { csize: m.len(), data: d.to_vec() });
    }
    (file, layout)
}

fn corpus(ctx: &mut Ctx) {
    let a = stored_member(b"noodles");
    let b = stored_member(b"bgzf");
    let e = EOF.to_vec();
    let (file, layout) = layout_of(&[a.clone(), e.clone(), b.clone(), e.clone()], &[b"noodles", b"", b"bgzf", b""]);
    let t = table(&layout);
    let c = |k: usize| t.coff[k] as u64;
    let total = file.len() as u64;
    let lists: Vec<(&'static str, Vec<(VP, VP)>)> = vec![
        ("empty-list", vec![]),
        ("empty-chunk", vec![((0, 3), (0, 3))]),
        ("whole", vec![((0, 0), (total, 0))]),
        ("end-inside-block", vec![((0, 2), (0, 5))]),
        ("end-at-block-boundary", vec![((0, 0), (c(1), 0))]),
        ("start-on-empty-member", vec![((c(1), 0), (c(2), 2))]),
        ("adjacent", vec![((0, 0), (0, 4)), ((0, 4), (c(2), 1)), ((c(2), 1), (c(3), 0))]),
        ("overlapping", vec![((0, 0), (c(2), 2)), ((0, 3), (c(3), 0))]),
        ("reversed", vec![((c(2), 0), (c(3), 0)), ((0, 0), (c(1), 0))]),
        ("start-at-eof", vec![((total, 0), (total, 0)), ((0, 0), (0, 1))]),
        ("start-beyond-block", vec![((0, 1), (0, 2)), ((0, 8), (c(1), 0)), ((c(2), 0), (c(3), 0))]),
        ("end-before-start", vec![((c(2), 1), (0, 0)), ((0, 1), (0, 0))]),
        ("eof-inside-chunk-then-more", vec![((c(2), 0), (total + 100, 0)), ((0, 0), (c(1), 0))]),
    ];
    for (i, (name, chunks)) in lists.into_iter().enumerate() {
        for (j, (sched, fallback, sk)) in [
            (vec![], 1usize, vec![]),
            (vec![Poll1::Pending, Poll1::Ready(3), Poll1::Pending, Poll1::Pending, Poll1::Ready(40), Poll1::Pending], usize::MAX, vec![false, true, false, false]),
            (vec![], 4096, vec![false]),
        ]
        .into_iter()
        .enumerate()
        {
            let cs = Case { file: file.clone(), layout: layout.clone(), chunks: chunks.clone(), kind: name, ns: vec![2, 100_000, 0, 100_000, 100_000, 100_000, 100_000], workers: 1 + (i + j) % 3, sched, fallback, sched_name: format!("corpus{j}"), inf: vec![false, true, false], sk };
            check(ctx, &cs, &format!("qcorpus {i} {j}"), true);
        }
    }
    // The witness of `async_query_end_after_empty_member_schedule_dependent`: the chunk ends at the
    // end of the empty member; the source answers Pending right after delivering that member.  One
    // worker: the outcome does not depend on when the inflate tasks finish.
    {
        let chunks = vec![((0, 0), (c(2), 0))];
        let ns = vec![100usize, 100, 100];
        let sched = vec![Poll1::Ready(a.len()), Poll1::Ready(e.len()), Poll1::Pending];
        let sync = run_sync(&file, &chunks, &ns);
        match run_async(&file, &chunks, &ns, 1, sched.clone(), usize::MAX, &[]) {
            Ok(r) => {
                ctx.corr(format!("c16 query 1 {} {} {} {} - -", fmt_layout(&layout), fmt_chunks(&chunks), fmt_ns(&ns), fmt_sched(&sched)), format!("A {} | S {sync}", r.first));
                let (ao, _) = split_run(&r.first);
                let (so, _) = split_run(&sync);
                ctx.bump(if ao != so { "q_witness_end_after_empty_member:async(7 bytes)!=sync(11 bytes) reproduced on the real code" } else { "q_witness_end_after_empty_member:NOT reproduced" });
            }
            Err(p) => ctx.fail("csi-async-query-differs", format!("witness end-after-empty: async panicked: {p}"), "qcorpus witness".into()),
        }
    }
    // The witness of `async_query_after_cancelled_seek_differs`: a query dropped while its seek is
    // Pending (in `Finish`), then another query on the same reader.
    {
        let (file, layout) = layout_of(&[a.clone(), b.clone(), e.clone()], &[b"noodles", b"bgzf", b""]);
        let t = table(&layout);
        let chunks0 = vec![((t.coff[1] as u64, 0), (t.coff[2] as u64, 0))];
        let chunks = vec![((0u64, 0u16), (t.coff[1] as u64, 0u16))];
        let ns = vec![100usize];
        let sched = vec![Poll1::Pending];
        match run_async_cancel(&file, &chunks0, 1, &chunks, &ns, 1, sched.clone(), usize::MAX, &[]) {
            Ok(r) => {
                ctx.corr(format!("c16 query-cancel 1 {} {} 1 {} {} {} - -", fmt_layout(&layout), fmt_chunks(&chunks0), fmt_chunks(&chunks), fmt_ns(&ns), fmt_sched(&sched)), r.clone());
                let fresh = run_async(&file, &chunks, &ns, 1, vec![], usize::MAX, &[]).map(|r| r.first).unwrap_or_else(|_| "panic".into());
                ctx.bump(if format!("A {fresh}") != r { "q_witness_cancelled_seek:second query reads the first query's block (reproduced on the real code)" } else { "q_witness_cancelled_seek:NOT reproduced" });
            }
            Err(p) => ctx.fail("csi-async-query-differs", format!("witness cancelled-seek: async panicked: {p}"), "qcorpus witness".into()),
        }
    }
}

/// a malformed stream: the file is cut inside a member the chunk covers — both readers must report
/// the same error class (oracle only; the layout model has no damaged members)
fn damaged(ctx: &mut Ctx, sub: u64) {
    let mut rng = Rng::new(sub);
    let (file, layout) = gen_file(&mut rng);
    if file.len() < 30 || layout.is_empty() {
        return;
    }
    let cut = 1 + rng.below(file.len() as u64 - 1) as usize;
    let file = file[..cut].to_vec();
    let chunks = vec![((0u64, 0u16), (file.len() as u64 + 100, 0u16))];
    let ns = vec![100_000usize; layout.len() + 3];
    let sync = run_sync(&file, &chunks, &ns);
    let kindn = rng.below(4) as usize;
    let (sched, fallback, name) = poll_schedule(&mut rng, kindn, file.len());
    let asy = run_async(&file, &chunks, &ns, 1 + rng.below(4) as usize, sched, fallback, &[]);
    ctx.eval(Some(fnv(format!("qdamaged {sub}").as_bytes())));
    let (so, _) = split_run(&sync);
    ctx.bump(if so.contains("err:") { "q_damaged_sync_error" } else { "q_damaged_sync_clean" });
    match asy {
        Ok(a) => {
            let (ao, _) = split_run(&a.first);
            if so.contains("err:") {
                // The sync path REJECTS this input: as in the BGZF layer, WHICH error class the async
                // side reports for the same truncation is recorded, not judged; that it delivers the same
                // slices before and then reports an error is judged.
                let cut_err = |x: &str| x.split(' ').filter(|o| !o.starts_with("err:")).collect::<Vec<_>>().join(" ");
                let aerr = ao.split(' ').find(|o| o.starts_with("err:")).unwrap_or("none");
                let serr = so.split(' ').find(|o| o.starts_with("err:")).unwrap_or("none");
                ctx.bump(&format!("q_damaged_sync_{serr}_async_{aerr}"));
                if aerr == "none" || cut_err(ao) != cut_err(so) {
                    ctx.fail("csi-async-query-differs", format!("file cut at {cut}: the sync query reader rejects the stream ({sync}), the async one answers {} ; schedule {name}", a.first), format!("qdamaged {sub}"));
                }
                // GENUINE DEFECT (bgzf async poll_seek): after a poll_seek that failed on a stream error
                // the reader has neither a stream nor a seek state; the next query panics where the
                // sync reader reports the error again
                if a.second.starts_with("panic") {
                    ctx.fail("bgzf-async-poll-seek-poisoned", format!("file cut at {cut}: the first query failed ({}), the same query again on the same async reader panicked ({}); the sync reader answers {sync} both times", a.first, a.second), format!("qdamaged {sub}"));
                }
            } else if ao != so {
                // a trailing fragment shorter than a block header: known finding of the BGZF layer
                // (sync = clean EOF, async = UnexpectedEof) — classified there, not here
                let t = table(&layout);
                let frag = cut - t.coff.iter().copied().filter(|c| *c <= cut).max().unwrap_or(0);
                if frag < 18 {
                    ctx.bump("q_damaged_trailing_fragment_lt_18(known BGZF-layer finding)");
                } else {
                    ctx.fail("csi-async-query-differs", format!("file cut at {cut}: async query reader {} ; sync {sync}; schedule {name}", a.first), format!("qdamaged {sub}"));
                }
            }
        }
        Err(p) => ctx.fail("csi-async-query-differs", format!("file cut at {cut}: the async query reader panicked: {p}; sync {sync}"), format!("qdamaged {sub}")),
    }
}

pub fn run(ctx: &mut Ctx) {
    corpus(ctx);
    let n = ctx.n(400, 12_000);
    for it in 0..n {
        let sub = ctx.seed.wrapping_mul(16_000_771).wrapping_add(it);
        let cs = case_of(sub);
        let big = cs.layout.iter().map(|b| b.data.len()).sum::<usize>() > 3000;
        check(ctx, &cs, &format!("query {sub}"), !big);
    }
    let n = ctx.n(60, 2_000);
    for it in 0..n {
        damaged(ctx, ctx.seed.wrapping_mul(16_000_783).wrapping_add(it));
    }
    ctx.sample(|| "c16 query 2 35:6e6f6f646c6573,28:-,31:62677a66,28:- 0/2:35/0,63/1:94/0 2,100000,100000,100000 p,3,p,40 010 0100".into());
}

pub fn replay(ctx: &mut Ctx, case: &[String]) -> bool {
    let sub: u64 = case.get(1).and_then(|s| s.parse().ok()).unwrap_or(0);
    match case.first().map(|s| s.as_str()) {
        Some("query") => {
            check(ctx, &case_of(sub), &format!("query {sub}"), false);
            true
        }
        Some("qdamaged") => {
            damaged(ctx, sub);
            true
        }
        Some("qcorpus") => {
            corpus(ctx);
            let want = case.join(" ");
            ctx.failures.retain(|f| f.2 == want);
            true
        }
        _ => false,
    }
}
