//! C15, text side: hostile LINES through the lazy text records and line readers, compared with the
//! `Res`-valued Lean transcriptions of `lean/Noodles/Hostile/{TextKit,SamText,VcfText,BedText,
//! GffText,FastxText}.lean` (request words `c15 t…`, handled by `DriverC15Text.lean`).
//!
//! * correspondence: for every format a hand-written boundary corpus first, then every truncation,
//!   every single-byte deletion, single-byte substitutions by structural / multibyte / control
//!   bytes at every position, insertions of CR, TAB and 2/3/4-byte UTF-8 characters at every
//!   position, every column replaced by hostile tokens (empty, missing markers, huge digit
//!   strings, signs), line-ending variants, and streams of arbitrary bytes. The answer is the error
//!   class, or the bytes / parsed class of EVERY accessor; a panic is the word `panic` and is an
//!   oracle failure `panic:corr:<suite>` with a replay.
//! * oracle: multi-record hostile FILES through one reader (buffer reuse), every record touched
//!   through the inherent accessors, the `alignment::Record` / `variant::Record` traits, the eager
//!   conversions, `Debug`; iterators must end (`cigar-iter-unbounded`).
//!
//! The models describe the code AFTER `fixes/text-record-cr.diff`. `NVH_C15_TEXT_ASIS=1` requests the transcription of the code
//! as it is instead (`tsam0`, `tvcf0`, `tbed0`): that mode must agree on the unfixed tree.
use crate::common::*;
use noodles_bed as bed;
use noodles_fasta as fasta;
use noodles_fastq as fastq;
use noodles_gff as gff;
use noodles_gtf as gtf;
use noodles_sam as sam;
use noodles_vcf as vcf;
use std::io::BufRead;

thread_local! {
    /// replay: only the request with this hash is evaluated
    static ONLY: std::cell::Cell<Option<u64>> = const { std::cell::Cell::new(None) };
}

fn only() -> Option<u64> {
    ONLY.with(|o| o.get())
}

/// one correspondence request (same contract as `emit` in `c15/corr.rs`)
fn emit(ctx: &mut Ctx, req: String, f: impl FnOnce() -> String) {
    let h = fnv(req.as_bytes());
    if let Some(o) = only() {
        if o != h {
            return;
        }
    }
    let suite = req.split(' ').nth(1).unwrap_or("?").to_string();
    let ans = match guarded(f) {
        Ok(a) => a,
        Err(p) => {
            ctx.eval(Some(h));
            let shown = if req.len() > 600 { format!("{}…", &req[..600]) } else { req.clone() };
            ctx.fail(&format!("panic:corr:{suite}"), format!("PANIC {p} — request `{shown}`"), format!("text {suite} {h}"));
            "panic".to_string()
        }
    };
    let head: String = if ans.starts_with("err") || ans.starts_with("panic") || ans == "eof" {
        ans.split(' ').next().unwrap_or("").to_string()
    } else if let Some(p) = ans.find("kind=") {
        ans[p..].split(' ').take(2).filter(|w| w.starts_with("kind=") || w.starts_with("err")).collect::<Vec<_>>().join(":")
    } else {
        "ok".to_string()
    };
    ctx.bump(&format!("text:{suite}:{head}"));
    branches(ctx, &suite, &req, &ans);
    ctx.corr(req, ans);
}

/// branch counters: which paths of the modelled functions an input takes, read off the input
/// (columns, line ending, carriage returns, multibyte) and off the answer (missing markers,
/// value types, error items)
fn branches(ctx: &mut Ctx, suite: &str, req: &str, ans: &str) {
    let suite = suite.trim_end_matches('0');
    if suite == "tlex" {
        return;
    }
    let words: Vec<&str> = req.split(' ').collect();
    let input = unhex(words.get(if suite == "tbed" { 3 } else { 2 }).copied().unwrap_or("-"));
    let first_line_end = input.iter().position(|&b| b == b'\n');
    let line = &input[..first_line_end.unwrap_or(input.len())];
    let tabs = line.iter().filter(|&&b| b == b'\t').count();
    let mut feats: Vec<String> = vec![format!("tabs={}", if tabs > 12 { "13+".to_string() } else { tabs.to_string() })];
    feats.push(
        match (first_line_end, line.last()) {
            (None, _) => "end=none",
            (Some(_), Some(b'\r')) => "end=crlf",
            (Some(_), _) => "end=lf",
        }
        .to_string(),
    );
    if line.windows(2).any(|w| w == b"\r\t") {
        feats.push("cr-before-tab".into());
    }
    if line.ends_with(b"\t") || line.ends_with(b"\t\r") {
        feats.push("empty-last-column".into());
    }
    if line.windows(2).any(|w| w == b"\r\t") && (line.ends_with(b"\t") || line.ends_with(b"\t\r")) {
        feats.push("cr-defect-shape".into());
    }
    if line.iter().any(|&b| b >= 0x80) {
        feats.push(if std::str::from_utf8(line).is_ok() { "multibyte-valid".into() } else { "non-utf8".into() });
    }
    if first_line_end.map(|e| e + 1 < input.len()).unwrap_or(false) {
        feats.push("more-lines".into());
    }
    if input.is_empty() {
        feats.push("empty-input".into());
    }
    let markers: &[&str] = match suite {
        "tsam" => &[
            "name=none", "rname=none", "pos=none", "pos=err", "pos=ok", "mapq=none", "mapq=err", "mapq=ok", "flags=err", "cigar=-", "rnext=none", "pnext=err", "tlen=err", "seq=-", "qual=-", "data=-",
            ":A:", ":i:i", ":i:u", ":f:", ":Z:", ":H:", ":B:c/", ":B:C/", ":B:s/", ":B:S/", ":B:i/", ":B:I/", ":B:f/", "!eof", "!invalid-data", "/0/-", ";!", "/!", "M,", "!,", ",!",
        ],
        "tcigar" => &["!", "M", "=", "X", ".."],
        "tvcf" => &[
            "pos=none", "pos=err", "ids=~", "alts=~", "qual=none", "filters=~", "info=~", "info=skip", "=.", "keys=~", "samples=~", "gt=~", "gt=-", ".|", "./", "|;", "/;", "!", "+",
        ],
        "tbed" => &["other=~", " none", " err", " +", " -"],
        "tgff" | "tgtf" => &["value=none", "score=none", "score=some", "strand=err", "strand=?", "phase=err", "phase=none", "start=err", "attrs=-"],
        "tfastq" => &["desc=-", "seq=-", "qual=-", "name=-"],
        "tfasta" => &["desc=-", "seq=-"],
        _ => &[],
    };
    for m in markers {
        if ans.contains(m) {
            feats.push(format!("ans:{m}"));
        }
    }
    for f in feats {
        ctx.bump(&format!("text:branch:{suite}:{f}"));
    }
}

fn asis() -> bool {
    std::env::var("NVH_C15_TEXT_ASIS").is_ok()
}

fn word(base: &str) -> String {
    if asis() { format!("{base}0") } else { base.to_string() }
}

fn list(items: &[Vec<u8>]) -> String {
    if items.is_empty() { "~".into() } else { items.iter().map(|b| hex(b)).collect::<Vec<_>>().join(",") }
}

// ---------------------------------------------------------------- hostile line generation

/// bytes substituted at every position
const SUBS: &[u8] = &[
    b'\t', b'\n', b'\r', 0, b' ', b':', b';', b'=', b',', b'*', b'.', b'0', b'9', b'+', b'-', b'|', b'/', b'#', b'>', b'@', b'%', b'"', 0x7f, 0x80, 0xbf, 0xc3, 0xe2,
    0xf0, 0xff,
];
/// strings inserted at every position
const INSERTS: &[&[u8]] = &[b"\r", b"\t", b"\n", "\u{e9}".as_bytes(), "\u{20ac}".as_bytes(), "\u{1f600}".as_bytes(), b"\r\n", b"\t\t", b":", b";"];
/// tokens every column is replaced by
const TOKENS: &[&[u8]] = &[
    b"",
    b"*",
    b".",
    b"=",
    b"0",
    b"1",
    b"00",
    b"+0",
    b"-0",
    b"+",
    b"-",
    b"+5",
    b"255",
    b"0255",
    b"256",
    b"65535",
    b"65536",
    b"2147483647",
    b"2147483648",
    b"-2147483648",
    b"-2147483649",
    b"4294967295",
    b"4294967296",
    b"18446744073709551615",
    b"18446744073709551616",
    b"99999999999999999999999999999999999999",
    b"-99999999999999999999999999999999999999",
    b"1e5",
    b"\r",
    b"x\r",
    "\u{e9}".as_bytes(),
    b"\xc3",
    b"\xa9",
    b"GT",
    b"9M",
    b"99999999999999999999M",
    b"XX:i:1",
];

struct Gen {
    rng: Rng,
    thorough: bool,
}

impl Gen {
    fn new(seed: u64, salt: u64, thorough: bool) -> Self {
        Gen { rng: Rng::new(seed ^ salt.wrapping_mul(0x9E37_79B9_7F4A_7C15)), thorough }
    }

    /// every truncation / deletion, substitutions and insertions at every position, every column
    /// replaced by the hostile tokens (`extra` = format-specific ones), line-ending variants
    fn mutants(&mut self, line: &[u8], extra: &[&[u8]]) -> Vec<Vec<u8>> {
        let mut out: Vec<Vec<u8>> = vec![line.to_vec()];
        let n = line.len();
        for k in 0..n {
            out.push(line[..k].to_vec());
        }
        for k in 0..n {
            let mut v = line.to_vec();
            v.remove(k);
            out.push(v);
        }
        let nsub = if self.thorough { SUBS.len() } else { 3 };
        for k in 0..n {
            let off = self.rng.below(SUBS.len() as u64) as usize;
            for j in 0..nsub {
                let b = SUBS[(off + j * 7) % SUBS.len()];
                if b != line[k] {
                    let mut v = line.to_vec();
                    v[k] = b;
                    out.push(v);
                }
            }
        }
        let nins = if self.thorough { INSERTS.len() } else { 2 };
        for k in 0..=n {
            let off = self.rng.below(INSERTS.len() as u64) as usize;
            for j in 0..nins {
                let ins = INSERTS[(off + j * 3) % INSERTS.len()];
                let mut v = line[..k].to_vec();
                v.extend_from_slice(ins);
                v.extend_from_slice(&line[k..]);
                out.push(v);
            }
        }
        // columns
        let body: &[u8] = line.strip_suffix(b"\n").unwrap_or(line);
        let body: &[u8] = body.strip_suffix(b"\r").unwrap_or(body);
        let cols: Vec<&[u8]> = body.split(|&b| b == b'\t').collect();
        let all: Vec<&[u8]> = TOKENS.iter().chain(extra.iter()).copied().collect();
        let ntok = if self.thorough { all.len() } else { 6 };
        for c in 0..cols.len() {
            let off = self.rng.below(all.len() as u64) as usize;
            for j in 0..ntok {
                let tok = all[(off + j * 5) % all.len()];
                let mut cs: Vec<&[u8]> = cols.clone();
                cs[c] = tok;
                let mut v = cs.join(&b'\t');
                v.push(b'\n');
                out.push(v);
            }
            // a CR closing the column (the carriage-return defect needs it before a TAB)
            let mut cs: Vec<Vec<u8>> = cols.iter().map(|c| c.to_vec()).collect();
            cs[c].push(b'\r');
            let mut v = cs.join(&b'\t');
            v.push(b'\n');
            out.push(v.clone());
            // … followed by an empty column and the end of the line
            let mut v2 = cs[..=c].join(&b'\t');
            v2.extend_from_slice(b"\t\n");
            out.push(v2);
            let mut v3 = cs[..=c].join(&b'\t');
            v3.extend_from_slice(b"\t\r\n");
            out.push(v3);
        }
        // line endings
        for tail in [&b""[..], b"\r\n", b"\r", b"\n\n", b"\r\r\n", b"\t\n", b"\t\r\n", b"\t"] {
            let mut v = body.to_vec();
            v.extend_from_slice(tail);
            out.push(v);
        }
        let mut v = line.to_vec();
        v.extend_from_slice(line);
        out.push(v);
        out
    }

    /// arbitrary bytes from an alphabet in which the structural bytes are frequent
    fn arbitrary(&mut self, alphabet: &[u8], max: usize) -> Vec<u8> {
        let n = self.rng.below(max as u64 + 1) as usize;
        (0..n)
            .map(|_| match self.rng.below(10) {
                0 => self.rng.next() as u8,
                1 => *self.rng.pick(&[b'\t', b'\t', b'\n', b'\r']),
                _ => *self.rng.pick(alphabet),
            })
            .collect()
    }

    /// a malformed stream: pieces of valid lines, tokens and delimiters glued at random
    fn stream(&mut self, seeds: &[&[u8]], extra: &[&[u8]], max_parts: u64) -> Vec<u8> {
        let mut v = vec![];
        for _ in 0..self.rng.range(1, max_parts) {
            match self.rng.below(6) {
                0 => v.extend_from_slice(*self.rng.pick(TOKENS)),
                1 if !extra.is_empty() => v.extend_from_slice(*self.rng.pick(extra)),
                2 => v.push(*self.rng.pick(&[b'\t', b'\n', b'\r', b':', b';', b',', b'=', b' '])),
                3 => v.push(b'\t'),
                _ => {
                    let s = *self.rng.pick(seeds);
                    let a = self.rng.below(s.len() as u64 + 1) as usize;
                    let b = a + self.rng.below((s.len() - a) as u64 + 1) as usize;
                    v.extend_from_slice(&s[a..b]);
                }
            }
        }
        v
    }
}

// ---------------------------------------------------------------- lexical-core

fn lex_case(ctx: &mut Ctx, kind: &str, s: &[u8]) {
    let (k, b) = (kind.to_string(), s.to_vec());
    emit(ctx, format!("c15 tlex {kind} {}", hex(s)), move || {
        fn show<T: std::fmt::Display>(r: lexical_core::Result<(T, usize)>) -> String {
            match r {
                Ok((v, i)) => format!("ok:{v}:{i}"),
                Err(lexical_core::Error::Overflow(_)) => "err:overflow".into(),
                Err(_) => "err:other".into(),
            }
        }
        match k.as_str() {
            "usize" => show(lexical_core::parse_partial::<usize>(&b)),
            "i32" => show(lexical_core::parse_partial::<i32>(&b)),
            _ => show(lexical_core::parse_partial::<u32>(&b)),
        }
    });
}

fn lex_suite(ctx: &mut Ctx, g: &mut Gen) {
    let corpus: &[&[u8]] = &[
        b"", b"+", b"-", b"+M", b"-M", b"M", b"0", b"00", b"+0", b"-0", b"8M", b"+8M", b"-8M", b"--1", b"+-1", b"++1", b" 1", b"1 ", b"1\t", b"\t", b"2147483647", b"2147483648",
        b"-2147483648", b"-2147483649", b"4294967295", b"4294967296", b"18446744073709551615", b"18446744073709551616", b"18446744073709551615M", b"99999999999999999999999",
        b"-99999999999999999999999", b"00000000000000000000000000000000000001", b"1e5", b"1.5", b"0x10", b"1_000", b"\xc3\xa9", b"9\xff",
    ];
    for kind in ["usize", "i32", "u32"] {
        for s in corpus {
            lex_case(ctx, kind, s);
        }
        for _ in 0..ctx.n(300, 6000) {
            let s = match g.rng.below(3) {
                0 => g.arbitrary(b"0123456789+-M", 24),
                1 => {
                    let mut v = if g.rng.chance(1, 3) { vec![*g.rng.pick(b"+-")] } else { vec![] };
                    for _ in 0..g.rng.range(1, 22) {
                        v.push(b'0' + g.rng.below(10) as u8);
                    }
                    if g.rng.chance(1, 2) {
                        v.push(*g.rng.pick(b"MIDNSHP=X\t,;"));
                    }
                    v
                }
                _ => {
                    // around the type limits
                    let base: u128 = *g.rng.pick(&[127u128, 255, 32767, 65535, 2147483647, 2147483648, 4294967295, 18446744073709551615]);
                    let v = base + g.rng.below(3) as u128 - 1;
                    let mut s = if g.rng.chance(1, 3) { b"-".to_vec() } else { vec![] };
                    s.extend_from_slice(v.to_string().as_bytes());
                    s
                }
            };
            lex_case(ctx, kind, &s);
        }
    }
}

// ---------------------------------------------------------------- SAM

fn kind_char(k: sam::alignment::record::cigar::op::Kind) -> char {
    use sam::alignment::record::cigar::op::Kind::*;
    match k {
        Match => 'M',
        Insertion => 'I',
        Deletion => 'D',
        Skip => 'N',
        SoftClip => 'S',
        HardClip => 'H',
        Pad => 'P',
        SequenceMatch => '=',
        SequenceMismatch => 'X',
    }
}

/// `Cigar::iter` taken `len + 1` times: more than `len` items means the iterator does not end
fn cigar_shown(c: &sam::record::Cigar<'_>) -> (String, bool) {
    let len = c.as_ref().len();
    let mut items: Vec<String> = c
        .iter()
        .take(len + 1)
        .map(|r| match r {
            Ok(op) => format!("{}{}", op.len(), kind_char(op.kind())),
            Err(_) => "!".to_string(),
        })
        .collect();
    let unbounded = items.len() > len;
    if unbounded {
        items.push("..".into());
    }
    (if items.is_empty() { "-".into() } else { items.join(",") }, unbounded)
}

fn sam_value(v: &sam::alignment::record::data::field::Value<'_>) -> String {
    use sam::alignment::record::data::field::{value::Array, Value};
    fn elems<T: std::fmt::Display>(x: &dyn sam::alignment::record::data::field::value::array::Values<'_, T>) -> String {
        let v: Vec<String> = x.iter().map(|e| e.map(|n| n.to_string()).unwrap_or_else(|_| "!".into())).collect();
        format!("{}/{}", x.len(), if v.is_empty() { "-".to_string() } else { v.join(";") })
    }
    match v {
        Value::Character(b) => format!("A:{}", hex(&[*b])),
        Value::Int32(n) => format!("i:i{n}"),
        Value::UInt32(n) => format!("i:u{n}"),
        Value::Float(f) => format!("f:{}", f.to_bits()),
        Value::String(s) => format!("Z:{}", hex(s)),
        Value::Hex(s) => format!("H:{}", hex(s)),
        Value::Array(a) => match a {
            Array::Int8(x) => format!("B:c/{}", elems(x.as_ref())),
            Array::UInt8(x) => format!("B:C/{}", elems(x.as_ref())),
            Array::Int16(x) => format!("B:s/{}", elems(x.as_ref())),
            Array::UInt16(x) => format!("B:S/{}", elems(x.as_ref())),
            Array::Int32(x) => format!("B:i/{}", elems(x.as_ref())),
            Array::UInt32(x) => format!("B:I/{}", elems(x.as_ref())),
            Array::Float(x) => format!("B:f/{}/~", x.len()),
        },
        other => format!("?{other:?}"),
    }
}

fn sam_data(d: &sam::record::Data<'_>) -> String {
    let mut items = vec![];
    for f in d.iter().take(d.as_ref().len() + 1) {
        match f {
            Ok((tag, v)) => items.push(format!("{}:{}", hex(tag.as_ref()), sam_value(&v))),
            Err(e) => {
                items.push(if e.kind() == std::io::ErrorKind::UnexpectedEof { "!eof".to_string() } else { "!invalid-data".to_string() });
                break;
            }
        }
    }
    if items.is_empty() { "-".into() } else { items.join(",") }
}

fn pos_shown(p: Option<std::io::Result<noodles_core::Position>>) -> String {
    match p {
        None => "none".into(),
        Some(Ok(p)) => format!("ok:{}", usize::from(p)),
        Some(Err(_)) => "err".into(),
    }
}

fn opt_hex(b: Option<&[u8]>) -> String {
    b.map(hex).unwrap_or_else(|| "none".into())
}

fn sam_answer(input: &[u8]) -> String {
    let mut rd = sam::io::Reader::new(input);
    let mut rec = sam::Record::default();
    let n = match rd.read_record(&mut rec) {
        Ok(n) => n,
        Err(e) => return errclass(&e).into(),
    };
    let name = opt_hex(rec.name().map(|b| b.as_ref()));
    let flags = rec.flags().map(|f| format!("ok:{}", f.bits())).unwrap_or_else(|_| "err".into());
    let rname = opt_hex(rec.reference_sequence_name().map(|b| b.as_ref()));
    let pos = pos_shown(rec.alignment_start());
    let mapq = match rec.mapping_quality() {
        None => "none".to_string(),
        Some(Ok(m)) => format!("ok:{}", m.get()),
        Some(Err(_)) => "err".into(),
    };
    let (cigar, _) = cigar_shown(&rec.cigar());
    let rnext = opt_hex(rec.mate_reference_sequence_name().map(|b| b.as_ref()));
    let pnext = pos_shown(rec.mate_alignment_start());
    let tlen = rec.template_length().map(|n| format!("ok:{n}")).unwrap_or_else(|_| "err".into());
    let seq = hex(rec.sequence().as_ref());
    let qual = hex(rec.quality_scores().as_ref());
    let data = sam_data(&rec.data());
    format!("ok n={n} name={name} flags={flags} rname={rname} pos={pos} mapq={mapq} cigar={cigar} rnext={rnext} pnext={pnext} tlen={tlen} seq={seq} qual={qual} data={data}")
}

/// the real crate's `parse_partial::<f32>` on every token that follows `:f:` (up to the next TAB
/// or line end, with and without a closing CR): the table the model's float parser is
fn f32_table(ctx: &mut Ctx, input: &[u8]) -> String {
    let mut toks: Vec<Vec<u8>> = vec![];
    for j in 0..input.len().saturating_sub(2) {
        if &input[j..j + 3] == b":f:" {
            let rest = &input[j + 3..];
            let end = rest.iter().position(|&b| b == b'\t' || b == b'\n').unwrap_or(rest.len());
            let mut t = rest[..end].to_vec();
            loop {
                if !toks.contains(&t) {
                    toks.push(t.clone());
                }
                if t.last() == Some(&b'\r') {
                    t.pop();
                } else {
                    break;
                }
            }
        }
    }
    let mut out = vec![];
    for t in toks {
        match lexical_core::parse_partial::<f32>(&t) {
            Ok((v, i)) => {
                if i > t.len() {
                    ctx.fail("lexical-law", format!("parse_partial::<f32> read {i} bytes of a {}-byte input {}", t.len(), hex(&t)), format!("text law {}", hex(&t)));
                }
                // a float never extends over a TAB: the answer on the whole rest is the same
                out.push(format!("{}:{}:{}", hex(&t), v.to_bits(), i));
            }
            Err(_) => out.push(format!("{}:e", hex(&t))),
        }
    }
    if out.is_empty() { "-".into() } else { out.join(",") }
}

fn sam_case(ctx: &mut Ctx, input: &[u8]) {
    let table = f32_table(ctx, input);
    let b = input.to_vec();
    emit(ctx, format!("c15 {} {} {}", word("tsam"), hex(input), table), move || sam_answer(&b));
}

fn cigar_case(ctx: &mut Ctx, s: &[u8]) {
    let b = s.to_vec();
    emit(ctx, format!("c15 tcigar {}", hex(s)), move || cigar_shown(&sam::record::Cigar::new(&b)).0);
}

pub const SAM_SEEDS: &[&[u8]] = &[
    b"r0\t99\tsq0\t100\t60\t8M2I4M1D3M\t=\t200\t150\tACGTACGTACGTACGTA\tIIIIIIIIIIIIIIIII\tNH:i:1\tXA:A:c\tXF:f:1.5\tXZ:Z:hello world\tXH:H:1AE301\tXB:B:c,-1,2\tXC:B:C,1,255\tXS:B:s,-32768\tXT:B:S,65535\tXI:B:i,-2147483648\tXJ:B:I,4294967295\tXG:B:f,1.5,-2e3\tXE:B:c\tXU:i:4294967295\n",
    b"*\t4\t*\t0\t255\t*\t*\t0\t0\t*\t*\n",
    b"r1\t0\tsq0\t1\t0\t4M\t*\t0\t0\tACGT\t*\r\n",
    b"r2\t163\tsq1\t5\t30\t2S3M\tsq2\t7\t-20\tACGTA\t!!!!!\tRG:Z:g\tXN:i:-7",
    b"r3\t16\tsq0\t2147483647\t254\t1H2S3M4=5X6I7D8N9P\t=\t1\t-2147483648\tACGTACGTACGTACGTACGTACGTACGTAC\t*\tXY:f:-inf\tXW:f:nan\tXV:B:f\r\n",
];

fn sam_suite(ctx: &mut Ctx, g: &mut Gen) {
    // corpus: the boundary cases, the carriage-return witnesses first
    let corpus: &[&[u8]] = &[
        b"r\t0\t*\t0\t0\t*\t*\t0\t0\tA\r\t\n",
        b"r\t0\t*\t0\t0\t*\t*\t0\t0\tA\tI\r\t\n",
        b"r\t0\t*\t0\t0\t*\t*\t0\t0\tA\r\t\r\n",
        b"r\t0\t*\t0\t0\t*\t*\t0\t0\t\r\t\n",
        b"r\t0\t*\t0\t0\t*\t*\t0\t0\tA\tI\r\t\r\n",
        b"r\t0\t*\t0\t0\t*\t*\t0\t0\tA\tI\r\n",
        b"r\t0\t*\t0\t0\t*\t*\t0\t0\tA\tI\r\tNH:i:1\n",
        b"r\t0\t*\t0\t0\t*\t*\t0\t0\tA\tI\t\r\n",
        b"r\t0\t*\t0\t0\t*\t*\t0\t0\tA\tI\tNH:i:1\r\n",
        b"r\t0\t*\t0\t0\t*\t*\t0\t0\tA\tI\tNH:i:1\r",
        b"",
        b"\n",
        b"\r\n",
        b"\r",
        b"\t",
        b"\t\t\t\t\t\t\t\t\t\t",
        b"\t\t\t\t\t\t\t\t\t\t\n",
        b"\t\t\t\t\t\t\t\t\t\t\t",
        b"\t\t\t\t\t\t\t\t\t\t\t\n",
        b"\t\t\t\t\t\t\t\t\t\n",
        b"r",
        b"r\n",
        b"r\t0",
        b"r\t0\t*\t0\t0\t*\t*\t0\t0\tA",
        b"r\t0\t*\t0\t0\t*\t*\t0\t0\tA\t",
        b"r\t0\t*\t0\t0\t*\t*\t0\t0\tA\tI",
        b"r\t0\t*\t0\t0\t*\t*\t0\t0\tA\tI\t",
        b"r\t0\t*\t0\t0\t*\t*\t0\t0\tA\tI\t\n",
        b"r\t0\t*\t0\t0\t+\t*\t0\t0\tA\tI\n",
        b"r\t0\t*\t0\t0\t99999999999999999999M\t*\t0\t0\tA\tI\n",
        b"r\t0\t*\t0\t0\t18446744073709551615M18446744073709551615M\t*\t0\t0\tA\tI\n",
        b"r\t0\t*\t0\t0\tM\t*\t0\t0\tA\tI\n",
        b"r\t0\t*\t0\t0\t8\t*\t0\t0\tA\tI\n",
        b"r\t0\t*\t0\t0\t8Z\t*\t0\t0\tA\tI\n",
        b"r\t0\t=\t0\t0\t*\t=\t0\t0\tA\tI\n",
        b"r\t0\t*\t0\t0\t*\t=\t0\t0\tA\tI\n",
        b"=\t0\t=\t0\t255\t*\t=\t0\t0\t*\t*\n",
        b"r\t65535\tsq\t00\t0255\t*\t*\t+0\t-0\tA\tI\n",
        b"r\t65536\tsq\t18446744073709551615\t256\t*\t*\t18446744073709551616\t2147483648\tA\tI\n",
        b"r\t0\t*\t0\t0\t*\t*\t0\t0\tA\tI\tXX\n",
        b"r\t0\t*\t0\t0\t*\t*\t0\t0\tA\tI\tXX:\n",
        b"r\t0\t*\t0\t0\t*\t*\t0\t0\tA\tI\tXX:i\n",
        b"r\t0\t*\t0\t0\t*\t*\t0\t0\tA\tI\tXX:i:\n",
        b"r\t0\t*\t0\t0\t*\t*\t0\t0\tA\tI\tXX:i:+\n",
        b"r\t0\t*\t0\t0\t*\t*\t0\t0\tA\tI\tXX:i:2147483648\n",
        b"r\t0\t*\t0\t0\t*\t*\t0\t0\tA\tI\tXX:i:4294967296\n",
        b"r\t0\t*\t0\t0\t*\t*\t0\t0\tA\tI\tXX:i:-2147483649\n",
        b"r\t0\t*\t0\t0\t*\t*\t0\t0\tA\tI\tXX:i:1x\n",
        b"r\t0\t*\t0\t0\t*\t*\t0\t0\tA\tI\tXX:A:\n",
        b"r\t0\t*\t0\t0\t*\t*\t0\t0\tA\tI\tXX:A:ab\n",
        b"r\t0\t*\t0\t0\t*\t*\t0\t0\tA\tI\tXX:A:\t\n",
        b"r\t0\t*\t0\t0\t*\t*\t0\t0\tA\tI\tXX:Z:\n",
        b"r\t0\t*\t0\t0\t*\t*\t0\t0\tA\tI\tXX:Z:\tYY:Z:\t\n",
        b"r\t0\t*\t0\t0\t*\t*\t0\t0\tA\tI\tXX:H:zz\n",
        b"r\t0\t*\t0\t0\t*\t*\t0\t0\tA\tI\tXX:B\n",
        b"r\t0\t*\t0\t0\t*\t*\t0\t0\tA\tI\tXX:B:\n",
        b"r\t0\t*\t0\t0\t*\t*\t0\t0\tA\tI\tXX:B:c\n",
        b"r\t0\t*\t0\t0\t*\t*\t0\t0\tA\tI\tXX:B:c,\n",
        b"r\t0\t*\t0\t0\t*\t*\t0\t0\tA\tI\tXX:B:c,,\n",
        b"r\t0\t*\t0\t0\t*\t*\t0\t0\tA\tI\tXX:B:c1\n",
        b"r\t0\t*\t0\t0\t*\t*\t0\t0\tA\tI\tXX:B:c\tNH:i:1\n",
        b"r\t0\t*\t0\t0\t*\t*\t0\t0\tA\tI\tXX:B:c,128,-129,1\n",
        b"r\t0\t*\t0\t0\t*\t*\t0\t0\tA\tI\tXX:B:z,1\n",
        b"r\t0\t*\t0\t0\t*\t*\t0\t0\tA\tI\tXX:B:f,1.5,x\n",
        b"r\t0\t*\t0\t0\t*\t*\t0\t0\tA\tI\tXX:f:\n",
        b"r\t0\t*\t0\t0\t*\t*\t0\t0\tA\tI\tXX:f:1.5x\n",
        b"r\t0\t*\t0\t0\t*\t*\t0\t0\tA\tI\tXX:f:1e400\n",
        b"r\t0\t*\t0\t0\t*\t*\t0\t0\tA\tI\tXX:f:1.5\r\tYY:i:1\n",
        b"r\t0\t*\t0\t0\t*\t*\t0\t0\tA\tI\tXX:q:1\n",
        b"r\t0\t*\t0\t0\t*\t*\t0\t0\tA\tI\tXX;i:1\n",
        b"r\t0\t*\t0\t0\t*\t*\t0\t0\tA\tI\tX\n",
        b"r\t0\t*\t0\t0\t*\t*\t0\t0\tA\tI\t\tXX:i:1\n",
        b"r\t0\t*\t0\t0\t*\t*\t0\t0\tA\tI\tXX:i:1\t\n",
        b"r\t0\t*\t0\t0\t*\t*\t0\t0\tA\tI\tXX:i:1\t\t\n",
        "r\u{e9}\t0\t\u{20ac}\t0\t0\t*\t*\t0\t0\t\u{1f600}\tI\tXX:Z:\u{e9}\n".as_bytes(),
        b"r\x00\t0\t*\x00\t0\t0\t*\t*\t0\t0\tA\x00\tI\tXX:Z:\x00\n",
        b"\xff\t\xff\t\xff\t\xff\t\xff\t\xff\t\xff\t\xff\t\xff\t\xff\t\xff\t\xff\n",
    ];
    for c in corpus {
        sam_case(ctx, c);
    }
    let extra: &[&[u8]] = &[b"XX:f:1.5", b"XX:B:c", b"XX:B:f,1", b"XX:Z:", b"XX:A:", b"8M8", b"M", b"8", b"*\r"];
    for seed in SAM_SEEDS {
        let ms = g.mutants(seed, extra);
        ctx.bump_by("text:gen:sam-mutants", ms.len() as u64);
        for m in ms {
            sam_case(ctx, &m);
        }
    }
    for _ in 0..ctx.n(400, 8000) {
        let v = g.arbitrary(b"r0\t\t*=:,iAZHBfcCsSIM+-1234567890.", 80);
        sam_case(ctx, &v);
    }
    for _ in 0..ctx.n(400, 8000) {
        let v = g.stream(SAM_SEEDS, extra, 14);
        sam_case(ctx, &v);
    }
    // optional fields alone, behind a fixed record head
    for _ in 0..ctx.n(600, 12000) {
        let mut v = b"r\t0\t*\t0\t0\t*\t*\t0\t0\t*\t*".to_vec();
        for _ in 0..g.rng.below(5) {
            v.push(b'\t');
            let f = g.arbitrary(b"XY::::iAZHBfcCsSI,,,+-1234567890.e", 16);
            v.extend(f.into_iter().filter(|&b| b != b'\n'));
        }
        if g.rng.chance(1, 2) {
            v.push(b'\n');
        }
        sam_case(ctx, &v);
    }
    // CIGAR on arbitrary bytes (`Cigar::new` is public)
    for c in [&b""[..], b"*", b"8M", b"8M13N", b"+", b"-", b"+8M", b"M", b"MM", b"8", b"8Z", b"8Z8M", b"08M", b"18446744073709551615M", b"18446744073709551616M", b"1M18446744073709551616M2M", b"8M+", b"\t", b"8M\t", b"\xff", b"8\xffM"] {
        cigar_case(ctx, c);
    }
    for _ in 0..ctx.n(800, 15000) {
        let v = match g.rng.below(3) {
            0 => g.arbitrary(b"0123456789MIDNSHP=X+", 24),
            1 => {
                let mut v = vec![];
                for _ in 0..g.rng.below(6) {
                    let lens: [&[u8]; 8] = [b"8", b"13", b"0", b"18446744073709551615", b"18446744073709551616", b"+", b"", b"4294967296"];
                    v.extend_from_slice(*g.rng.pick(&lens));
                    v.push(*g.rng.pick(b"MIDNSHP=XZ+"));
                }
                v
            }
            _ => g.rng.bytes(g.rng.clone().below(12) as usize),
        };
        cigar_case(ctx, &v);
    }
}

// ---------------------------------------------------------------- VCF

fn info_reserved_looking(info: &str) -> bool {
    !info.is_empty() && info.split(';').any(|p| p.as_bytes().first().map(|b| b.is_ascii_uppercase() || b.is_ascii_digit()).unwrap_or(false))
}

fn vcf_answer(input: &[u8]) -> String {
    use vcf::variant::record::samples::series::value::genotype::Phasing;
    use vcf::variant::record::samples::series::Value as SValue;
    use vcf::variant::record::{info::field::Value as IValue, AlternateBases as _, Filters as _, Ids as _};
    let header = vcf::Header::default();
    let mut rd = vcf::io::Reader::new(input);
    let mut rec = vcf::Record::default();
    let n = match rd.read_record(&mut rec) {
        Ok(n) => n,
        Err(e) => return errclass(&e).into(),
    };
    let chrom = hex(rec.reference_sequence_name().as_bytes());
    let pos = pos_shown(rec.variant_start());
    let ids: Vec<Vec<u8>> = rec.ids().iter().map(|s| s.as_bytes().to_vec()).collect();
    let rf = hex(rec.reference_bases().as_bytes());
    let alts: Vec<Vec<u8>> = rec.alternate_bases().iter().map(|s| s.map(|s| s.as_bytes().to_vec()).unwrap_or_else(|_| b"?".to_vec())).collect();
    let qual = if rec.quality_score().is_none() { "none" } else { "some" };
    let filters: Vec<Vec<u8>> = rec.filters().iter(&header).map(|s| s.map(|s| s.as_bytes().to_vec()).unwrap_or_else(|_| b"?".to_vec())).collect();
    let info = rec.info();
    let info_s = if info_reserved_looking(info.as_ref()) {
        "skip".to_string()
    } else {
        let mut items = vec![];
        for f in info.iter(&header).take(info.as_ref().len() + 1) {
            match f {
                Ok((k, Some(IValue::Flag))) => items.push(hex(k.as_bytes())),
                Ok((k, None)) => items.push(format!("{}=.", hex(k.as_bytes()))),
                Ok((k, Some(IValue::String(s)))) => items.push(format!("{}={}", hex(k.as_bytes()), hex(s.as_bytes()))),
                Ok((k, Some(other))) => items.push(format!("{}=?{other:?}", hex(k.as_bytes()))),
                Err(_) => {
                    items.push("!".into());
                    break;
                }
            }
        }
        if items.is_empty() { "~".into() } else { items.join(",") }
    };
    let samples = rec.samples();
    let keys: Vec<Vec<u8>> = samples.keys().iter().map(|k| k.as_bytes().to_vec()).collect();
    let svals: Vec<Vec<u8>> = samples.iter().map(|s| s.as_ref().as_bytes().to_vec()).collect();
    let mut gts = vec![];
    for s in samples.iter() {
        let mut per = vec![];
        for (j, item) in s.iter(&header).enumerate() {
            if keys.get(j).map(|k| k.as_slice()) != Some(b"GT") {
                continue;
            }
            match item {
                Ok((_, None)) => {}
                Ok((_, Some(SValue::Genotype(g)))) => {
                    let alleles: Vec<String> = g
                        .iter()
                        .map(|a| match a {
                            Ok((p, ph)) => format!("{}{}", p.map(|n| n.to_string()).unwrap_or_else(|| ".".into()), if ph == Phasing::Phased { "|" } else { "/" }),
                            Err(_) => "!".into(),
                        })
                        .collect();
                    per.push(alleles.join(";"));
                }
                Ok(_) => per.push("?value".into()),
                Err(_) => per.push("?err".into()),
            }
        }
        gts.push(if per.is_empty() { "-".to_string() } else { per.join("+") });
    }
    let gt = if gts.is_empty() { "~".to_string() } else { gts.join(",") };
    format!(
        "ok n={n} chrom={chrom} pos={pos} ids={} ref={rf} alts={} qual={qual} filters={} info={info_s} keys={} samples={} gt={gt}",
        list(&ids),
        list(&alts),
        list(&filters),
        list(&keys),
        list(&svals)
    )
}

fn vcf_case(ctx: &mut Ctx, input: &[u8]) {
    let b = input.to_vec();
    emit(ctx, format!("c15 {} {}", word("tvcf"), hex(input)), move || vcf_answer(&b));
}

pub const VCF_SEEDS: &[&[u8]] = &[
    b"sq0\t100\trs1;rs2\tA\tC,<DEL>\t30.5\tq10;s50\tns=3;dp=14;af=0.5,0.25;db;h2=a%3Bb\tGT:gq:dp:hq\t0|1:48:1:51,51\t1/2:.:8\t./.\t.\n",
    b"sq0\t1\t.\tA\t.\t.\t.\t.\n",
    b"sq1\t0\tid\tACGT\tA\t.\tPASS\tdb\r\n",
    "sq0\t5\tid\tA\tT\t.\tPASS\tnote=caf%C3%A9;x=\u{e9};y=\u{20ac}\u{1f600}\tGT:ft\t0/1:\u{e9}\t\u{e9}|1:x\n".as_bytes(),
    b"sq0\t7\t.\tG\tA,T\t.\t.\t.\tGT\t0\t1|2|.\t/1\t|0/1\t10/11/12\t.\t./.\t0|1/2",
    b"sq0\t9\t.\tG\tA\t.\t.\tk\tGT:GT\t0/1:1|1\t.:0\n",
];

fn vcf_suite(ctx: &mut Ctx, g: &mut Gen) {
    let corpus: &[&[u8]] = &[
        b"chr\t1\t.\tA\t.\t.\tPASS\r\t\n",
        b"chr\t1\t.\tA\t.\t.\t.\tx\r\t\n",
        b"chr\t1\t.\tA\t.\t.\t.\tx\r\t\r\n",
        b"chr\t1\t.\tA\t.\t.\t.\t\r\t\n",
        b"chr\t1\t.\tA\t.\t.\t.\tx\r\n",
        b"chr\t1\t.\tA\t.\t.\t.\tx\r\tGT\t0/1\n",
        b"chr\t1\t.\tA\t.\t.\t.\tx\t\r\n",
        b"chr\t1\t.\tA\t.\t.\t.\tx\tGT\t0/1\r\n",
        b"",
        b"\n",
        b"\r\n",
        b"\t",
        b"\t\t\t\t\t\t\t",
        b"\t\t\t\t\t\t\t\n",
        b"\t\t\t\t\t\t\n",
        b"\t\t\t\t\t\t\t\t",
        b"\t\t\t\t\t\t\t\t\n",
        b"c",
        b"c\t1\t.\tA\t.\t.\t.",
        b"c\t1\t.\tA\t.\t.\t.\t",
        b"c\t1\t.\tA\t.\t.\t.\t.",
        b"c\t1\t.\tA\t.\t.\t.\t.\t",
        b"c\t1\t.\tA\t.\t.\t.\t.\t\n",
        b"c\t1\t.\tA\t.\t.\t.\t.\tGT",
        b"c\t1\t.\tA\t.\t.\t.\t.\tGT\n",
        b"c\t1\t.\tA\t.\t.\t.\t.\tGT\t",
        b"c\t1\t.\tA\t.\t.\t.\t.\tGT\t\n",
        b"c\t1\t.\tA\t.\t.\t.\t.\tGT\t\t\n",
        b"c\t1\t.\tA\t.\t.\t.\t.\t.\t0/1\n",
        b"c\t1\t.\tA\t.\t.\t.\t.\t\t0/1\n",
        b"c\t1\t.\tA\t.\t.\t.\t.\t:\t0/1\n",
        b"c\t1\t.\tA\t.\t.\t.\t.\tGT:\t0/1:\n",
        b"c\t1\t.\tA\t.\t.\t.\t.\t:GT\t:0/1\n",
        b"c\t1\t.\tA\t.\t.\t.\t.\tGT::a\t0/1::x:y\n",
        b"c\t00\t;\tA\t,\t.\t;\t;\n",
        b"c\t+0\t;;\tA\t,,\t1e400\t;;\ta;\n",
        b"c\t18446744073709551615\ta;\tA\ta,\tx\ta;\ta;b\n",
        b"c\t18446744073709551616\t;a\tA\t,a\t\t;a\t;a\n",
        b"c\t1\t.\tA\t.\t.\t.\ta=\n",
        b"c\t1\t.\tA\t.\t.\t.\ta=;\n",
        b"c\t1\t.\tA\t.\t.\t.\ta=b;\n",
        b"c\t1\t.\tA\t.\t.\t.\t=b\n",
        b"c\t1\t.\tA\t.\t.\t.\ta==b\n",
        b"c\t1\t.\tA\t.\t.\t.\ta=b=c;d\n",
        b"c\t1\t.\tA\t.\t.\t.\ta=.;b=.x;c\n",
        b"c\t1\t.\tA\t.\t.\t.\ta;;b\n",
        b"c\t1\t.\tA\t.\t.\t.\ta=%\n",
        b"c\t1\t.\tA\t.\t.\t.\ta=%zz;b=%c3;c=1\n",
        b"c\t1\t.\tA\t.\t.\t.\ta=%C3%A9\n",
        b"c\t1\t.\tA\t.\t.\t.\tDP=1\n",
        b"c\t1\t.\tA\t.\t.\t.\ta=1;END=5\n",
        b"c\t1\t.\tA\t.\t.\t.\t.\tGT\t\n",
        b"c\t1\t.\tA\t.\t.\t.\t.\tGT\t|\t/\t||\t|/|\t0|\t|0\t0||1\t+1/-1\t00/01\n",
        b"c\t1\t.\tA\t.\t.\t.\t.\tGT\t18446744073709551615/18446744073709551616\t1/x\tx\t.|.\t.\n",
        "c\t1\t.\tA\t.\t.\t.\t.\tGT\t\u{e9}\t\u{e9}/1\t1/\u{e9}\t\u{e9}|\u{e9}\t|\u{e9}\t1\u{e9}\t\u{20ac}/\u{1f600}|\u{e9}\n".as_bytes(),
        "c\u{e9}\t1\t\u{e9};\u{20ac}\tA\u{e9}\t\u{1f600},\u{e9}\t.\t\u{e9}\t\u{e9}=\u{e9};\u{20ac}\t\u{e9}:GT\t\u{e9}:0/1\n".as_bytes(),
        b"c\t1\t.\tA\t.\t.\t.\ta=\xc3\n",
        b"c\xc3\t1\t.\tA\t.\t.\t.\t.\n",
        b"c\t1\t.\tA\t.\t.\t.\t.\tGT\t0/\xa9\n",
        b"c\t1\t.\tA\t.\t.\t.\t\xc3\t\xa9\n",
        b"c\t1\t.\tA\t.\t.\t.\t\xc3\n\xa9\n",
        b"c\x00\t1\t\x00\tA\t.\t.\t.\ta=\x00\tGT\t0\x00/1\n",
    ];
    for c in corpus {
        vcf_case(ctx, c);
    }
    let extra: &[&[u8]] = &[b"a=b;c", b"a;", b";a", b"a=;b", b"GT:x", b"0/1", b"0|1/2", b"|", b"/", "\u{e9}/\u{e9}".as_bytes(), b".\r"];
    for seed in VCF_SEEDS {
        let ms = g.mutants(seed, extra);
        ctx.bump_by("text:gen:vcf-mutants", ms.len() as u64);
        for m in ms {
            vcf_case(ctx, &m);
        }
    }
    for _ in 0..ctx.n(500, 10000) {
        let v = g.arbitrary("c1\t\t.;=,:|/GTab01\u{e9}".as_bytes(), 70);
        vcf_case(ctx, &v);
    }
    for _ in 0..ctx.n(400, 8000) {
        let v = g.stream(VCF_SEEDS, extra, 14);
        vcf_case(ctx, &v);
    }
    // genotypes and INFO alone behind a fixed head
    for _ in 0..ctx.n(700, 14000) {
        let mut v = b"c\t1\t.\tA\t.\t.\t.\t".to_vec();
        if g.rng.chance(1, 2) {
            let f = g.arbitrary("ab=;;==.%C3A9\u{e9}1".as_bytes(), 24);
            v.extend(f.into_iter().filter(|&b| b != b'\n' && b != b'\t'));
        } else {
            v.extend_from_slice(b".\tGT");
            for _ in 0..g.rng.range(1, 4) {
                v.push(b'\t');
                let f = g.arbitrary("01.|/|/23\u{e9}+".as_bytes(), 10);
                v.extend(f.into_iter().filter(|&b| b != b'\n' && b != b'\t'));
            }
        }
        if g.rng.chance(2, 3) {
            v.push(b'\n');
        }
        vcf_case(ctx, &v);
    }
}

// ---------------------------------------------------------------- BED

fn bed_strand(r: std::io::Result<Option<bed::feature::record::Strand>>) -> String {
    match r {
        Ok(None) => "none".into(),
        Ok(Some(bed::feature::record::Strand::Forward)) => "+".into(),
        Ok(Some(bed::feature::record::Strand::Reverse)) => "-".into(),
        Err(_) => "err".into(),
    }
}

fn bed_answer(n_std: usize, input: &[u8]) -> String {
    fn start(r: std::io::Result<noodles_core::Position>) -> String {
        r.map(|p| format!("ok:{}", usize::from(p))).unwrap_or_else(|_| "err".into())
    }
    fn score(r: std::io::Result<u16>) -> String {
        r.map(|n| format!("ok:{n}")).unwrap_or_else(|_| "err".into())
    }
    macro_rules! read {
        ($n:literal, $rec:ident, $fields:expr) => {{
            let mut rd = bed::io::Reader::<$n, _>::new(input);
            let mut $rec = bed::Record::<$n>::default();
            match rd.read_record(&mut $rec) {
                Err(e) => errclass(&e).to_string(),
                Ok(n) => {
                    let std: Vec<String> = $fields;
                    let other: Vec<Vec<u8>> = $rec.other_fields().iter().take(input.len() + 2).map(|b| b.to_vec()).collect();
                    format!("ok n={n} std={} other={}", std.join(" "), list(&other))
                }
            }
        }};
    }
    match n_std {
        3 => read!(3, r, vec![hex(r.reference_sequence_name()), start(r.feature_start()), pos_shown(r.feature_end())]),
        4 => read!(4, r, vec![hex(r.reference_sequence_name()), start(r.feature_start()), pos_shown(r.feature_end()), opt_hex(r.name().map(|b| b.as_ref()))]),
        5 => read!(
            5,
            r,
            vec![hex(r.reference_sequence_name()), start(r.feature_start()), pos_shown(r.feature_end()), opt_hex(r.name().map(|b| b.as_ref())), score(r.score())]
        ),
        _ => read!(
            6,
            r,
            vec![
                hex(r.reference_sequence_name()),
                start(r.feature_start()),
                pos_shown(r.feature_end()),
                opt_hex(r.name().map(|b| b.as_ref())),
                score(r.score()),
                bed_strand(r.strand())
            ]
        ),
    }
}

fn bed_case(ctx: &mut Ctx, n_std: usize, input: &[u8]) {
    let b = input.to_vec();
    emit(ctx, format!("c15 {} {n_std} {}", word("tbed"), hex(input)), move || bed_answer(n_std, &b));
}

pub const BED_SEEDS: &[&[u8]] = &[
    b"sq0\t7\t13\tname\t500\t+\t7\t13\t0,0,0\n",
    b"sq0\t0\t0\t.\t0\t.\n",
    b"#comment\n#\nsq1\t1\t2\tn\t1\t-\r\n",
    b"sq0\t7\t13",
];

fn bed_suite(ctx: &mut Ctx, g: &mut Gen) {
    let corpus: &[&[u8]] = &[
        b"sq0\t1\t2\r\t\n",
        b"sq0\t1\r\t\n",
        b"sq0\t1\t2\t\r\t\n",
        b"sq0\t1\t2\tx\r\t\n",
        b"sq0\t1\t2\tx\ty\r\t\r\n",
        b"sq0\t1\t2\r\n",
        b"sq0\t1\t2\t\r\n",
        b"sq0\t1\t2\tn\t5\t+\r\t\n",
        b"",
        b"\n",
        b"\r\n",
        b"\t",
        b"\t\t",
        b"\t\t\n",
        b"\t\t\t",
        b"\t\t\t\n",
        b"\t\t\t\t\t\t\t\n",
        b"#",
        b"#\n",
        b"#a\n#b",
        b"#a\n\n",
        b"sq0",
        b"sq0\t1",
        b"sq0\t1\t",
        b"sq0\t1\t2",
        b"sq0\t1\t2\t",
        b"sq0\t1\t2\t\n",
        b"sq0\t1\t2\t\t\n",
        b"sq0\t1\t2\tx",
        b"sq0\t18446744073709551615\t18446744073709551615\n",
        b"sq0\t18446744073709551614\t18446744073709551616\n",
        b"sq0\t+1\t00\t.\t65535\t?\n",
        b"sq0\t-1\t+0\t\t65536\t\n",
        b"sq0\t1\t2\n#c\nsq1\t3\t4\n",
    ];
    for n in 3..=6 {
        for c in corpus {
            bed_case(ctx, n, c);
        }
    }
    for (k, seed) in BED_SEEDS.iter().enumerate() {
        let ms = g.mutants(seed, &[b"#", b"#x", b".\r"]);
        ctx.bump_by("text:gen:bed-mutants", ms.len() as u64);
        for (i, m) in ms.iter().enumerate() {
            // every N on the first seed, a rotating N on the others
            if k == 0 && ctx.tier_thorough {
                for n in 3..=6 {
                    bed_case(ctx, n, m);
                }
            } else {
                bed_case(ctx, 3 + (i + k) % 4, m);
            }
        }
    }
    for _ in 0..ctx.n(500, 10000) {
        let v = if g.rng.chance(1, 2) { g.arbitrary(b"sq0\t\t12.+-#", 40) } else { g.stream(BED_SEEDS, &[b"#", b"#x\n"], 10) };
        bed_case(ctx, 3 + g.rng.below(4) as usize, &v);
    }
}

// ---------------------------------------------------------------- GFF3 / GTF

fn gff_cols(
    gtf: bool,
    seqid: &[u8],
    source: &[u8],
    ty: &[u8],
    start: std::io::Result<noodles_core::Position>,
    end: std::io::Result<noodles_core::Position>,
    score: Option<std::io::Result<f32>>,
    strand: std::io::Result<gff::feature::record::Strand>,
    phase: Option<std::io::Result<gff::feature::record::Phase>>,
) -> String {
    use gff::feature::record::{Phase, Strand};
    let p = |r: std::io::Result<noodles_core::Position>| r.map(|p| format!("ok:{}", usize::from(p))).unwrap_or_else(|_| "err".into());
    let strand = match strand {
        Ok(Strand::None) => ".",
        Ok(Strand::Forward) => "+",
        Ok(Strand::Reverse) => "-",
        Ok(Strand::Unknown) => {
            if gtf {
                "?unknown"
            } else {
                "?"
            }
        }
        Err(_) => "err",
    };
    let phase = match phase {
        None => "none",
        Some(Ok(Phase::Zero)) => "0",
        Some(Ok(Phase::One)) => "1",
        Some(Ok(Phase::Two)) => "2",
        Some(Err(_)) => "err",
    };
    format!(
        "seqid={} source={} type={} start={} end={} score={} strand={strand} phase={phase}",
        hex(seqid),
        hex(source),
        hex(ty),
        p(start),
        p(end),
        if score.is_none() { "none" } else { "some" }
    )
}

fn gff_answer(input: &[u8]) -> String {
    let mut rd = gff::io::Reader::new(input);
    let mut line = gff::Line::default();
    let n = match rd.read_line(&mut line) {
        Ok(0) => return "eof".into(),
        Ok(n) => n,
        Err(e) => return errclass(&e).into(),
    };
    match line.kind() {
        gff::line::Kind::Directive => {
            let d = line.as_directive().unwrap();
            format!("n={n} kind=directive key={} value={}", hex(d.key()), d.value().map(|v| hex(v)).unwrap_or_else(|| "none".into()))
        }
        gff::line::Kind::Comment => format!("n={n} kind=comment text={}", hex(line.as_comment().unwrap())),
        gff::line::Kind::Record => match line.as_record().unwrap() {
            Err(e) => format!("n={n} kind=record {}", errclass(&e)),
            Ok(r) => format!(
                "n={n} kind=record {} attrs={}",
                gff_cols(false, r.reference_sequence_name(), r.source(), r.ty(), r.start(), r.end(), r.score(), r.strand(), r.phase()),
                hex(r.attributes().as_ref())
            ),
        },
    }
}

fn gtf_answer(input: &[u8]) -> String {
    let mut rd = gtf::io::Reader::new(input);
    let mut line = gtf::Line::default();
    let n = match rd.read_line(&mut line) {
        Ok(0) => return "eof".into(),
        Ok(n) => n,
        Err(e) => return errclass(&e).into(),
    };
    match line.kind() {
        gtf::line::Kind::Comment => format!("n={n} kind=comment text={}", hex(line.as_comment().unwrap())),
        gtf::line::Kind::Record => match line.as_record().unwrap() {
            Err(_) => format!("n={n} kind=record err"),
            Ok(r) => format!("n={n} kind=record {}", gff_cols(true, r.reference_sequence_name(), r.source(), r.ty(), r.start(), r.end(), r.score(), r.strand(), r.phase())),
        },
    }
}

pub const GFF_SEEDS: &[&[u8]] = &[
    b"sq0\tsrc\tgene\t1\t100\t0.5\t+\t0\tID=g0;Name=x\n",
    b"sq0\t.\tCDS\t7\t9\t.\t?\t.\t.\r\n",
    b"##gff-version 3\n",
    b"##sequence-region sq0 1 100\r\n",
    b"#a comment\n",
    b"\n  \r\n\t\nsq0\tsrc\tgene\t1\t100\t.\t-\t2\tID=g1",
];
pub const GTF_SEEDS: &[&[u8]] = &[
    b"sq0\tsrc\texon\t1\t100\t.\t+\t.\tgene_id \"g0\"; transcript_id \"t0\";\n",
    b"sq0\tsrc\tCDS\t7\t9\t0.5\t-\t2\tgene_id \"g;0\"; n 5;\r\n",
    b"#a comment\n",
    b"sq0\t.\tgene\t1\t2\t.\t.\t.\t",
];

fn gff_suite(ctx: &mut Ctx, g: &mut Gen) {
    let corpus: &[&[u8]] = &[
        b"",
        b"\n",
        b"\r\n",
        b" \n",
        b"\x0b\n",
        b"\x0c\n",
        b"#",
        b"#\n",
        b"##",
        b"##\n",
        b"## \n",
        b"##a",
        b"##a ",
        b"##a  b",
        b"##a\tb c\n",
        b"## a\n",
        b"###\n",
        b"##FASTA\n",
        b"#\r\n",
        b"##\r\n",
        b"a",
        b"\t",
        b"\t\t\t\t\t\t\t",
        b"\t\t\t\t\t\t\t\t",
        b"\t\t\t\t\t\t\t\t\n",
        b"\t\t\t\t\t\t\t\t\t",
        b"\t\t\t\t\t\t\t\t.\n",
        b"a\tb\tc\t0\t00\t.\t.\t.\t.\n",
        b"a\tb\tc\t+1\t18446744073709551615\t1e9\t+\t0\tx\n",
        b"a\tb\tc\t-1\t18446744073709551616\t\t\t\t\n",
        b"a\tb\tc\t1\t2\t.\t++\t3\tID=%\t\t\n",
        b"sq0\tsrc\tgene\t1\t100\t.\t+\t.\tID=g0\t\n",
        b" \t \t \t \t \t \t \t \t \n",
    ];
    for c in corpus {
        let b = c.to_vec();
        emit(ctx, format!("c15 tgff {}", hex(c)), move || gff_answer(&b));
        let b = c.to_vec();
        emit(ctx, format!("c15 tgtf {}", hex(c)), move || gtf_answer(&b));
    }
    for (which, seeds) in [("tgff", GFF_SEEDS), ("tgtf", GTF_SEEDS)] {
        let mut inputs: Vec<Vec<u8>> = vec![];
        for seed in seeds {
            inputs.extend(g.mutants(seed, &[b"#", b"##", b"?", b"2", b"3", b"ID=a;b", b"gene_id \"x\";", b"gene_id \"x", b"k v; k", b"k \"\\\"\";"]));
        }
        ctx.bump_by(&format!("text:gen:{which}-mutants"), inputs.len() as u64);
        for _ in 0..ctx.n(400, 8000) {
            inputs.push(if g.rng.chance(1, 2) { g.arbitrary(b"a#\t\t. +-?012=;\"", 40) } else { g.stream(seeds, &[b"#", b"##"], 10) });
        }
        for v in inputs {
            let b = v.clone();
            if which == "tgff" {
                emit(ctx, format!("c15 tgff {}", hex(&v)), move || gff_answer(&b));
            } else {
                emit(ctx, format!("c15 tgtf {}", hex(&v)), move || gtf_answer(&b));
            }
        }
    }
}

// ---------------------------------------------------------------- FASTQ / FASTA

fn fastq_answer(input: &[u8]) -> String {
    let mut rd = fastq::io::Reader::new(input);
    let mut rec = fastq::Record::default();
    match rd.read_record(&mut rec) {
        Ok(0) => "eof".into(),
        Ok(n) => format!("ok n={n} name={} desc={} seq={} qual={}", hex(rec.name()), hex(rec.description()), hex(rec.sequence()), hex(rec.quality_scores())),
        Err(e) => errclass(&e).into(),
    }
}

/// `read_definition`, then the sequence view (`sequence_reader`) driven piece by piece
fn fasta_answer(input: &[u8]) -> String {
    let mut rd = fasta::io::Reader::new(input);
    let mut def = fasta::record::Definition::default();
    match rd.read_definition(&mut def) {
        Ok(0) => return "eof".into(),
        Ok(_) => {}
        Err(e) => return errclass(&e).into(),
    }
    let mut seq = vec![];
    let mut sr = rd.sequence_reader();
    for _ in 0..input.len() + 2 {
        let piece = match sr.fill_buf() {
            Ok(p) => p.to_vec(),
            Err(e) => return errclass(&e).into(),
        };
        if piece.is_empty() {
            break;
        }
        sr.consume(piece.len());
        seq.extend_from_slice(&piece);
    }
    format!("ok name={} desc={} seq={}", hex(def.name()), hex(def.description().map(|d| d.as_ref()).unwrap_or(b"")), hex(&seq))
}

pub const FASTQ_SEEDS: &[&[u8]] = &[b"@r0 desc text\nACGT\n+\nIIII\n", b"@r1\tLN:4\r\nACGT\r\n+r1\r\nII+I\r\n", b"@r2\nAC\n+\nI@", b"@r3\r\n\n+\n\n"];
pub const FASTA_SEEDS: &[&[u8]] = &[b">sq0 desc text\nACGT\nAC\n>sq1\nGG\n", b">sq0\tLN:8  \r\nACGT\r\nACGT\r\n\r\n>sq1\r\n", b">sq2\n\n\nAC\n\nGT", b">sq3  \n"];

fn fastx_suite(ctx: &mut Ctx, g: &mut Gen) {
    let corpus: &[&[u8]] = &[
        b"", b"@", b"@\n", b"@\r\n", b"@r", b"@r\n", b"@r\r", b"@r \n", b"@r\t\n", b"@r  d\n", b"@r\nA", b"@r\nA\n", b"@r\nA\n+", b"@r\nA\n+\n", b"@r\nA\n+\nI", b"@r\nA\n-\nI\n", b"r\nA\n+\nI\n",
        b"@r\r\r\nA\n+\nI\n", b"@r \r\nA\n+\nI\n", b"@r d\r\r\nA\r\r\n+x\r\nI\r\r\n", b"\n", b">", b">\n", b"> \n", b">s", b">s\n", b">s \n", b">s  d  \n", b">s\x0bd\n", b">s\x0cd\n",
        b">s\rd\n", b">s\r\n", b">s\nA>C\n", b">s\nA\rC\n", b">s\n>t\n", b">s\n\r\r\n\n\rAC\r\n", b">s\nAC\r", b">s\nAC\r\r\n", b"s\nAC\n", b"\n>s\nAC\n",
    ];
    for c in corpus {
        let b = c.to_vec();
        emit(ctx, format!("c15 tfastq {}", hex(c)), move || fastq_answer(&b));
        let b = c.to_vec();
        emit(ctx, format!("c15 tfasta {}", hex(c)), move || fasta_answer(&b));
    }
    for (which, seeds) in [("tfastq", FASTQ_SEEDS), ("tfasta", FASTA_SEEDS)] {
        let mut inputs: Vec<Vec<u8>> = vec![];
        for seed in seeds {
            inputs.extend(g.mutants(seed, &[b"@", b"+", b">", b"@r", b"+r", b">s"]));
        }
        ctx.bump_by(&format!("text:gen:{which}-mutants"), inputs.len() as u64);
        for _ in 0..ctx.n(400, 8000) {
            inputs.push(if g.rng.chance(1, 2) { g.arbitrary(b"@+>rAC \t\n\n\r", 30) } else { g.stream(seeds, &[b"@", b"+", b">", b"\n+\n", b"\r\n"], 10) });
        }
        for v in inputs {
            let b = v.clone();
            if which == "tfastq" {
                emit(ctx, format!("c15 tfastq {}", hex(&v)), move || fastq_answer(&b));
            } else {
                emit(ctx, format!("c15 tfasta {}", hex(&v)), move || fasta_answer(&b));
            }
        }
    }
}

// ---------------------------------------------------------------- oracle: hostile files

/// panic messages raised while `f` runs (also those a callee caught itself)
fn probe_panics(f: impl FnOnce()) -> Vec<String> {
    use std::sync::{Arc, Mutex};
    let seen: Arc<Mutex<Vec<String>>> = Default::default();
    let s2 = seen.clone();
    let old = std::panic::take_hook();
    std::panic::set_hook(Box::new(move |info| {
        let msg = if let Some(s) = info.payload().downcast_ref::<String>() {
            s.clone()
        } else if let Some(s) = info.payload().downcast_ref::<&str>() {
            s.to_string()
        } else {
            "panic".into()
        };
        let loc = info.location().map(|l| format!("{}:{}", l.file(), l.line())).unwrap_or_default();
        if let Ok(mut g) = s2.lock() {
            if g.len() < 4 {
                g.push(format!("{msg} at {loc}"));
            }
        }
    }));
    let _ = std::panic::catch_unwind(std::panic::AssertUnwindSafe(f));
    std::panic::set_hook(old);
    let v = seen.lock().map(|g| g.clone()).unwrap_or_default();
    v
}

fn panic_file(msg: &str) -> String {
    // `… at /repo/noodles-sam/src/record/fields.rs:123` → `noodles-sam/src/record/fields.rs`
    let loc = msg.rsplit(" at ").next().unwrap_or("");
    match loc.find("noodles-") {
        Some(p) => loc[p..].split(':').next().unwrap_or("?").to_string(),
        None => "std".into(),
    }
}

fn oracle_file(ctx: &mut Ctx, fmt: &str, case: u64, data: &[u8]) {
    let key = fnv(&[fmt.as_bytes(), data].concat());
    let mut records = 0usize;
    let mut unbounded: Option<String> = None;
    let panics = probe_panics(|| match fmt {
        "sam" => {
            let h = sam::Header::default();
            let mut rd = sam::io::Reader::new(data);
            let mut rec = sam::Record::default();
            for _ in 0..64 {
                match rd.read_record(&mut rec) {
                    Ok(0) => break,
                    Ok(_) => {
                        records += 1;
                        let (shown, unb) = cigar_shown(&rec.cigar());
                        if unb {
                            unbounded = Some(shown);
                        } else {
                            // `Debug` walks the CIGAR iterator to its end
                            crate::props::c15::dbg(&rec);
                        }
                        let _ = (rec.name(), rec.flags(), rec.reference_sequence_name(), rec.alignment_start(), rec.mapping_quality());
                        let _ = (rec.mate_reference_sequence_name(), rec.mate_alignment_start(), rec.template_length());
                        let _ = (rec.sequence().len(), rec.quality_scores().len());
                        let _ = sam_data(&rec.data());
                        if !unb {
                            crate::props::c15::consume::touch_alignment(&h, &rec);
                        }
                    }
                    Err(_) => {}
                }
            }
        }
        "vcf" => {
            let h = vcf::Header::default();
            let mut rd = vcf::io::Reader::new(data);
            let mut rec = vcf::Record::default();
            for _ in 0..64 {
                match rd.read_record(&mut rec) {
                    Ok(0) => break,
                    Ok(_) => {
                        records += 1;
                        crate::props::c15::dbg(&rec);
                        crate::props::c15::consume::touch_variant(&h, &rec);
                    }
                    Err(_) => {}
                }
            }
        }
        "bed" => {
            let _ = crate::props::c15::consume::bed_text(data);
            records += 1;
        }
        "gff" => {
            let _ = crate::props::c15::consume::gff_text(data);
            records += 1;
        }
        "gtf" => {
            let _ = crate::props::c15::consume::gtf_text(data);
            records += 1;
        }
        "fastq" => {
            let _ = crate::props::c15::consume::fastq_text(data);
            records += 1;
        }
        _ => {
            let _ = crate::props::c15::consume::fasta_text(data, None);
            records += 1;
        }
    });
    ctx.eval(if records > 0 { Some(key) } else { None });
    ctx.bump(&format!("text:oracle:{fmt}:{}", if records > 0 { "records" } else { "none" }));
    let shown = if data.len() > 300 { format!("{}…", hex(&data[..300])) } else { hex(data) };
    for p in &panics {
        ctx.fail(&format!("panic:text:{fmt}:{}", panic_file(p)), format!("PANIC {p} — {fmt} file {shown}"), format!("text oracle {fmt} {case}"));
    }
    if let Some(c) = unbounded {
        ctx.fail("cigar-iter-unbounded", format!("sam::record::Cigar::iter does not end (Debug of the record never returns): items {c} — file {shown}"), format!("text oracle {fmt} {case}"));
    }
}

fn oracle(ctx: &mut Ctx, only_case: Option<(String, u64)>) {
    let formats: [(&str, &[&[u8]]); 7] =
        [("sam", SAM_SEEDS), ("vcf", VCF_SEEDS), ("bed", BED_SEEDS), ("gff", GFF_SEEDS), ("gtf", GTF_SEEDS), ("fastq", FASTQ_SEEDS), ("fasta", FASTA_SEEDS)];
    let per = ctx.n(250, 6000);
    for (fmt, seeds) in formats {
        for case in 0..per {
            if let Some((f, c)) = &only_case {
                if f != fmt || *c != case {
                    continue;
                }
            }
            // every random choice of a case comes from (seed, format, case number)
            let mut g = Gen::new(ctx.seed, fnv(fmt.as_bytes()) ^ case.wrapping_mul(0x2545_F491_4F6C_DD1D), ctx.tier_thorough);
            let mut data = vec![];
            for _ in 0..g.rng.range(1, 5) {
                let seed = *g.rng.pick(seeds);
                let mut line = seed.to_vec();
                for _ in 0..g.rng.below(4) {
                    if line.is_empty() {
                        break;
                    }
                    let k = g.rng.below(line.len() as u64) as usize;
                    match g.rng.below(5) {
                        0 => line[k] = *g.rng.pick(SUBS),
                        1 => {
                            line.remove(k);
                        }
                        2 => {
                            let ins = *g.rng.pick(INSERTS);
                            line.splice(k..k, ins.iter().copied());
                        }
                        3 => {
                            // a column replaced by a token, or closed by a CR
                            let mut cols: Vec<Vec<u8>> = line.split(|&b| b == b'\t').map(|c| c.to_vec()).collect();
                            let c = g.rng.below(cols.len() as u64) as usize;
                            if g.rng.chance(1, 3) {
                                cols[c].push(b'\r');
                            } else {
                                cols[c] = g.rng.pick(TOKENS).to_vec();
                            }
                            line = cols.join(&b'\t');
                        }
                        _ => line.truncate(k),
                    }
                }
                data.extend_from_slice(&line);
                if g.rng.chance(1, 6) {
                    data.extend_from_slice(b"\t\n");
                }
            }
            oracle_file(ctx, fmt, case, &data);
        }
    }
}

// ---------------------------------------------------------------- entry points

pub fn run(ctx: &mut Ctx) {
    // a private generator: the PRNG stream of the existing suites is left as it was
    let mut g = Gen::new(ctx.seed, 0xC15_7E87, ctx.tier_thorough);
    lex_suite(ctx, &mut g);
    sam_suite(ctx, &mut g);
    vcf_suite(ctx, &mut g);
    bed_suite(ctx, &mut g);
    gff_suite(ctx, &mut g);
    fastx_suite(ctx, &mut g);
    if only().is_none() {
        oracle(ctx, None);
    }
}

/// `text <suite> <request hash>`: that one request; `text oracle <fmt> <case>`: that one file
pub fn replay(ctx: &mut Ctx, case: &[String]) -> bool {
    if case.first().map(|s| s.as_str()) != Some("text") {
        return false;
    }
    if case.get(1).map(|s| s.as_str()) == Some("oracle") {
        let fmt = case.get(2).cloned().unwrap_or_default();
        let n: u64 = case.get(3).and_then(|s| s.parse().ok()).unwrap_or(0);
        oracle(ctx, Some((fmt, n)));
        return true;
    }
    if case.get(1).map(|s| s.as_str()) == Some("law") {
        let t = unhex(case.get(2).map(|s| s.as_str()).unwrap_or("-"));
        if let Ok((_, i)) = lexical_core::parse_partial::<f32>(&t) {
            if i > t.len() {
                ctx.fail("lexical-law", format!("parse_partial::<f32> read {i} bytes of {}", hex(&t)), format!("text law {}", hex(&t)));
            }
        }
        ctx.eval(None);
        return true;
    }
    let only: Option<u64> = case.get(2).and_then(|s| s.parse().ok());
    ONLY.with(|o| o.set(only.or(Some(0))));
    run(ctx);
    ONLY.with(|o| o.set(None));
    true
}
