//! C16, second format extension — the async modules that were differential-oracle-only, tied to the
//! Lean poll machines of `Noodles/Io/AsyncMore.lean` (`c16 m-…` requests, `Noodles/Io/DriverC16More.lean`):
//! tokio `read_u8` / `read_until` over a tokio `BufReader`, FASTQ `read_record`, FASTA `read_definition` /
//! `read_sequence`, the "one line, then parse it" readers (SAM / VCF `read_record_buf`, fai `read_index`),
//! the lazy SAM / VCF `read_record`, BCF `read_record` on a raw stream, the BAI / tabix / CSI async index
//! readers, tokio `write_all` sequences of the FASTQ / FASTA / SAM / VCF async writers.
//!
//! CORRESPONDENCE: the REAL async code runs under a scripted async source / sink (`Ready(n)` /
//! `Pending`), the sync twin under a scripted sync source / sink; the Lean model answers both sides from
//! one request. The async answer carries the number of `poll_read` / `poll_write` calls and `Pending`
//! answers the source / sink has seen: the model follows the real futures poll by poll.
//!
//! ORACLE: async vs sync on the real code, directly, judged where the sync reader accepts the input.
use super::c12::{gen_file, Fmt};
use crate::adversary::{block_on, poll_schedule, schedule, AsyncSchedReader, AsyncScriptSink, Delivery, Poll1, SchedReader, ScriptSink, SinkStep};
use crate::common::*;
use noodles_bam as bam;
use noodles_bcf as bcf;
use noodles_bgzf as bgzf;
use noodles_csi::{
    self as csi,
    binning_index::{
        self,
        index::{
            header::{format::CoordinateSystem, Format},
            reference_sequence::{
                index::{BinnedIndex, LinearIndex},
                Bin, Metadata,
            },
            Header, ReferenceSequence,
        },
        BinningIndex, ReferenceSequence as _,
    },
};
use indexmap::IndexMap;
use noodles_fasta as fasta;
use noodles_fastq as fastq;
use noodles_sam as sam;
use noodles_tabix as tabix;
use noodles_vcf as vcf;
use std::io::{self, BufReader, Write};
use std::pin::Pin;
use std::task::{Context, Poll};
use tokio::io::{AsyncBufReadExt, AsyncReadExt};

// ------------------------------------------------------------------ instrumented endpoints

/// the scripted async source plus what the correspondence prints: `poll_read` calls, `Pending`
/// answers, and the size of the buffer offered at every call (the `asks` of the Lean model)
pub struct Counting {
    inner: AsyncSchedReader,
    polls: usize,
    pendings: usize,
    asks: Vec<usize>,
}

impl Counting {
    fn new(data: &[u8], a: &ASched) -> Self {
        Self { inner: AsyncSchedReader::new(data.to_vec(), a.sched.clone(), a.fallback), polls: 0, pendings: 0, asks: vec![] }
    }
    fn tail_at(&self, pos: usize) -> String {
        format!("@{pos} s{} p{}", self.polls, self.pendings)
    }
}

impl tokio::io::AsyncRead for Counting {
    fn poll_read(mut self: Pin<&mut Self>, cx: &mut Context<'_>, buf: &mut tokio::io::ReadBuf<'_>) -> Poll<io::Result<()>> {
        self.polls += 1;
        let ask = buf.remaining();
        self.asks.push(ask);
        let r = Pin::new(&mut self.inner).poll_read(cx, buf);
        if r.is_pending() {
            self.pendings += 1;
        }
        r
    }
}

/// position in the logical stream of a tokio `BufReader` over `Counting`, and the tail words
fn btail(br: tokio::io::BufReader<Counting>) -> (usize, String) {
    let buffered = br.buffer().len();
    let src = br.into_inner();
    let pos = src.inner.pos - buffered;
    (pos, src.tail_at(pos))
}

/// the scripted async sink plus `poll_write` calls, `Pending` answers and every buffer offered
struct CountingSink {
    inner: AsyncScriptSink,
    polls: usize,
    pendings: usize,
    offers: Vec<Vec<u8>>,
}

#[derive(Clone)]
struct SinkStats(std::sync::Arc<std::sync::Mutex<(usize, usize, Vec<Vec<u8>>)>>);

struct SharedCountingSink {
    s: CountingSink,
    stats: SinkStats,
}

impl tokio::io::AsyncWrite for SharedCountingSink {
    fn poll_write(mut self: Pin<&mut Self>, cx: &mut Context<'_>, buf: &[u8]) -> Poll<io::Result<usize>> {
        self.s.polls += 1;
        self.s.offers.push(buf.to_vec());
        let r = Pin::new(&mut self.s.inner).poll_write(cx, buf);
        if r.is_pending() {
            self.s.pendings += 1;
        }
        {
            let mut g = self.stats.0.lock().unwrap();
            g.0 = self.s.polls;
            g.1 = self.s.pendings;
            g.2 = self.s.offers.clone();
        }
        r
    }
    fn poll_flush(self: Pin<&mut Self>, _: &mut Context<'_>) -> Poll<io::Result<()>> {
        // NOT forwarded: the scripted sink's `poll_flush` eats a leading `Pending` of the schedule, which
        // the Lean `ASink` (poll_write only) does not model; none of the writers here flush anyway
        Poll::Ready(Ok(()))
    }
    fn poll_shutdown(self: Pin<&mut Self>, _: &mut Context<'_>) -> Poll<io::Result<()>> {
        Poll::Ready(Ok(()))
    }
}

fn counting_sink(a: &ASched) -> (SharedCountingSink, std::sync::Arc<std::sync::Mutex<Vec<u8>>>, SinkStats) {
    let (inner, acc) = AsyncScriptSink::new(a.sched.clone(), a.fallback);
    let stats = SinkStats(std::sync::Arc::new(std::sync::Mutex::new((0, 0, vec![]))));
    (SharedCountingSink { s: CountingSink { inner, polls: 0, pendings: 0, offers: vec![] }, stats: stats.clone() }, acc, stats)
}

// ------------------------------------------------------------------ schedules

#[derive(Clone)]
struct ASched {
    sched: Vec<Poll1>,
    fallback: usize,
    name: String,
}

/// the four families of `adversary::poll_schedule` plus: a fixed 2 / 3 bytes per poll, everything at
/// once, and chunks that end one byte before / at / one byte after every structure boundary with
/// `Pending`s in between and at the end of the stream
fn asched(rng: &mut Rng, kind: usize, len: usize, boundaries: &[usize]) -> ASched {
    match kind % 8 {
        k @ 0..=3 => {
            let (sched, fallback, name) = poll_schedule(rng, k, len);
            ASched { sched, fallback, name }
        }
        4 => ASched { sched: vec![], fallback: 2, name: "two-byte".into() },
        5 => ASched { sched: vec![Poll1::Pending], fallback: 3, name: "three-byte".into() },
        6 => ASched { sched: vec![], fallback: usize::MAX, name: "all-at-once".into() },
        _ => {
            let mut s = vec![];
            let mut at = 0usize;
            for &b in boundaries {
                let cut = match rng.below(3) {
                    0 => b.saturating_sub(1),
                    1 => b,
                    _ => b + 1,
                };
                if cut > at && cut <= len {
                    if rng.chance(1, 2) {
                        s.push(Poll1::Pending);
                    }
                    s.push(Poll1::Ready(cut - at));
                    at = cut;
                }
            }
            if at < len {
                s.push(Poll1::Ready(len - at));
            }
            for _ in 0..rng.below(3) {
                s.push(Poll1::Pending);
            }
            ASched { sched: s, fallback: usize::MAX, name: "boundary-straddling+pending".into() }
        }
    }
}

fn runs<T: PartialEq, F: Fn(&T) -> String>(xs: &[T], f: F) -> String {
    if xs.is_empty() {
        return "-".into();
    }
    let mut out: Vec<String> = vec![];
    let mut i = 0;
    while i < xs.len() {
        let mut j = i + 1;
        while j < xs.len() && xs[j] == xs[i] {
            j += 1;
        }
        out.push(if j - i > 1 { format!("{}*{}", f(&xs[i]), j - i) } else { f(&xs[i]) });
        i = j;
    }
    out.join(",")
}

fn fmt_asched(s: &[Poll1]) -> String {
    let v: Vec<Option<usize>> = s.iter().map(|p| match p { Poll1::Pending => None, Poll1::Ready(n) => Some(*n) }).collect();
    runs(&v, |p| match p { None => "p".to_string(), Some(n) => n.to_string() })
}

fn fmt_asks(a: &[usize]) -> String {
    runs(a, |n| n.to_string())
}

fn fmt_ssched(s: &[Delivery]) -> String {
    runs(s, |d| match d { Delivery::Interrupted => "i".to_string(), Delivery::Chunk(n) => format!("c{n}") })
}

/// a sync schedule whose fallback is "whatever is asked" (the Lean `Src` after its schedule)
fn ssched(rng: &mut Rng, kind: usize, len: usize, boundaries: &[usize]) -> (Vec<Delivery>, String) {
    let (mut s, fallback, name) = schedule(rng, kind, len, boundaries);
    if fallback != usize::MAX {
        let n = len / fallback + 8;
        s.extend(std::iter::repeat_n(Delivery::Chunk(fallback), n));
    }
    (s, name)
}

const ACAPS: [usize; 7] = [1, 2, 3, 5, 16, 100, 8192];
const SCAPS: [usize; 6] = [1, 2, 3, 7, 64, 8192];

fn cap_class(cap: usize) -> &'static str {
    if cap == 1 { "1" } else if cap < 8 { "2-7" } else if cap <= 100 { "8-100" } else { "8192" }
}

fn or_dash(v: Vec<String>, sep: &str) -> String {
    if v.is_empty() { "-".into() } else { v.join(sep) }
}

fn dec(n: impl ToString) -> String {
    hex(n.to_string().as_bytes())
}

fn line_ends(t: &[u8]) -> Vec<usize> {
    t.iter().enumerate().filter(|(_, c)| **c == b'\n').map(|(i, _)| i + 1).take(40).collect()
}

fn bufsrc(data: &[u8], sched: &[Delivery], cap: usize) -> BufReader<SchedReader> {
    BufReader::with_capacity(cap, SchedReader::new(data.to_vec(), sched.to_vec(), usize::MAX))
}

fn bufpos(b: &BufReader<SchedReader>) -> usize {
    b.get_ref().pos - b.buffer().len()
}

fn word(rng: &mut Rng, alphabet: &[u8], lo: u64, hi: u64) -> String {
    (0..rng.range(lo, hi)).map(|_| *rng.pick(alphabet) as char).collect()
}

fn nl(crlf: bool) -> &'static str {
    if crlf { "\r\n" } else { "\n" }
}

/// one observation of a record loop: the canonical record strings, the ending, the stream position
#[derive(Clone, PartialEq, Debug)]
struct Obs {
    recs: Vec<String>,
    end: String,
    pos: usize,
}

impl Obs {
    fn line(&self) -> String {
        format!("recs={} end={}", or_dash(self.recs.clone(), ","), self.end)
    }
}

/// both answers of one correspondence request
fn both(a: &Result<(Obs, String), String>, s: &Result<Obs, String>) -> String {
    let sa = match a {
        Ok((o, tail)) => format!("A {}{tail}", o.line()),
        Err(_) => "A panic".into(),
    };
    let ss = match s {
        Ok(o) => format!("S {}@{}", o.line(), o.pos),
        Err(_) => "S panic".into(),
    };
    format!("{sa} | {ss}")
}

/// the oracle shared by the record-loop suites: async = sync where the sync reader accepts the input
fn judge(ctx: &mut Ctx, suite: &str, class: &str, what: &str, a: &Result<(Obs, String), String>, s: &Result<Obs, String>, how: &str, case: &str) {
    match (a, s) {
        (Err(p), _) => ctx.fail("c16m-panic", format!("async {what} panicked ({p}) {how}"), case.into()),
        (_, Err(p)) => ctx.fail("c16m-panic", format!("sync {what} panicked ({p})"), case.into()),
        (Ok((ao, _)), Ok(so)) => {
            if so.end != "eof" {
                ctx.bump(&format!("m2_{suite}_sync_rejects_{}", so.end));
                ctx.bump(&format!("m2_{suite}_sync_rejects_async_{}", if ao.end == so.end { "same-class" } else { "other-class" }));
            } else if ao != so {
                let k = (0..ao.recs.len().max(so.recs.len())).find(|&i| ao.recs.get(i) != so.recs.get(i));
                ctx.fail(class, format!("{what} differs {how}: first difference at record {:?}: async {:?}, sync {:?}; ends {} / {}, positions {} / {}", k, k.and_then(|i| ao.recs.get(i)), k.and_then(|i| so.recs.get(i)), ao.end, so.end, ao.pos, so.pos), case.into());
            }
        }
    }
}

// ------------------------------------------------------------------ tokio `read_u8` / `read_until` on a `BufReader`

fn tok_real(data: &[u8], a: &ASched, cap: usize, ops: &str) -> String {
    let src = Counting::new(data, a);
    guarded(move || {
        block_on(async move {
            let mut r = tokio::io::BufReader::with_capacity(cap, src);
            let mut out = vec![];
            for op in ops.chars() {
                out.push(match op {
                    'b' => match r.read_u8().await {
                        Ok(v) => v.to_string(),
                        Err(e) => errclass(&e).to_string(),
                    },
                    _ => {
                        let mut buf = vec![];
                        match r.read_until(b'\n', &mut buf).await {
                            Ok(n) => {
                                if buf.ends_with(b"\n") {
                                    buf.pop();
                                    if buf.ends_with(b"\r") {
                                        buf.pop();
                                    }
                                }
                                format!("{n}:{}", hex(&buf))
                            }
                            Err(e) => errclass(&e).to_string(),
                        }
                    }
                });
            }
            let (_, tail) = btail(r);
            format!("{} {tail}", or_dash(out, ","))
        })
    })
    .unwrap_or_else(|_| "panic".into())
}

fn tok_check(ctx: &mut Ctx, data: &[u8], a: &ASched, cap: usize, ops: &str) {
    let ans = tok_real(data, a, cap, ops);
    ctx.bump(&format!("m2_tok_capacity_{}", cap_class(cap)));
    ctx.bump(&format!("m2_tok_aschedule_{}", a.name));
    for c in ops.chars() {
        ctx.bump(if c == 'b' { "m2_tok_read_u8" } else { "m2_tok_read_line" });
    }
    if ans.contains("err:eof") {
        ctx.bump("m2_tok_read_u8_at_eof");
    }
    ctx.corr(format!("c16 m-tok {} {} {} {cap} {}", hex(data), fmt_asched(&a.sched), a.fallback, if ops.is_empty() { "-" } else { ops }), ans);
}

fn tok_case(ctx: &mut Ctx, sub: u64) {
    let mut rng = Rng::new(sub);
    let len = *rng.pick(&[0usize, 1, 2, 3, 5, 9, 17, 40]);
    let data: Vec<u8> = (0..len).map(|_| *rng.pick(b"ab\n\n\r@+ ")).collect();
    let n = 1 + rng.below(8) as usize;
    let ops: String = (0..n).map(|_| if rng.chance(1, 2) { 'b' } else { 'l' }).collect();
    let kind = rng.below(8) as usize;
    let a = asched(&mut rng, kind, len, &line_ends(&data));
    let cap = *rng.pick(&ACAPS);
    tok_check(ctx, &data, &a, cap, &ops);
}

// ------------------------------------------------------------------ FASTQ

fn fq_str(n: usize, r: &fastq::Record) -> String {
    format!("{n}:{}:{}:{}:{}", hex(r.name()), hex(r.description()), hex(r.sequence()), hex(r.quality_scores()))
}

fn fq_async(data: &[u8], a: &ASched, cap: usize) -> Result<(Obs, String), String> {
    let src = Counting::new(data, a);
    guarded(move || {
        block_on(async move {
            let mut rd = fastq::r#async::io::Reader::new(tokio::io::BufReader::with_capacity(cap, src));
            let mut rec = fastq::Record::default();
            let mut o = Obs { recs: vec![], end: "eof".into(), pos: 0 };
            loop {
                match rd.read_record(&mut rec).await {
                    Ok(0) => break,
                    Ok(n) => o.recs.push(fq_str(n, &rec)),
                    Err(e) => {
                        o.end = errclass(&e).to_string();
                        break;
                    }
                }
                if o.recs.len() > 5000 {
                    o.end = "too-many".into();
                    break;
                }
            }
            let (pos, tail) = btail(rd.into_inner());
            o.pos = pos;
            (o, tail)
        })
    })
}

fn fq_sync(data: &[u8], sched: &[Delivery], cap: usize) -> Result<Obs, String> {
    guarded(|| {
        let mut rd = fastq::io::Reader::new(bufsrc(data, sched, cap));
        let mut rec = fastq::Record::default();
        let mut o = Obs { recs: vec![], end: "eof".into(), pos: 0 };
        loop {
            match rd.read_record(&mut rec) {
                Ok(0) => break,
                Ok(n) => o.recs.push(fq_str(n, &rec)),
                Err(e) => {
                    o.end = errclass(&e).to_string();
                    break;
                }
            }
            if o.recs.len() > 5000 {
                o.end = "too-many".into();
                break;
            }
        }
        o.pos = bufpos(rd.get_ref());
        o
    })
}

fn gen_fastq(rng: &mut Rng) -> (Vec<u8>, &'static str) {
    let crlf = rng.chance(1, 3);
    let mut s = String::new();
    for i in 0..rng.below(5) {
        let l = *rng.pick(&[0u64, 1, 4, 30]);
        s += &format!("@r{i}{}", *rng.pick(&["", " d", "\tLN:4 x", "  ", " \t", "\r x", "/1 a b"]));
        s += nl(crlf);
        s += &word(rng, b"ACGTN", l, l);
        s += nl(crlf);
        s += *rng.pick(&["+", "+", "+r0 d", "+ "]);
        s += nl(crlf);
        s += &word(rng, b"!+5?IJ~@", l, l);
        s += nl(crlf);
    }
    let mut t = s.into_bytes();
    let label = match rng.below(10) {
        0 if !t.is_empty() => {
            t.truncate(rng.below(t.len() as u64) as usize);
            "cut"
        }
        1 | 2 if !t.is_empty() => {
            let k = rng.below(t.len() as u64) as usize;
            t[k] = *rng.pick(b"@+ \t\r\nx");
            "byte"
        }
        3 if !t.is_empty() => {
            let k = rng.below(t.len() as u64) as usize;
            t.remove(k);
            "deleted"
        }
        4 if t.ends_with(b"\n") => {
            t.pop();
            if t.ends_with(b"\r") && rng.chance(1, 2) {
                t.pop();
            }
            "no-final-newline"
        }
        _ => "valid",
    };
    (t, label)
}

fn fq_check(ctx: &mut Ctx, data: &[u8], label: &str, rng: &mut Rng, case: &str) {
    let len = data.len();
    let b = line_ends(data);
    let scap = *rng.pick(&SCAPS);
    let kind = rng.below(7) as usize;
    let (ss, ss_name) = ssched(rng, kind, len, &b);
    // the sync scanner does not retry `Interrupted` inside `read_u8`'s `read_exact`? it does (std); fine
    let sync = fq_sync(data, &ss, scap);
    let kind0 = rng.below(8) as usize;
    for j in 0..2 {
        let cap = *rng.pick(&ACAPS);
        let a = asched(rng, kind0 + j * 3, len, &b);
        let asy = fq_async(data, &a, cap);
        ctx.eval(if len > 8 { Some(fnv(data) ^ cap as u64 ^ fnv(a.name.as_bytes())) } else { None });
        judge(ctx, "fastq", "c16m-fastq-record", "FASTQ read_record", &asy, &sync, &format!("under schedule {}, capacity {cap} (sync capacity {scap})", a.name), case);
        ctx.corr(format!("c16 m-fq {} {} {} {cap} {} {scap}", hex(data), fmt_asched(&a.sched), a.fallback, fmt_ssched(&ss)), both(&asy, &sync));
        ctx.bump(&format!("m2_fastq_aschedule_{}", a.name));
        ctx.bump(&format!("m2_fastq_capacity_{}", cap_class(cap)));
    }
    ctx.bump(&format!("m2_fastq_sschedule_{ss_name}"));
    ctx.bump(&format!("m2_fastq_input_{label}"));
    if let Ok(o) = &sync {
        ctx.bump(&format!("m2_fastq_records_{}", o.recs.len().min(4)));
        ctx.bump(&format!("m2_fastq_end_{}", o.end));
        if o.recs.iter().any(|r| r.split(':').nth(2) != Some("-")) {
            ctx.bump("m2_fastq_has_description");
        }
    }
}

fn fq_case(ctx: &mut Ctx, sub: u64) {
    let mut rng = Rng::new(sub);
    let (data, label) = gen_fastq(&mut rng);
    fq_check(ctx, &data, label, &mut rng, &format!("m2-fq {sub}"));
}

// ------------------------------------------------------------------ FASTA

/// the well-formedness the theorems about `read_sequence` ask for (`wfSeq` / `wfFasta` of the Lean
/// model): up to the next definition a `>` only follows an LF, a CR is followed by an LF or by nothing
fn wf_seq(mut prev: u8, t: &[u8]) -> (bool, usize) {
    for (i, &c) in t.iter().enumerate() {
        if c == b'>' {
            return (prev == b'\n', i);
        }
        if prev == b'\r' && c != b'\n' {
            return (false, i);
        }
        prev = c;
    }
    (true, t.len())
}

fn wf_fasta(t: &[u8]) -> bool {
    let mut at = 0;
    while at < t.len() {
        match t[at..].iter().position(|&c| c == b'\n') {
            None => return true,
            Some(i) => at += i + 1,
        }
        let (ok, n) = wf_seq(b'\n', &t[at..]);
        if !ok {
            return false;
        }
        at += n;
    }
    true
}

/// async: `read_definition` + `read_sequence` until 0 / error; records `n:name:desc:m:seq`
fn fa_async(data: &[u8], a: &ASched, cap: usize) -> Result<(Obs, String), String> {
    let src = Counting::new(data, a);
    guarded(move || {
        block_on(async move {
            let mut rd = fasta::r#async::io::Reader::new(tokio::io::BufReader::with_capacity(cap, src));
            let mut o = Obs { recs: vec![], end: "eof".into(), pos: 0 };
            loop {
                let mut def = fasta::record::Definition::default();
                let n = match rd.read_definition(&mut def).await {
                    Ok(0) => break,
                    Ok(n) => n,
                    Err(e) => {
                        o.end = errclass(&e).to_string();
                        break;
                    }
                };
                let mut seq = vec![];
                match rd.read_sequence(&mut seq).await {
                    Ok(m) => o.recs.push(format!("{n}:{}:{}:{m}:{}", hex(def.name()), hex(def.description().map(|d| d.as_ref()).unwrap_or(b"")), hex(&seq))),
                    Err(e) => {
                        o.end = errclass(&e).to_string();
                        break;
                    }
                }
                if o.recs.len() > 5000 {
                    o.end = "too-many".into();
                    break;
                }
            }
            let (pos, tail) = btail(rd.into_inner());
            o.pos = pos;
            (o, tail)
        })
    })
}

/// sync `records()`: `name:desc:seq`
fn fa_sync(data: &[u8], sched: &[Delivery], cap: usize) -> Result<Obs, String> {
    guarded(|| {
        let mut rd = fasta::io::Reader::new(bufsrc(data, sched, cap));
        let mut o = Obs { recs: vec![], end: "eof".into(), pos: 0 };
        for x in rd.records() {
            match x {
                Ok(rec) => o.recs.push(format!("{}:{}:{}", hex(rec.name()), hex(rec.description().map(|d| d.as_ref()).unwrap_or(b"")), hex(rec.sequence().as_ref()))),
                Err(e) => {
                    o.end = errclass(&e).to_string();
                    break;
                }
            }
        }
        o.pos = bufpos(rd.get_ref());
        o
    })
}

/// the async record strings without the two return values: `name:desc:seq`
fn fa_strip(r: &str) -> String {
    let f: Vec<&str> = r.split(':').collect();
    if f.len() == 5 { format!("{}:{}:{}", f[1], f[2], f[4]) } else { r.to_string() }
}

fn gen_fasta(rng: &mut Rng) -> (Vec<u8>, &'static str) {
    let crlf = rng.chance(1, 3);
    let mut s = String::new();
    for i in 0..rng.below(5) {
        s += &format!(">sq{i}{}", *rng.pick(&["", " desc", "  two words ", "\tLN:5 >x"]));
        s += nl(crlf);
        let w = rng.range(1, 70);
        for _ in 0..rng.below(6) {
            if rng.chance(1, 6) {
                s += nl(crlf);
            }
            s += &word(rng, b"ACGTNacgtn", 1, w);
            s += nl(crlf);
        }
    }
    let mut t = s.into_bytes();
    let label = match rng.below(12) {
        0 if !t.is_empty() => {
            t.truncate(rng.below(t.len() as u64) as usize);
            "cut"
        }
        1 if !t.is_empty() => {
            let k = rng.below(t.len() as u64) as usize;
            t[k] = *rng.pick(b">\r\n x");
            "byte"
        }
        2 if t.ends_with(b"\n") => {
            t.pop(); // no final newline; with CRLF the text then ends with a bare CR
            "no-final-lf"
        }
        3 if t.ends_with(b"\r\n") => {
            t.pop();
            t.pop();
            "no-final-newline"
        }
        4 if t.ends_with(b"\n") && !crlf => {
            t.pop();
            t.push(b'\r'); // LF text whose last line ends with a bare CR
            "final-cr"
        }
        _ => "valid",
    };
    (t, label)
}

fn fa_check(ctx: &mut Ctx, data: &[u8], label: &str, rng: &mut Rng, case: &str) {
    let len = data.len();
    let b = line_ends(data);
    let wf = wf_fasta(data);
    let scap = *rng.pick(&SCAPS);
    // the sync sequence reader hands `Interrupted` to `read_to_end`, which retries it
    let kind = rng.below(7) as usize;
    let (ss, ss_name) = ssched(rng, kind, len, &b);
    let sync = fa_sync(data, &ss, scap);
    let kind0 = rng.below(8) as usize;
    for j in 0..2 {
        let cap = *rng.pick(&ACAPS);
        let a = asched(rng, kind0 + j * 3, len, &b);
        let asy = fa_async(data, &a, cap);
        ctx.eval(if len > 8 && wf { Some(fnv(data) ^ cap as u64 ^ fnv(a.name.as_bytes())) } else { None });
        let how = format!("under schedule {}, capacity {cap} (sync capacity {scap})", a.name);
        match (&asy, &sync) {
            (Err(p), _) => ctx.fail("c16m-panic", format!("async FASTA reader panicked ({p}) {how}"), case.into()),
            (_, Err(p)) => ctx.fail("c16m-panic", format!("sync FASTA reader panicked ({p})"), case.into()),
            (Ok((ao, _)), Ok(so)) => {
                if !wf {
                    ctx.bump("m2_fasta_not_wellformed_not_judged");
                } else if so.end != "eof" {
                    ctx.bump(&format!("m2_fasta_sync_rejects_{}", so.end));
                } else {
                    let ar: Vec<String> = ao.recs.iter().map(|r| fa_strip(r)).collect();
                    if ar != so.recs || ao.end != so.end || ao.pos != so.pos {
                        // the known defect: a CR at the very end of the stream stays in the last sequence
                        let only_cr = data.ends_with(b"\r") && ao.end == so.end && ao.pos == so.pos && ar.len() == so.recs.len() && {
                            let mut fixed = ar.clone();
                            if let Some(l) = fixed.last_mut() {
                                if l.ends_with("0d") {
                                    l.truncate(l.len() - 2);
                                    if l.ends_with(':') {
                                        l.push('-');
                                    }
                                }
                            }
                            fixed == so.recs
                        };
                        let k = (0..ar.len().max(so.recs.len())).find(|&i| ar.get(i) != so.recs.get(i));
                        ctx.fail(
                            if only_cr { "c16m-fasta-trailing-cr" } else { "c16m-fasta-reader" },
                            format!("FASTA read_definition/read_sequence differs {how}: first difference at record {:?}: async {:?}, sync {:?}; ends {} / {}, positions {} / {}", k, k.and_then(|i| ar.get(i)), k.and_then(|i| so.recs.get(i)), ao.end, so.end, ao.pos, so.pos),
                            case.into(),
                        );
                    }
                }
            }
        }
        let sa = match &asy {
            Ok((o, tail)) => format!("A {}{tail}", o.line()),
            Err(_) => "A panic".into(),
        };
        let ssn = if wf {
            match &sync {
                Ok(o) => format!("S {}@{}", o.line(), o.pos),
                Err(_) => "S panic".into(),
            }
        } else {
            "S -".into()
        };
        ctx.corr(format!("c16 m-fa {} {} {} {} {cap} {} {scap}", wf as u8, hex(data), fmt_asched(&a.sched), a.fallback, fmt_ssched(&ss)), format!("{sa} | {ssn}"));
        ctx.bump(&format!("m2_fasta_aschedule_{}", a.name));
        ctx.bump(&format!("m2_fasta_capacity_{}", cap_class(cap)));
    }
    ctx.bump(&format!("m2_fasta_sschedule_{ss_name}"));
    ctx.bump(&format!("m2_fasta_input_{label}"));
    ctx.bump(if wf { "m2_fasta_wellformed" } else { "m2_fasta_not_wellformed" });
    if data.ends_with(b"\r") {
        ctx.bump("m2_fasta_ends_with_cr");
    }
    if let Ok(o) = &sync {
        ctx.bump(&format!("m2_fasta_records_{}", o.recs.len().min(4)));
    }
}

fn fa_case(ctx: &mut Ctx, sub: u64) {
    let mut rng = Rng::new(sub);
    let (data, label) = gen_fasta(&mut rng);
    fa_check(ctx, &data, label, &mut rng, &format!("m2-fa {sub}"));
}

// ------------------------------------------------------------------ "one line, then parse it" readers

#[derive(Clone, Copy, PartialEq, Debug)]
enum LK {
    Sam,
    Vcf,
    Fai,
}

impl LK {
    fn name(self) -> &'static str {
        match self {
            LK::Sam => "samline",
            LK::Vcf => "vcfline",
            LK::Fai => "fai",
        }
    }
}

const SAM_HEADER: &[u8] = b"@SQ\tSN:sq0\tLN:5000\n@SQ\tSN:sq1\tLN:5000\n";

fn sam_header() -> sam::Header {
    sam::io::Reader::new(SAM_HEADER).read_header().unwrap()
}

fn token<T: std::fmt::Debug>(x: &T) -> String {
    format!("{:x}", fnv(format!("{x:?}").as_bytes()))
}

/// what the real (sync) parser behind the reader answers for one line alone
fn line_token(k: LK, line: &[u8]) -> String {
    let l = if line.is_empty() { b"\n".to_vec() } else { line.to_vec() };
    let r: io::Result<String> = match k {
        LK::Sam => {
            let h = sam_header();
            let mut rec = sam::alignment::RecordBuf::default();
            sam::io::Reader::new(&l[..]).read_record_buf(&h, &mut rec).map(|_| token(&rec))
        }
        LK::Vcf => {
            let h = vcf::Header::default();
            let mut rec = vcf::variant::RecordBuf::default();
            vcf::io::Reader::new(&l[..]).read_record_buf(&h, &mut rec).map(|_| token(&rec))
        }
        LK::Fai => fasta::fai::io::Reader::new(&l[..]).read_index().map(|ix| token(&ix.as_ref().first().cloned())),
    };
    match r {
        Ok(t) => t,
        Err(e) => errclass(&e).to_string(),
    }
}

/// the lines of a text as `read_line` splits them, each with the real parser's answer
fn line_table(k: LK, text: &[u8]) -> String {
    let mut seen = std::collections::BTreeMap::new();
    for raw in text.split_inclusive(|&c| c == b'\n') {
        let mut l = raw;
        if l.ends_with(b"\n") {
            l = &l[..l.len() - 1];
            if l.ends_with(b"\r") {
                l = &l[..l.len() - 1];
            }
        }
        if std::str::from_utf8(l).is_ok() || k != LK::Vcf {
            seen.entry(l.to_vec()).or_insert_with(|| guarded(|| line_token(k, l)).unwrap_or("panic".into()));
        }
    }
    or_dash(seen.iter().map(|(l, t)| format!("{}:{t}", hex(l))).collect(), ",")
}

fn ln_async(k: LK, data: &[u8], a: &ASched, cap: usize) -> Result<(Obs, String), String> {
    let src = Counting::new(data, a);
    guarded(move || {
        block_on(async move {
            let br = tokio::io::BufReader::with_capacity(cap, src);
            let mut o = Obs { recs: vec![], end: "eof".into(), pos: 0 };
            let br = match k {
                LK::Sam => {
                    let h = sam_header();
                    let mut rd = sam::r#async::io::Reader::new(br);
                    let mut rec = sam::alignment::RecordBuf::default();
                    loop {
                        match rd.read_record_buf(&h, &mut rec).await {
                            Ok(0) => break,
                            Ok(n) => o.recs.push(format!("{n}:{}", token(&rec))),
                            Err(e) => {
                                o.end = errclass(&e).to_string();
                                break;
                            }
                        }
                    }
                    rd.into_inner()
                }
                LK::Vcf => {
                    let h = vcf::Header::default();
                    let mut rd = vcf::r#async::io::Reader::new(br);
                    let mut rec = vcf::variant::RecordBuf::default();
                    loop {
                        match rd.read_record_buf(&h, &mut rec).await {
                            Ok(0) => break,
                            Ok(n) => o.recs.push(format!("{n}:{}", token(&rec))),
                            Err(e) => {
                                o.end = errclass(&e).to_string();
                                break;
                            }
                        }
                    }
                    rd.into_inner()
                }
                LK::Fai => {
                    let mut br = br;
                    {
                        let mut rd = fasta::fai::r#async::io::Reader::new(&mut br);
                        match rd.read_index().await {
                            Ok(ix) => o.recs = ix.as_ref().iter().map(|x| token(&Some(x.clone()))).collect(),
                            Err(e) => o.end = errclass(&e).to_string(),
                        }
                    }
                    br
                }
            };
            let (pos, tail) = btail(br);
            o.pos = pos;
            (o, tail)
        })
    })
}

fn ln_sync(k: LK, data: &[u8], sched: &[Delivery], cap: usize) -> Result<Obs, String> {
    guarded(|| {
        let mut o = Obs { recs: vec![], end: "eof".into(), pos: 0 };
        match k {
            LK::Sam => {
                let h = sam_header();
                let mut rd = sam::io::Reader::new(bufsrc(data, sched, cap));
                let mut rec = sam::alignment::RecordBuf::default();
                loop {
                    match rd.read_record_buf(&h, &mut rec) {
                        Ok(0) => break,
                        Ok(n) => o.recs.push(format!("{n}:{}", token(&rec))),
                        Err(e) => {
                            o.end = errclass(&e).to_string();
                            break;
                        }
                    }
                }
                o.pos = bufpos(rd.get_ref());
            }
            LK::Vcf => {
                let h = vcf::Header::default();
                let mut rd = vcf::io::Reader::new(bufsrc(data, sched, cap));
                let mut rec = vcf::variant::RecordBuf::default();
                loop {
                    match rd.read_record_buf(&h, &mut rec) {
                        Ok(0) => break,
                        Ok(n) => o.recs.push(format!("{n}:{}", token(&rec))),
                        Err(e) => {
                            o.end = errclass(&e).to_string();
                            break;
                        }
                    }
                }
                o.pos = bufpos(rd.get_ref());
            }
            LK::Fai => {
                let mut rd = fasta::fai::io::Reader::new(bufsrc(data, sched, cap));
                match rd.read_index() {
                    Ok(ix) => o.recs = ix.as_ref().iter().map(|x| token(&Some(x.clone()))).collect(),
                    Err(e) => o.end = errclass(&e).to_string(),
                }
                o.pos = bufpos(rd.get_ref());
            }
        }
        o
    })
}

/// damage that leaves decimal numbers whole unless `digits_too`
fn damage_text(rng: &mut Rng, t: &mut Vec<u8>, repl: &[u8], digits_too: bool) -> &'static str {
    match rng.below(8) {
        0 if !t.is_empty() => {
            t.truncate(rng.below(t.len() as u64) as usize);
            "cut"
        }
        1 | 2 if !t.is_empty() => {
            for _ in 0..20 {
                let k = rng.below(t.len() as u64) as usize;
                if digits_too || !(t[k].is_ascii_digit() || t[k] == b'-' || t[k] == b'+') {
                    t[k] = *rng.pick(repl);
                    return "byte";
                }
            }
            "valid"
        }
        3 if t.ends_with(b"\n") => {
            t.pop();
            if t.ends_with(b"\r") && rng.chance(1, 2) {
                t.pop();
            }
            "no-final-newline"
        }
        _ => "valid",
    }
}

fn gen_sam_lines(rng: &mut Rng) -> Vec<u8> {
    let crlf = rng.chance(1, 3);
    let mut s = String::new();
    for i in 0..rng.below(7) {
        let l = if rng.chance(1, 6) { 0 } else { rng.range(1, 30) };
        let seq = if l == 0 { "*".to_string() } else { word(rng, b"ACGTN", l, l) };
        let qual = if l == 0 || rng.chance(1, 5) { "*".to_string() } else { word(rng, b"!+5?IJ~", l, l) };
        let rname = *rng.pick(&["*", "sq0", "sq1"]);
        let pos = if rname == "*" { 0 } else { rng.range(1, 4000) };
        let cigar = if l == 0 || rname == "*" { "*".to_string() } else { format!("{l}M") };
        s += &format!(
            "r{i}\t{}\t{rname}\t{pos}\t{}\t{cigar}\t{}\t{}\t{}\t{seq}\t{qual}",
            rng.below(4096),
            *rng.pick(&[0u64, 30, 60, 255]),
            *rng.pick(&["*", "=", "sq1"]),
            rng.below(3000),
            rng.below(600) as i64 - 300
        );
        for _ in 0..rng.below(3) {
            s += *rng.pick(&["\tNM:i:1", "\tRG:Z:g0", "\tXS:A:+"]);
        }
        s += nl(crlf);
    }
    s.into_bytes()
}

fn gen_vcf_lines(rng: &mut Rng) -> Vec<u8> {
    let crlf = rng.chance(1, 3);
    let ns = rng.below(3);
    let mut s = String::new();
    for i in 0..rng.below(7) {
        let id = *rng.pick(&[".", "rs1", "rs2;rs3", "r\u{e9}"]);
        let alt = *rng.pick(&[".", "C", "G,T", "<DEL>"]);
        let qual = *rng.pick(&[".", "30", "7", "1000"]);
        let filt = *rng.pick(&[".", "PASS", "q10"]);
        let info = *rng.pick(&[".", "DP=5", "AC=1;AN=2", "NOTE=\u{3b1}\u{3b2}"]);
        s += &format!("sq{}\t{}\t{id}\tA\t{alt}\t{qual}\t{filt}\t{info}", i % 2, if rng.chance(1, 9) { 0 } else { rng.range(1, 4000) });
        if ns > 0 {
            s += "\tGT";
            for _ in 0..ns {
                s += *rng.pick(&["\t0/1", "\t1|1", "\t."]);
            }
        } else if rng.chance(1, 6) {
            s += "\t.";
        }
        s += nl(crlf);
    }
    s.into_bytes()
}

fn gen_fai_text(rng: &mut Rng) -> Vec<u8> {
    let crlf = rng.chance(1, 3);
    let mut s = String::new();
    for i in 0..rng.below(7) {
        let lb = rng.range(1, 80);
        s += &format!("sq{i}\t{}\t{}\t{lb}\t{}{}", rng.below(100_000), rng.below(1 << 30), lb + 1, nl(crlf));
    }
    s.into_bytes()
}

fn ln_check(ctx: &mut Ctx, k: LK, data: &[u8], label: &str, rng: &mut Rng, case: &str) {
    let len = data.len();
    let b = line_ends(data);
    let table = line_table(k, data);
    let scap = *rng.pick(&SCAPS);
    let kind = rng.below(7) as usize;
    let (ss, ss_name) = ssched(rng, kind, len, &b);
    let sync = ln_sync(k, data, &ss, scap);
    let kind0 = rng.below(8) as usize;
    let nm = k.name();
    for j in 0..2 {
        let cap = *rng.pick(&ACAPS);
        let a = asched(rng, kind0 + j * 3, len, &b);
        let asy = ln_async(k, data, &a, cap);
        ctx.eval(if len > 8 { Some(fnv(data) ^ cap as u64 ^ fnv(a.name.as_bytes()) ^ k as u64) } else { None });
        judge(ctx, nm, &format!("c16m-{nm}"), &format!("{nm} reader"), &asy, &sync, &format!("under schedule {}, capacity {cap} (sync capacity {scap})", a.name), case);
        let ans = if k == LK::Fai {
            // `read_index`: the records are only seen when the whole index was read
            let sa = match &asy {
                Ok((o, tail)) if o.end == "eof" => format!("A {}{tail}", o.line()),
                Ok((o, _)) => format!("A recs=- end={}", o.end),
                Err(_) => "A panic".into(),
            };
            let sn = match &sync {
                Ok(o) if o.end == "eof" => format!("S {}@{}", o.line(), o.pos),
                Ok(o) => format!("S recs=- end={}", o.end),
                Err(_) => "S panic".into(),
            };
            format!("{sa} | {sn}")
        } else {
            both(&asy, &sync)
        };
        ctx.corr(
            format!("c16 m-ln {} {} {table} {} {} {} {cap} {} {scap}", if k == LK::Fai { "index" } else { "each" }, (k == LK::Vcf) as u8, hex(data), fmt_asched(&a.sched), a.fallback, fmt_ssched(&ss)),
            ans,
        );
        ctx.bump(&format!("m2_{nm}_aschedule_{}", a.name));
        ctx.bump(&format!("m2_{nm}_capacity_{}", cap_class(cap)));
    }
    ctx.bump(&format!("m2_{nm}_sschedule_{ss_name}"));
    ctx.bump(&format!("m2_{nm}_input_{label}"));
    if let Ok(o) = &sync {
        ctx.bump(&format!("m2_{nm}_records_{}", o.recs.len().min(4)));
        ctx.bump(&format!("m2_{nm}_end_{}", o.end));
    }
}

fn ln_case(ctx: &mut Ctx, sub: u64) {
    let mut rng = Rng::new(sub);
    let k = *rng.pick(&[LK::Sam, LK::Vcf, LK::Fai]);
    let mut t = match k {
        LK::Sam => gen_sam_lines(&mut rng),
        LK::Vcf => gen_vcf_lines(&mut rng),
        LK::Fai => gen_fai_text(&mut rng),
    };
    let label = match k {
        LK::Vcf => damage_text(&mut rng, &mut t, b"\t\n\r.\xff\xc3", true),
        _ => damage_text(&mut rng, &mut t, b"\t\n\r*x\xff", true),
    };
    ln_check(ctx, k, &t, label, &mut rng, &format!("m2-ln {sub}"));
}

// ------------------------------------------------------------------ lazy SAM / VCF records

fn opt_pos(p: Option<io::Result<noodles_core::Position>>) -> String {
    match p {
        None => dec(0),
        Some(Ok(p)) => dec(usize::from(p)),
        Some(Err(_)) => "?".into(),
    }
}

fn sam_rec_str(n: usize, rec: &sam::Record) -> String {
    guarded(|| {
        let star = |x: Option<&bstr::BStr>| hex(x.map(|b| b.as_ref()).unwrap_or(b"*"));
        let mapq = match rec.mapping_quality() {
            None => dec(255),
            Some(Ok(q)) => dec(q.get()),
            Some(Err(_)) => "?".into(),
        };
        format!(
            "{n}:{}:{}:{}:{}:{}:{}:{}:{}:{}:{}:{}:{}",
            star(rec.name()),
            rec.flags().map(|f| dec(f.bits())).unwrap_or("?".into()),
            star(rec.reference_sequence_name()),
            opt_pos(rec.alignment_start()),
            mapq,
            hex(rec.cigar().as_ref()),
            star(rec.mate_reference_sequence_name()),
            opt_pos(rec.mate_alignment_start()),
            rec.template_length().map(dec).unwrap_or("?".into()),
            hex(rec.sequence().as_ref()),
            hex(rec.quality_scores().as_ref()),
            hex(rec.data().as_ref())
        )
    })
    .unwrap_or_else(|_| format!("{n}:panic"))
}

fn vcf_rec_str(n: usize, rec: &vcf::Record) -> String {
    guarded(|| {
        let qual = match rec.quality_score() {
            None => hex(b"."),
            Some(Ok(v)) if v >= 0.0 && v < 10000.0 && v.fract() == 0.0 => dec(v as u32),
            _ => "?".into(),
        };
        format!(
            "{n}:{}:{}:{}:{}:{}:{}:{}:{}:{}",
            hex(rec.reference_sequence_name().as_bytes()),
            opt_pos(rec.variant_start()),
            hex(rec.ids().as_ref().as_bytes()),
            hex(rec.reference_bases().as_bytes()),
            hex(rec.alternate_bases().as_ref().as_bytes()),
            qual,
            hex(rec.filters().as_ref().as_bytes()),
            hex(rec.info().as_ref().as_bytes()),
            hex(rec.samples().as_ref().as_bytes())
        )
    })
    .unwrap_or_else(|_| format!("{n}:panic"))
}

fn lz_async(vcf_kind: bool, data: &[u8], a: &ASched, cap: usize) -> Result<(Obs, String), String> {
    let src = Counting::new(data, a);
    guarded(move || {
        block_on(async move {
            let br = tokio::io::BufReader::with_capacity(cap, src);
            let mut o = Obs { recs: vec![], end: "eof".into(), pos: 0 };
            let br = if vcf_kind {
                let mut rd = vcf::r#async::io::Reader::new(br);
                let mut rec = vcf::Record::default();
                loop {
                    match rd.read_record(&mut rec).await {
                        Ok(0) => break,
                        Ok(n) => o.recs.push(vcf_rec_str(n, &rec)),
                        Err(e) => {
                            o.end = errclass(&e).to_string();
                            break;
                        }
                    }
                }
                rd.into_inner()
            } else {
                let mut rd = sam::r#async::io::Reader::new(br);
                let mut rec = sam::Record::default();
                loop {
                    match rd.read_record(&mut rec).await {
                        Ok(0) => break,
                        Ok(n) => o.recs.push(sam_rec_str(n, &rec)),
                        Err(e) => {
                            o.end = errclass(&e).to_string();
                            break;
                        }
                    }
                }
                rd.into_inner()
            };
            let (pos, tail) = btail(br);
            o.pos = pos;
            (o, tail)
        })
    })
}

fn lz_sync(vcf_kind: bool, data: &[u8], sched: &[Delivery], cap: usize) -> Result<Obs, String> {
    guarded(|| {
        let mut o = Obs { recs: vec![], end: "eof".into(), pos: 0 };
        if vcf_kind {
            let mut rd = vcf::io::Reader::new(bufsrc(data, sched, cap));
            let mut rec = vcf::Record::default();
            loop {
                match rd.read_record(&mut rec) {
                    Ok(0) => break,
                    Ok(n) => o.recs.push(vcf_rec_str(n, &rec)),
                    Err(e) => {
                        o.end = errclass(&e).to_string();
                        break;
                    }
                }
            }
            o.pos = bufpos(rd.get_ref());
        } else {
            let mut rd = sam::io::Reader::new(bufsrc(data, sched, cap));
            let mut rec = sam::Record::default();
            loop {
                match rd.read_record(&mut rec) {
                    Ok(0) => break,
                    Ok(n) => o.recs.push(sam_rec_str(n, &rec)),
                    Err(e) => {
                        o.end = errclass(&e).to_string();
                        break;
                    }
                }
            }
            o.pos = bufpos(rd.get_ref());
        }
        o
    })
}

fn lz_check(ctx: &mut Ctx, vcf_kind: bool, data: &[u8], label: &str, rng: &mut Rng, case: &str) {
    let len = data.len();
    let b = line_ends(data);
    let nm = if vcf_kind { "vcfrec" } else { "samrec" };
    let scap = *rng.pick(&SCAPS);
    let kind = rng.below(7) as usize;
    let (ss, ss_name) = ssched(rng, kind, len, &b);
    let sync = lz_sync(vcf_kind, data, &ss, scap);
    let kind0 = rng.below(8) as usize;
    for j in 0..2 {
        let cap = *rng.pick(&ACAPS);
        let a = asched(rng, kind0 + j * 3, len, &b);
        let asy = lz_async(vcf_kind, data, &a, cap);
        ctx.eval(if len > 8 { Some(fnv(data) ^ cap as u64 ^ fnv(a.name.as_bytes()) ^ vcf_kind as u64) } else { None });
        judge(ctx, nm, &format!("c16m-{nm}"), &format!("lazy {nm} read_record"), &asy, &sync, &format!("under schedule {}, capacity {cap} (sync capacity {scap})", a.name), case);
        // after a failed record the two readers have consumed different amounts (the async one the whole line)
        let ans = match (&asy, &sync) {
            (Ok((ao, tail)), Ok(so)) => {
                let sa = if ao.end == "eof" { format!("A {}{tail}", ao.line()) } else { format!("A {}", ao.line()) };
                let sn = if so.end == "eof" { format!("S {}@{}", so.line(), so.pos) } else { format!("S {}", so.line()) };
                format!("{sa} | {sn}")
            }
            _ => "panic".into(),
        };
        ctx.corr(format!("c16 m-lz {} {} {} {} {cap} {} {scap}", if vcf_kind { "vcf" } else { "sam" }, hex(data), fmt_asched(&a.sched), a.fallback, fmt_ssched(&ss)), ans);
        ctx.bump(&format!("m2_{nm}_aschedule_{}", a.name));
        ctx.bump(&format!("m2_{nm}_capacity_{}", cap_class(cap)));
    }
    ctx.bump(&format!("m2_{nm}_sschedule_{ss_name}"));
    ctx.bump(&format!("m2_{nm}_input_{label}"));
    if let Ok(o) = &sync {
        ctx.bump(&format!("m2_{nm}_records_{}", o.recs.len().min(4)));
        ctx.bump(&format!("m2_{nm}_end_{}", o.end));
    }
}

fn lz_case(ctx: &mut Ctx, sub: u64) {
    let mut rng = Rng::new(sub);
    let vcf_kind = rng.chance(1, 2);
    let mut t = if vcf_kind { gen_vcf_lines(&mut rng) } else { gen_sam_lines(&mut rng) };
    let label = if vcf_kind { damage_text(&mut rng, &mut t, b"\t\n\r.\xff\xc3", false) } else { damage_text(&mut rng, &mut t, b"\t\n\r*x", false) };
    lz_check(ctx, vcf_kind, &t, label, &mut rng, &format!("m2-lz {sub}"));
}

// ------------------------------------------------------------------ BCF records on a raw stream

fn u32_at(b: &[u8], at: usize) -> usize {
    u32::from_le_bytes(b[at..at + 4].try_into().unwrap()) as usize
}

/// starts of the records of a stream framed by `words` length words (BCF: l_shared, l_indiv)
fn framed_starts(raw: &[u8], words: usize) -> Vec<usize> {
    let mut v = vec![];
    let mut at = 0;
    while at + 4 * words <= raw.len() {
        v.push(at);
        let mut n = 0usize;
        for w in 0..words {
            n = n.saturating_add(u32_at(raw, at + 4 * w));
        }
        at = at.saturating_add(4 * words).saturating_add(n);
        if v.len() > 200 {
            break;
        }
    }
    v
}

fn gen_bcf(rng: &mut Rng) -> Option<(Vec<u8>, &'static str)> {
    let g = gen_file(Fmt::BcfRaw, rng)?;
    let f = g.bytes;
    if f.len() < 9 {
        return None;
    }
    let start = 9 + u32_at(&f, 5);
    if start > f.len() {
        return None;
    }
    let mut raw = f[start..].to_vec();
    if raw.len() > 3000 {
        let st = framed_starts(&raw, 2);
        let cut = st.iter().copied().filter(|&x| x <= 3000).max().unwrap_or(0);
        raw.truncate(cut);
    }
    let starts = framed_starts(&raw, 2);
    let label = match rng.below(10) {
        0 if !raw.is_empty() => {
            raw.truncate(rng.below(raw.len() as u64) as usize);
            "cut"
        }
        1 if raw.len() >= 8 => {
            let k = *rng.pick(&starts);
            raw[k..k + 4].copy_from_slice(&0u32.to_le_bytes());
            "l_shared-0"
        }
        2 if raw.len() >= 8 => {
            let k = *rng.pick(&starts);
            let n = *rng.pick(&[1u32, 23, 24, 25, 27]);
            raw[k..k + 4].copy_from_slice(&n.to_le_bytes());
            "short-site"
        }
        3 if raw.len() >= 8 => {
            let k = *rng.pick(&starts);
            if k + 8 + 26 < raw.len() {
                raw[k + 8 + 24 + rng.below(3) as usize] ^= 0x5a;
            }
            "descriptor"
        }
        4 if raw.len() >= 8 => {
            let k = *rng.pick(&starts);
            let n = u32_at(&raw, k + 4) as u32 + 1 + rng.below(500) as u32;
            raw[k + 4..k + 8].copy_from_slice(&n.to_le_bytes());
            "l_indiv-long"
        }
        5 => {
            raw.extend_from_slice(&[7, 0, 0]);
            "partial-l_shared"
        }
        _ => "valid",
    };
    Some((raw, label))
}

fn bcf_rec_str(n: usize, rec: &bcf::Record) -> String {
    guarded(|| format!("{n}:{}:{}:{}", hex(rec.ids().as_ref()), hex(rec.info().as_ref()), rec.samples().map(|s| hex(s.as_ref())).unwrap_or("?".into()))).unwrap_or(format!("{n}:panic"))
}

fn bcf_async(data: &[u8], a: &ASched) -> Result<(Obs, String, Vec<usize>), String> {
    let src = Counting::new(data, a);
    guarded(move || {
        block_on(async move {
            let mut rd = bcf::r#async::io::Reader::from(src);
            let mut rec = bcf::Record::default();
            let mut o = Obs { recs: vec![], end: "eof".into(), pos: 0 };
            loop {
                match rd.read_record(&mut rec).await {
                    Ok(0) => break,
                    Ok(n) => o.recs.push(bcf_rec_str(n, &rec)),
                    Err(e) => {
                        o.end = errclass(&e).to_string();
                        break;
                    }
                }
                if o.recs.len() > 5000 {
                    o.end = "too-many".into();
                    break;
                }
            }
            let src = rd.into_inner();
            o.pos = src.inner.pos;
            let tail = src.tail_at(o.pos);
            (o, tail, src.asks)
        })
    })
}

fn bcf_sync(data: &[u8], sched: &[Delivery]) -> Result<Obs, String> {
    guarded(|| {
        let mut rd = bcf::io::Reader::from(SchedReader::new(data.to_vec(), sched.to_vec(), usize::MAX));
        let mut rec = bcf::Record::default();
        let mut o = Obs { recs: vec![], end: "eof".into(), pos: 0 };
        loop {
            match rd.read_record(&mut rec) {
                Ok(0) => break,
                Ok(n) => o.recs.push(bcf_rec_str(n, &rec)),
                Err(e) => {
                    o.end = errclass(&e).to_string();
                    break;
                }
            }
            if o.recs.len() > 5000 {
                o.end = "too-many".into();
                break;
            }
        }
        o.pos = rd.get_ref().pos;
        o
    })
}

fn bcf_check(ctx: &mut Ctx, data: &[u8], label: &str, rng: &mut Rng, case: &str) {
    let len = data.len();
    let b: Vec<usize> = framed_starts(data, 2).into_iter().flat_map(|x| [x, x + 4, x + 8]).take(40).collect();
    let kind = rng.below(7) as usize;
    let (ss, ss_name) = ssched(rng, kind, len, &b);
    let sync = bcf_sync(data, &ss);
    let kind0 = rng.below(8) as usize;
    for j in 0..2 {
        let a = asched(rng, kind0 + j * 3, len, &b);
        let asy3 = bcf_async(data, &a);
        let asks = asy3.as_ref().map(|x| x.2.clone()).unwrap_or_default();
        if asks.iter().any(|&n| n == 0) {
            ctx.fail("c16m-assumed-law", "a tokio future offered the reader an empty buffer".into(), case.into());
        }
        let asy = asy3.map(|x| (x.0, x.1));
        ctx.eval(if len > 8 { Some(fnv(data) ^ fnv(a.name.as_bytes())) } else { None });
        judge(ctx, "bcf", "c16m-bcf-record", "BCF read_record", &asy, &sync, &format!("under schedule {}", a.name), case);
        ctx.corr(format!("c16 m-bcf {} {} {} {} {}", hex(data), fmt_asched(&a.sched), a.fallback, fmt_asks(&asks), fmt_ssched(&ss)), both(&asy, &sync));
        ctx.bump(&format!("m2_bcf_aschedule_{}", a.name));
    }
    ctx.bump(&format!("m2_bcf_sschedule_{ss_name}"));
    ctx.bump(&format!("m2_bcf_input_{label}"));
    if let Ok(o) = &sync {
        ctx.bump(&format!("m2_bcf_records_{}", o.recs.len().min(4)));
        ctx.bump(&format!("m2_bcf_end_{}", o.end));
    }
}

fn bcf_case(ctx: &mut Ctx, sub: u64) {
    let mut rng = Rng::new(sub);
    match gen_bcf(&mut rng) {
        Some((data, label)) => bcf_check(ctx, &data, label, &mut rng, &format!("m2-bcf {sub}")),
        None => ctx.bump("m2_bcf_generator_skipped"),
    }
}

// ------------------------------------------------------------------ index descriptions (the format of suite c17)

fn fmt_chunks(cs: &[csi::binning_index::index::reference_sequence::bin::Chunk]) -> String {
    super::c17::fmt_chunks(cs)
}
fn d_bins(b: &IndexMap<usize, Bin>) -> String {
    or_dash(b.iter().map(|(id, bin)| format!("{}={}", id, fmt_chunks(bin.chunks()))).collect(), "+")
}
fn d_md(m: Option<&Metadata>) -> String {
    match m {
        None => "-".into(),
        Some(m) => format!("{}:{}:{}:{}", u64::from(m.start_position()), u64::from(m.end_position()), m.mapped_record_count(), m.unmapped_record_count()),
    }
}
fn d_reflin(r: &ReferenceSequence<LinearIndex>) -> String {
    let lin = or_dash(r.index().iter().map(|v| u64::from(*v).to_string()).collect(), ",");
    format!("{}|{}|{}", d_bins(r.bins()), d_md(r.metadata()), lin)
}
fn d_refcsi(r: &ReferenceSequence<BinnedIndex>) -> String {
    let ix = or_dash(r.index().iter().map(|(k, v)| format!("{}:{}", k, u64::from(*v))).collect(), ",");
    format!("{}|{}|{}", d_bins(r.bins()), d_md(r.metadata()), ix)
}
fn d_opt(n: Option<u64>) -> String {
    n.map(|n| n.to_string()).unwrap_or_else(|| "-".into())
}
fn d_header(h: Option<&Header>) -> String {
    let Some(h) = h else { return "-".into() };
    let f = match h.format() {
        Format::Generic(CoordinateSystem::Gff) => "g0",
        Format::Generic(CoordinateSystem::Bed) => "g1",
        Format::Sam => "s",
        Format::Vcf => "v",
    };
    let names = or_dash(h.reference_sequence_names().iter().map(|n| if n.is_empty() { "_".into() } else { hex(n.as_ref()) }).collect(), ".");
    format!("{},{},{},{},{},{},{}", f, h.reference_sequence_name_index(), h.start_position_index(), d_opt(h.end_position_index().map(|n| n as u64)), h.line_comment_prefix(), h.line_skip_count(), names)
}
fn d_bai(ix: &binning_index::Index<LinearIndex>) -> String {
    let refs = or_dash(ix.reference_sequences().iter().map(d_reflin).collect(), ";");
    format!("{}/{}", refs, d_opt(ix.unplaced_unmapped_record_count()))
}
fn d_csi(ix: &binning_index::Index<BinnedIndex>) -> String {
    let refs = or_dash(ix.reference_sequences().iter().map(d_refcsi).collect(), ";");
    format!("{},{}/{}/{}/{}", ix.min_shift(), ix.depth(), d_header(ix.header()), refs, d_opt(ix.unplaced_unmapped_record_count()))
}

// ------------------------------------------------------------------ index generators

#[derive(Clone, Copy, PartialEq, Debug)]
enum IK {
    Bai,
    Tbi,
    Csi,
}

fn put_chunks(rng: &mut Rng, p: &mut Vec<u8>) {
    let n = rng.below(4) as u32;
    p.extend_from_slice(&n.to_le_bytes());
    for _ in 0..n {
        let a = rng.below(1 << 40);
        p.extend_from_slice(&a.to_le_bytes());
        p.extend_from_slice(&(a + rng.below(1 << 20)).to_le_bytes());
    }
}

fn put_metadata(rng: &mut Rng, p: &mut Vec<u8>) {
    p.extend_from_slice(&2u32.to_le_bytes());
    for _ in 0..4 {
        p.extend_from_slice(&rng.below(1 << 44).to_le_bytes());
    }
}

fn put_bins(ctx: &mut Ctx, rng: &mut Rng, p: &mut Vec<u8>, meta_id: u32, csi: bool) {
    let mut ids: Vec<u32> = vec![];
    for _ in 0..rng.below(5) {
        let id = rng.below(meta_id as u64 - 1) as u32;
        if !ids.contains(&id) {
            ids.push(id);
        }
    }
    if rng.chance(1, 2) {
        ids.insert(rng.below(ids.len() as u64 + 1) as usize, meta_id);
        if rng.chance(1, 12) {
            ids.push(meta_id);
            ctx.bump("m2_index_gen_second-metadata-bin");
        }
    }
    if ids.len() > 1 && ids[0] != meta_id && rng.chance(1, 12) {
        ids.push(ids[0]);
        ctx.bump("m2_index_gen_repeated-bin");
    }
    p.extend_from_slice(&(ids.len() as u32).to_le_bytes());
    for id in ids {
        p.extend_from_slice(&id.to_le_bytes());
        if csi {
            p.extend_from_slice(&rng.below(1 << 40).to_le_bytes());
        }
        if id == meta_id { put_metadata(rng, p) } else { put_chunks(rng, p) }
    }
}

fn put_intervals(rng: &mut Rng, p: &mut Vec<u8>) {
    let n = rng.below(5) as u32;
    p.extend_from_slice(&n.to_le_bytes());
    for _ in 0..n {
        p.extend_from_slice(&rng.below(1 << 40).to_le_bytes());
    }
}

/// the tabix header (also the CSI aux block). `l_nm` now and then larger than the names block that
/// follows (a names block cut short).
fn put_tabix_header(ctx: &mut Ctx, rng: &mut Rng, p: &mut Vec<u8>) {
    let fmt = *rng.pick(&[0u32, 1, 2, 0x10000, 0x10000, 0]);
    p.extend_from_slice(&fmt.to_le_bytes());
    let (cs, cb) = (1 + rng.below(3) as u32, 2 + rng.below(3) as u32);
    p.extend_from_slice(&cs.to_le_bytes());
    p.extend_from_slice(&cb.to_le_bytes());
    let ce = if fmt == 1 || fmt == 2 { 0 } else if rng.chance(1, 3) { cb } else { cb + 1 };
    p.extend_from_slice(&ce.to_le_bytes());
    p.extend_from_slice(&(*rng.pick(&[b'#', b'@', 0u8]) as u32).to_le_bytes());
    p.extend_from_slice(&(rng.below(3) as u32).to_le_bytes());
    let mut names = vec![];
    for i in 0..rng.below(4) {
        names.extend_from_slice(format!("sq{i}").as_bytes());
        names.push(0);
    }
    match rng.below(14) {
        0 if !names.is_empty() => {
            names.pop();
            ctx.bump("m2_index_gen_names-no-nul");
        }
        1 if !names.is_empty() => {
            names.extend_from_slice(b"sq0\0");
            ctx.bump("m2_index_gen_names-duplicate");
        }
        _ => {}
    }
    p.extend_from_slice(&(names.len() as u32).to_le_bytes());
    p.extend_from_slice(&names);
}

/// (payload, where the 4-byte grid of counts starts)
fn build_index(ctx: &mut Ctx, k: IK, rng: &mut Rng) -> (Vec<u8>, usize) {
    let mut p = vec![];
    let nref = rng.below(4) as u32;
    let grid;
    match k {
        IK::Bai => {
            p.extend_from_slice(b"BAI\x01");
            p.extend_from_slice(&nref.to_le_bytes());
            grid = 4;
            for _ in 0..nref {
                put_bins(ctx, rng, &mut p, 37450, false);
                put_intervals(rng, &mut p);
            }
        }
        IK::Tbi => {
            p.extend_from_slice(b"TBI\x01");
            p.extend_from_slice(&nref.to_le_bytes());
            put_tabix_header(ctx, rng, &mut p);
            grid = p.len();
            for _ in 0..nref {
                put_bins(ctx, rng, &mut p, 37450, false);
                put_intervals(rng, &mut p);
            }
        }
        IK::Csi => {
            p.extend_from_slice(b"CSI\x01");
            let (ms, d) = *rng.pick(&[(14u32, 5u32), (14, 5), (12, 4), (10, 6), (0, 5), (14, 11)]);
            p.extend_from_slice(&ms.to_le_bytes());
            p.extend_from_slice(&d.to_le_bytes());
            if rng.chance(2, 3) {
                let mut aux = vec![];
                put_tabix_header(ctx, rng, &mut aux);
                match rng.below(10) {
                    0 => {
                        // `l_aux` smaller than the header: the `Take` ends inside it
                        let l = aux.len() - 1 - rng.below(6) as usize;
                        p.extend_from_slice(&(l as u32).to_le_bytes());
                        ctx.bump("m2_index_gen_aux-short");
                    }
                    1 | 2 => {
                        // `l_aux` larger than the header: bytes after the names that belong to the aux block
                        let extra = *rng.pick(&[1usize, 4, 4, 8, 12]);
                        p.extend_from_slice(&((aux.len() + extra) as u32).to_le_bytes());
                        aux.extend(std::iter::repeat_n(0u8, extra));
                        ctx.bump("m2_index_gen_aux-leftover");
                    }
                    _ => p.extend_from_slice(&(aux.len() as u32).to_le_bytes()),
                }
                p.extend_from_slice(&aux);
            } else {
                p.extend_from_slice(&0u32.to_le_bytes());
            }
            grid = p.len();
            p.extend_from_slice(&nref.to_le_bytes());
            let meta = ((1u64 << (3 * (d.min(10) + 1))) / 7 + 1) as u32;
            for _ in 0..nref {
                put_bins(ctx, rng, &mut p, meta, true);
            }
        }
    }
    if rng.chance(1, 2) {
        p.extend_from_slice(&rng.below(1000).to_le_bytes());
    }
    (p, grid)
}

fn damage_index(rng: &mut Rng, p: &mut Vec<u8>, words_from: usize, signed: bool) -> &'static str {
    match rng.below(8) {
        0 if !p.is_empty() => {
            p.truncate(rng.below(p.len() as u64) as usize);
            "cut"
        }
        1 | 2 if p.len() > words_from + 4 => {
            let w = (p.len() - words_from) / 4;
            let at = words_from + 4 * rng.below(w as u64) as usize;
            p[at] ^= 1 + rng.below(3) as u8;
            "low-byte"
        }
        3 if signed && p.len() > words_from + 4 => {
            let w = (p.len() - words_from) / 4;
            let at = words_from + 4 * rng.below(w as u64) as usize;
            p[at + 3] |= 0x80;
            "negative"
        }
        4 if p.len() >= 4 => {
            p[rng.below(4) as usize] ^= 0x01;
            "magic"
        }
        5 => {
            let extra = 1 + rng.below(9) as usize;
            p.extend(rng.bytes(extra));
            "trailing"
        }
        _ => "valid",
    }
}

// ------------------------------------------------------------------ BAI (raw stream: poll-level correspondence)

fn bai_check(ctx: &mut Ctx, data: &[u8], label: &str, rng: &mut Rng, case: &str) {
    let len = data.len();
    let b: Vec<usize> = (0..len).step_by(4).take(40).collect();
    let kind = rng.below(7) as usize;
    let (ss, ss_name) = ssched(rng, kind, len, &b);
    let sync: Result<Result<(String, usize), String>, String> = guarded(|| {
        let mut r = bam::bai::io::Reader::new(SchedReader::new(data.to_vec(), ss.clone(), usize::MAX));
        match r.read_index() {
            Ok(ix) => Ok((d_bai(&ix), r.get_ref().pos)),
            Err(e) => Err(errclass(&e).to_string()),
        }
    });
    let kind0 = rng.below(8) as usize;
    for j in 0..2 {
        let a = asched(rng, kind0 + j * 3, len, &b);
        let src = Counting::new(data, &a);
        let asy: Result<(Result<String, String>, usize, usize, usize, Vec<usize>), String> = guarded(move || {
            block_on(async move {
                let mut r = bam::bai::r#async::io::Reader::new(src);
                let res = match r.read_index().await {
                    Ok(ix) => Ok(d_bai(&ix)),
                    Err(e) => Err(errclass(&e).to_string()),
                };
                let src = r.into_inner();
                (res, src.inner.pos, src.polls, src.pendings, src.asks)
            })
        });
        ctx.eval(if len > 8 { Some(fnv(data) ^ fnv(a.name.as_bytes())) } else { None });
        let how = format!("under schedule {}", a.name);
        match (&asy, &sync) {
            (Err(p), _) => ctx.fail("c16m-panic", format!("async BAI read_index panicked ({p}) {how}"), case.into()),
            (_, Err(p)) => ctx.fail("c16m-panic", format!("sync BAI read_index panicked ({p})"), case.into()),
            (Ok((ar, apos, ..)), Ok(sr)) => match sr {
                Err(c) => {
                    ctx.bump(&format!("m2_bai_sync_rejects_{c}"));
                    ctx.bump(&format!("m2_bai_sync_rejects_async_{}", match ar { Err(c2) if c2 == c => "same-class", Err(_) => "other-class", Ok(_) => "ACCEPTS" }));
                }
                Ok((sd, spos)) => {
                    if ar.as_ref() != Ok(sd) || apos != spos {
                        ctx.fail("c16m-bai-index", format!("BAI read_index differs {how}: async {:?} @{apos}, sync ok @{spos}", ar.as_ref().map(|_| "ok (another index)")), case.into());
                    }
                }
            },
        }
        let (sa, asks) = match &asy {
            Ok((Ok(d), pos, s, p, asks)) => (format!("A ok {d} @{pos} s{s} p{p}"), asks.clone()),
            Ok((Err(c), _, s, p, asks)) => (format!("A {c} s{s} p{p}"), asks.clone()),
            Err(_) => ("A panic".to_string(), vec![]),
        };
        let sn = match &sync {
            Ok(Ok((d, pos))) => format!("S ok {d} @{pos}"),
            Ok(Err(c)) => format!("S {c}"),
            Err(_) => "S panic".into(),
        };
        ctx.corr(format!("c16 m-bai {} {} {} {} {}", hex(data), fmt_asched(&a.sched), a.fallback, fmt_asks(&asks), fmt_ssched(&ss)), format!("{sa} | {sn}"));
        ctx.bump(&format!("m2_bai_aschedule_{}", a.name));
    }
    ctx.bump(&format!("m2_bai_sschedule_{ss_name}"));
    ctx.bump(&format!("m2_bai_input_{label}"));
    if let Ok(Ok(_)) = &sync {
        ctx.bump("m2_bai_sync_accepts");
    }
}

fn bai_case(ctx: &mut Ctx, sub: u64) {
    let mut rng = Rng::new(sub);
    let (mut p, grid) = build_index(ctx, IK::Bai, &mut rng);
    let label = damage_index(&mut rng, &mut p, grid, false);
    bai_check(ctx, &p, label, &mut rng, &format!("m2-bai {sub}"));
}

// ------------------------------------------------------------------ tabix / CSI (behind BGZF: results only)

fn bgzf_wrap(rng: &mut Rng, payload: &[u8]) -> Vec<u8> {
    let mut w = bgzf::io::Writer::new(Vec::new());
    let mut at = 0;
    while at < payload.len() {
        let lim = if rng.chance(1, 2) { 40 } else { 3000 };
        let n = (1 + rng.below(lim) as usize).min(payload.len() - at);
        w.write_all(&payload[at..at + n]).unwrap();
        w.flush().unwrap();
        at += n;
    }
    w.finish().unwrap()
}

fn zix_check(ctx: &mut Ctx, k: IK, payload: &[u8], label: &str, rng: &mut Rng, case: &str) {
    let nm = if k == IK::Tbi { "tbi" } else { "csi" };
    let file = bgzf_wrap(rng, payload);
    let sync: Result<Result<String, String>, String> = guarded(|| match k {
        IK::Tbi => tabix::io::Reader::new(&file[..]).read_index().map(|ix| format!("{}/{}", d_header(ix.header()), d_bai(&ix))).map_err(|e| errclass(&e).to_string()),
        _ => csi::io::Reader::new(&file[..]).read_index().map(|ix| d_csi(&ix)).map_err(|e| errclass(&e).to_string()),
    });
    let kind = rng.below(4) as usize;
    let (sched, fallback, aname) = poll_schedule(rng, kind, file.len());
    let f2 = file.clone();
    let asy: Result<Result<String, String>, String> = guarded(move || {
        block_on(async move {
            let src = AsyncSchedReader::new(f2, sched, fallback);
            match k {
                IK::Tbi => tabix::r#async::io::Reader::new(src).read_index().await.map(|ix| format!("{}/{}", d_header(ix.header()), d_bai(&ix))).map_err(|e| errclass(&e).to_string()),
                _ => csi::r#async::io::Reader::new(src).read_index().await.map(|ix| d_csi(&ix)).map_err(|e| errclass(&e).to_string()),
            }
        })
    });
    ctx.eval(if payload.len() > 8 { Some(fnv(payload) ^ k as u64) } else { None });
    match (&asy, &sync) {
        (Err(p), _) => ctx.fail("c16m-panic", format!("async {nm} read_index panicked ({p})"), case.into()),
        (_, Err(p)) => ctx.fail("c16m-panic", format!("sync {nm} read_index panicked ({p})"), case.into()),
        (Ok(ar), Ok(sr)) => match sr {
            Err(c) => {
                ctx.bump(&format!("m2_{nm}_sync_rejects_{c}"));
                ctx.bump(&format!("m2_{nm}_sync_rejects_async_{}", match ar { Err(_) => "rejects", Ok(_) => "ACCEPTS" }));
            }
            Ok(sd) => {
                ctx.bump(&format!("m2_{nm}_sync_accepts"));
                if ar.as_ref() != Ok(sd) {
                    // two known defects of the SYNC readers (fix diffs delivered): a names block cut short
                    // by the end of the file is accepted; the rest of a CSI aux block is not skipped
                    let class = match (k, ar) {
                        (_, Err(c)) if c == "err:eof" => "c16m-index-block-truncated",
                        (IK::Csi, _) if label_has_leftover(payload) => "c16m-csi-aux-leftover",
                        _ => if k == IK::Tbi { "c16m-tabix-index" } else { "c16m-csi-index" },
                    };
                    ctx.fail(class, format!("{nm} read_index differs under schedule {aname}: async {:?}, sync ok {sd}", ar), case.into());
                }
            }
        },
    }
    let sa = match &asy {
        Ok(Ok(d)) => format!("A ok {d}"),
        Ok(Err(c)) => format!("A {c}"),
        Err(_) => "A panic".into(),
    };
    let sn = match &sync {
        Ok(Ok(d)) => format!("S ok {d}"),
        Ok(Err(c)) => format!("S {c}"),
        Err(_) => "S panic".into(),
    };
    ctx.corr(format!("c16 m-{nm} {}", hex(payload)), format!("{sa} | {sn}"));
    ctx.bump(&format!("m2_{nm}_aschedule_{aname}"));
    ctx.bump(&format!("m2_{nm}_input_{label}"));
}

/// does the CSI payload declare an aux block longer than the tabix header inside it needs?
fn label_has_leftover(p: &[u8]) -> bool {
    if p.len() < 16 {
        return false;
    }
    let l_aux = u32_at(p, 12);
    if l_aux < 28 || p.len() < 16 + 28 {
        return false;
    }
    let l_nm = u32_at(p, 16 + 24);
    l_aux > 28 + l_nm
}

fn zix_case(ctx: &mut Ctx, sub: u64) {
    let mut rng = Rng::new(sub);
    let k = if rng.chance(1, 2) { IK::Tbi } else { IK::Csi };
    let (mut p, grid) = build_index(ctx, k, &mut rng);
    let label = if rng.chance(1, 3) { damage_index(&mut rng, &mut p, 4, true) } else { damage_index(&mut rng, &mut p, grid, true) };
    zix_check(ctx, k, &p, label, &mut rng, &format!("m2-zix {sub}"));
}

// ------------------------------------------------------------------ writers

fn fmt_pieces(ps: &[Vec<u8>]) -> String {
    if ps.is_empty() { "_".into() } else { ps.iter().map(|p| hex(p)).collect::<Vec<_>>().join(",") }
}

fn sink_script(rng: &mut Rng, len: usize) -> (Vec<SinkStep>, Vec<Delivery>, String) {
    match rng.below(4) {
        0 => (vec![], vec![], "one-byte".into()),
        1 => {
            let mut s = vec![];
            let mut budget = len + 8;
            while budget > 0 {
                if rng.chance(1, 6) {
                    s.push(SinkStep::Interrupted);
                } else {
                    let n = 1 + rng.below(30) as usize;
                    s.push(SinkStep::Accept(n));
                    budget = budget.saturating_sub(n);
                }
            }
            let d = s.iter().map(|x| match x { SinkStep::Accept(n) => Delivery::Chunk(*n), SinkStep::Interrupted => Delivery::Interrupted }).collect();
            (s, d, "short+interrupted".into())
        }
        2 => {
            let s: Vec<SinkStep> = (0..len / 7 + 2).map(|_| SinkStep::Accept(7)).collect();
            let d = s.iter().map(|_| Delivery::Chunk(7)).collect();
            (s, d, "seven-byte".into())
        }
        _ => {
            let s = vec![SinkStep::Accept(len + 1); 64];
            let d = vec![Delivery::Chunk(len + 1); 64];
            (s, d, "whole".into())
        }
    }
}

/// one writer case: `drive_async(sink)` runs the real async writer on the given sink; `drive_sync`
/// the real sync writer; `pieces` = what the Lean model says is handed to `write_all` (checked against
/// the buffers the real async writer offers an accept-everything sink)
fn wr_check<FA, FS>(ctx: &mut Ctx, nm: &str, pieces_req: Option<String>, expected_pieces: Option<Vec<Vec<u8>>>, drive_async: FA, drive_sync: FS, rng: &mut Rng, case: &str)
where
    FA: Fn(SharedCountingSink) -> Result<Result<(), String>, String>,
    FS: Fn(&mut ScriptSink) -> Result<(), String>,
{
    // 1. the pieces: the buffers offered to an accept-everything sink
    let all = ASched { sched: vec![], fallback: usize::MAX, name: "all-at-once".into() };
    let (sink, _acc, stats) = counting_sink(&all);
    let r0 = drive_async(sink);
    let offers = stats.0.lock().unwrap().2.clone();
    if r0.is_err() {
        ctx.fail("c16m-panic", format!("async {nm} writer panicked"), case.into());
        return;
    }
    if let Some(req) = pieces_req {
        ctx.corr(req, fmt_pieces(&offers));
    }
    if let Some(exp) = expected_pieces {
        // the buffered writers: ONE `write_all` per item, with the sync serializer's bytes
        let exp: Vec<Vec<u8>> = exp.into_iter().filter(|p| !p.is_empty()).collect();
        ctx.eval(None);
        if exp != offers {
            ctx.fail(&format!("c16m-{nm}-writer-calls"), format!("the async {nm} writer made {} write_all calls with other bytes than the {} items the sync serializer produces", offers.len(), exp.len()), case.into());
        }
    }
    let total: usize = offers.iter().map(|p| p.len()).sum();
    // 2. under a schedule, poll by poll
    let kind = rng.below(8) as usize;
    let a = asched(rng, kind, total, &[]);
    let (sink, acc, stats) = counting_sink(&a);
    let ra = drive_async(sink);
    let abytes = acc.lock().unwrap().clone();
    let (polls, pendings) = {
        let g = stats.0.lock().unwrap();
        (g.0, g.1)
    };
    let (script, sdel, sname) = sink_script(rng, total);
    let mut ssink = ScriptSink::new(script, 1, None);
    let rs = guarded(|| drive_sync(&mut ssink));
    ctx.eval(if total > 1 { Some(fnv(&abytes) ^ fnv(a.name.as_bytes())) } else { None });
    match (&ra, &rs) {
        (Err(_), _) | (_, Err(_)) => ctx.fail("c16m-panic", format!("{nm} writer panicked"), case.into()),
        (Ok(xa), Ok(xs)) => {
            if xs.is_ok() && (xa.is_err() || abytes != ssink.accepted) {
                ctx.fail(&format!("c16m-{nm}-writer"), format!("async {nm} writer output ({} bytes, result {:?}) differs from the sync writer's ({} bytes) under sink schedule {}", abytes.len(), xa, ssink.accepted.len(), a.name), case.into());
            }
        }
    }
    let ea = match &ra { Ok(Ok(())) => "ok", Ok(Err(_)) => "err", Err(_) => "panic" };
    let es = match &rs { Ok(Ok(())) => "ok", Ok(Err(_)) => "err", Err(_) => "panic" };
    ctx.corr(
        format!("c16 m-wr {} {} {} {}", fmt_asched(&a.sched), a.fallback, fmt_ssched(&sdel), fmt_pieces(&offers)),
        format!("A {ea} sink={} s{polls} p{pendings} | S {es} sink={}", hex(&abytes), hex(&ssink.accepted)),
    );
    ctx.bump(&format!("m2_wr_{nm}_aschedule_{}", a.name));
    ctx.bump(&format!("m2_wr_{nm}_sschedule_{sname}"));
    ctx.bump(&format!("m2_wr_{nm}_pieces_{}", match offers.len() { 0 => "0", 1..=4 => "1-4", 5..=20 => "5-20", _ => ">20" }));
}

fn fqw_case(ctx: &mut Ctx, sub: u64) {
    let mut rng = Rng::new(sub);
    let recs: Vec<(Vec<u8>, Vec<u8>, Vec<u8>, Vec<u8>)> = (0..rng.below(4))
        .map(|i| {
            let l = *rng.pick(&[0u64, 1, 5, 40]);
            (if rng.chance(1, 8) { vec![] } else { format!("r{i}").into_bytes() }, rng.pick(&[&b""[..], b"d", b"LN:4 x"]).to_vec(), word(&mut rng, b"ACGT", l, l).into_bytes(), word(&mut rng, b"!5I", l, l).into_bytes())
        })
        .collect();
    let req = format!("c16 m-fqw 20 {}", if recs.is_empty() { "_".to_string() } else { recs.iter().map(|r| format!("{}.{}.{}.{}", hex(&r.0), hex(&r.1), hex(&r.2), hex(&r.3))).collect::<Vec<_>>().join(";") });
    let mk = |r: &(Vec<u8>, Vec<u8>, Vec<u8>, Vec<u8>)| fastq::Record::new(fastq::record::Definition::new(r.0.clone(), r.1.clone()), r.2.clone(), r.3.clone());
    let rs: Vec<fastq::Record> = recs.iter().map(mk).collect();
    let rs2 = rs.clone();
    wr_check(
        ctx,
        "fastq",
        Some(req),
        None,
        move |sink| {
            let rs = rs.clone();
            guarded(move || {
                block_on(async move {
                    let mut w = fastq::r#async::io::Writer::new(sink);
                    for r in &rs {
                        w.write_record(r).await.map_err(|e| e.to_string())?;
                    }
                    Ok(())
                })
            })
        },
        move |sink| {
            let mut w = fastq::io::Writer::new(sink);
            for r in &rs2 {
                w.write_record(r).map_err(|e| e.to_string())?;
            }
            Ok(())
        },
        &mut rng,
        &format!("m2-fqw {sub}"),
    );
}

fn faw_case(ctx: &mut Ctx, sub: u64) {
    let mut rng = Rng::new(sub);
    let width = *rng.pick(&[1usize, 3, 10, 60, 1000]);
    let recs: Vec<(Vec<u8>, Option<Vec<u8>>, Vec<u8>)> = (0..rng.below(4))
        .map(|i| {
            let l = *rng.pick(&[0u64, 1, 9, 10, 11, 61, 130]);
            (format!("sq{i}").into_bytes(), if rng.chance(1, 2) { None } else { Some(rng.pick(&[&b"d"[..], b"two words", b""]).to_vec()) }, word(&mut rng, b"ACGTN", l, l).into_bytes())
        })
        .collect();
    let req = format!(
        "c16 m-faw {width} {}",
        if recs.is_empty() { "_".to_string() } else { recs.iter().map(|r| format!("{}.{}.{}", hex(&r.0), r.1.as_ref().map(|d| hex(d)).unwrap_or("~".into()), hex(&r.2))).collect::<Vec<_>>().join(";") }
    );
    let rs: Vec<fasta::Record> = recs.iter().map(|r| fasta::Record::new(fasta::record::Definition::new(r.0.clone(), r.1.clone().map(|d| d.into())), fasta::record::Sequence::from(r.2.clone()))).collect();
    let rs2 = rs.clone();
    let w1 = std::num::NonZero::new(width).unwrap();
    wr_check(
        ctx,
        "fasta",
        Some(req),
        None,
        move |sink| {
            let rs = rs.clone();
            guarded(move || {
                block_on(async move {
                    let mut w = fasta::r#async::io::writer::Builder::default().set_line_base_count(w1).build_from_writer(sink);
                    for r in &rs {
                        w.write_record(r).await.map_err(|e| e.to_string())?;
                    }
                    Ok(())
                })
            })
        },
        move |sink| {
            let mut w = fasta::io::writer::Builder::default().set_line_base_count(w1).build_from_writer(sink);
            for r in &rs2 {
                w.write_record(r).map_err(|e| e.to_string())?;
            }
            Ok(())
        },
        &mut rng,
        &format!("m2-faw {sub}"),
    );
}

/// SAM / VCF: the async writer serializes every item with the sync serializer into a `Vec` and hands it
/// over with one `write_all`
fn bufw_case(ctx: &mut Ctx, sub: u64) {
    let mut rng = Rng::new(sub);
    if rng.chance(1, 2) {
        let text = gen_sam_lines(&mut rng);
        let h = sam_header();
        let recs: Vec<sam::alignment::RecordBuf> = {
            let mut rd = sam::io::Reader::new(&text[..]);
            rd.record_bufs(&h).filter_map(|r| r.ok()).collect()
        };
        // what the sync serializer produces per item
        let mut exp = vec![];
        {
            let mut w = sam::io::Writer::new(Vec::new());
            if w.write_header(&h).is_err() {
                return;
            }
            exp.push(w.get_ref().clone());
        }
        for r in &recs {
            let mut w = sam::io::Writer::new(Vec::new());
            use sam::alignment::io::Write as _;
            if w.write_alignment_record(&h, r).is_err() {
                ctx.bump("m2_wr_sam_serializer_rejects");
                return;
            }
            exp.push(w.get_ref().clone());
        }
        let (h1, r1, h2, r2) = (h.clone(), recs.clone(), h.clone(), recs.clone());
        wr_check(
            ctx,
            "sam",
            None,
            Some(exp),
            move |sink| {
                let (h, rs) = (h1.clone(), r1.clone());
                guarded(move || {
                    block_on(async move {
                        let mut w = sam::r#async::io::Writer::new(sink);
                        w.write_header(&h).await.map_err(|e| e.to_string())?;
                        for r in &rs {
                            w.write_alignment_record(&h, r).await.map_err(|e| e.to_string())?;
                        }
                        Ok(())
                    })
                })
            },
            move |sink| {
                use sam::alignment::io::Write as _;
                let mut w = sam::io::Writer::new(sink);
                w.write_header(&h2).map_err(|e| e.to_string())?;
                for r in &r2 {
                    w.write_alignment_record(&h2, r).map_err(|e| e.to_string())?;
                }
                Ok(())
            },
            &mut rng,
            &format!("m2-bufw {sub}"),
        );
    } else {
        let text = gen_vcf_lines(&mut rng);
        let h = vcf::Header::default();
        let recs: Vec<vcf::Record> = {
            let mut rd = vcf::io::Reader::new(&text[..]);
            let mut v = vec![];
            let mut rec = vcf::Record::default();
            while let Ok(n) = rd.read_record(&mut rec) {
                if n == 0 {
                    break;
                }
                v.push(rec.clone());
            }
            v
        };
        let mut exp = vec![];
        {
            let mut w = vcf::io::Writer::new(Vec::new());
            if w.write_header(&h).is_err() {
                return;
            }
            exp.push(w.get_ref().clone());
        }
        for r in &recs {
            let mut w = vcf::io::Writer::new(Vec::new());
            if w.write_record(&h, r).is_err() {
                ctx.bump("m2_wr_vcf_serializer_rejects");
                return;
            }
            exp.push(w.get_ref().clone());
        }
        let (h1, r1, h2, r2) = (h.clone(), recs.clone(), h.clone(), recs.clone());
        wr_check(
            ctx,
            "vcf",
            None,
            Some(exp),
            move |sink| {
                let (h, rs) = (h1.clone(), r1.clone());
                guarded(move || {
                    block_on(async move {
                        let mut w = vcf::r#async::io::Writer::new(sink);
                        w.write_header(&h).await.map_err(|e| e.to_string())?;
                        for r in &rs {
                            w.write_record(&h, r).await.map_err(|e| e.to_string())?;
                        }
                        Ok(())
                    })
                })
            },
            move |sink| {
                let mut w = vcf::io::Writer::new(sink);
                w.write_header(&h2).map_err(|e| e.to_string())?;
                for r in &r2 {
                    w.write_record(&h2, r).map_err(|e| e.to_string())?;
                }
                Ok(())
            },
            &mut rng,
            &format!("m2-bufw {sub}"),
        );
    }
}

// ------------------------------------------------------------------ corpus

fn corpus(ctx: &mut Ctx) {
    let mut r = Rng::new(16_200_001);
    // tokio read_u8 / read_line: the bypass branch (capacity 1, empty buffer), a buffered byte, end of stream
    let all = ASched { sched: vec![], fallback: usize::MAX, name: "all-at-once".into() };
    let one = ASched { sched: vec![], fallback: 1, name: "one-byte".into() };
    let pend = ASched { sched: vec![Poll1::Pending, Poll1::Ready(2), Poll1::Pending, Poll1::Pending, Poll1::Ready(1)], fallback: 3, name: "partial+pending".into() };
    for (data, ops) in [(&b"@a\nb"[..], "blbbb"), (b"", "bl"), (b"x\r\ny\r", "lblb"), (b"\n\n", "blb"), (b"abc", "bbbb")] {
        for cap in [1usize, 2, 8192] {
            for a in [&all, &one, &pend] {
                tok_check(ctx, data, a, cap, ops);
            }
        }
    }
    // FASTQ: every branch of read_name (separator space / tab / none / LF right after the name, CRLF, CR
    // before the separator, no final newline), the `+` line with a repeated name, missing `+`, bad prefix,
    // truncated after every line
    for (data, name) in [
        (&b"@r0\nACGT\n+\nIIII\n"[..], "fq-basic"),
        (b"@r0 desc\tx\nAC\n+r0 desc\nII\n@r1\tLN:2\nGG\n+\n!!\n", "fq-descriptions"),
        (b"@r0 d\r\nAC\r\n+\r\nII\r\n", "fq-crlf"),
        (b"@r0\r\nAC\r\n+\r\nII\r\n", "fq-crlf-no-description"),
        (b"@r0\r d\nAC\n+\nII\n", "fq-cr-before-separator"),
        (b"@r0 \r\nAC\n+\nII\n", "fq-empty-description-crlf"),
        (b"@r0  two  spaces \nAC\n+\nII", "fq-no-final-newline"),
        (b"@r0", "fq-only-name"),
        (b"@r0 d", "fq-name-and-description-at-eof"),
        (b"@r0\r", "fq-name-cr-at-eof"),
        (b"@r0\n", "fq-cut-after-definition"),
        (b"@r0\nAC\n", "fq-cut-after-sequence"),
        (b"@r0\nAC\n+\n", "fq-cut-after-plus"),
        (b"@r0\nAC\n+", "fq-plus-at-eof"),
        (b"@r0\nAC\nII\n", "fq-missing-plus"),
        (b"r0\nAC\n+\nII\n", "fq-bad-prefix"),
        (b"@\n\n+\n\n", "fq-all-empty"),
        (b"@ \n\n+\n\n", "fq-empty-name-with-separator"),
        (b"", "fq-empty"),
        (b"@a b\tc d\n\n+\n\n", "fq-first-separator-wins"),
    ] {
        fq_check(ctx, data, name, &mut r, &format!("m2-corpus {name}"));
    }
    // FASTA: every branch of the async read_sequence (LF in the window or not, CR before LF in one
    // window / split across windows, empty line after a chunk that ended with CR, `>` at the start of a
    // window, end of stream), the trailing CR (known defect), and texts that are not well formed
    for (data, name) in [
        (&b">sq0\nACGT\n>sq1 desc\nNN\nNN\n"[..], "fa-basic"),
        (b">sq0\r\nACGT\r\nAC\r\n>sq1\r\n\r\nGG\r\n", "fa-crlf"),
        (b">sq0\nACGT", "fa-no-final-newline"),
        (b">sq0\nAC\n\n\nGT\n\n", "fa-blank-lines"),
        (b">sq0\r\nAC\r\n\nGT\n\r\n\nT", "fa-mixed-line-endings"),
        (b">sq0\r\nACGT\r", "fa-trailing-cr"),
        (b">sq0\nACGT\r", "fa-trailing-cr-lf-text"),
        (b">sq0\nAC\r\n\r", "fa-trailing-cr-after-blank"),
        (b">sq0\n", "fa-empty-sequence"),
        (b">sq0", "fa-definition-at-eof"),
        (b">\nAC\n", "fa-missing-name"),
        (b"sq0\nAC\n", "fa-bad-prefix"),
        (b"", "fa-empty"),
        (b">sq0\nAC>GT\n", "fa-gt-inside-line-NOT-WF"),
        (b">sq0\nAC\rGT\n", "fa-lone-cr-NOT-WF"),
        (b">sq0\n\rAC\n", "fa-cr-at-line-start-NOT-WF"),
        (b">sq0\nAC\r\r\nGT\n", "fa-two-crs-NOT-WF"),
    ] {
        fa_check(ctx, data, name, &mut r, &format!("m2-corpus {name}"));
    }
    // parsed lines
    ln_check(ctx, LK::Sam, b"r0\t0\tsq0\t1\t60\t4M\t*\t0\t0\tACGT\tIIII\tNM:i:1\r\nr1\t4\t*\t0\t255\t*\t*\t0\t0\t*\t*\n", "corpus", &mut r, "m2-corpus ln-sam");
    ln_check(ctx, LK::Sam, b"r0\t0\tsq0\n\nr1", "corpus-bad", &mut r, "m2-corpus ln-sam-bad");
    ln_check(ctx, LK::Vcf, b"sq0\t1\t.\tA\tC\t.\t.\t.\nsq0\t2\tr\xc3\xa9\tA\t.\t30\tPASS\tDP=5\tGT\t0/1\r\n", "corpus", &mut r, "m2-corpus ln-vcf");
    ln_check(ctx, LK::Vcf, b"sq0\t1\t.\tA\tC\t.\t.\t\xff\nsq0\t2\t.\tA\tC\t.\t.\t.\n", "corpus-not-utf8", &mut r, "m2-corpus ln-vcf-utf8");
    ln_check(ctx, LK::Fai, b"sq0\t10\t5\t4\t5\nsq\xff\t3\t20\t3\t4\r\n", "corpus", &mut r, "m2-corpus ln-fai");
    ln_check(ctx, LK::Fai, b"sq0\t10\t5\t4\t5\nbad line\n", "corpus-bad", &mut r, "m2-corpus ln-fai-bad");
    ln_check(ctx, LK::Fai, b"", "corpus-empty", &mut r, "m2-corpus ln-fai-empty");
    // lazy records
    lz_check(ctx, false, b"r0\t0\tsq0\t1\t60\t4M\t*\t0\t0\tACGT\tIIII\tNM:i:1\r\nr1\t4\t*\t0\t255\t*\t*\t0\t0\t*\t*\nr2\t4\t*\t0\t255\t*\t*\t0\t0\t*\t*\tXS:A:+", "corpus", &mut r, "m2-corpus lz-sam");
    lz_check(ctx, false, b"r0\t0\tsq0\t1\t60\t4M\t*\t0\t0\tACGT\t\r\n", "corpus-empty-last-field-crlf", &mut r, "m2-corpus lz-sam-cr");
    lz_check(ctx, false, b"r0\t0\tsq0\t1\n", "corpus-short-line", &mut r, "m2-corpus lz-sam-short");
    lz_check(ctx, false, b"", "corpus-empty", &mut r, "m2-corpus lz-sam-empty");
    lz_check(ctx, true, b"sq0\t1\t.\tA\tC\t.\t.\t.\nsq0\t2\tr\xc3\xa9\tA\t.\t30\tPASS\tDP=5\tGT\t0/1\r\nsq1\t3\t.\tA\tC\t.\t.\tDP=1", "corpus", &mut r, "m2-corpus lz-vcf");
    lz_check(ctx, true, b"sq0\t1\t.\tA\tC\t.\t.\t.\tGT\t\xff\n", "corpus-samples-not-utf8", &mut r, "m2-corpus lz-vcf-utf8");
    lz_check(ctx, true, b"sq0\t1\t\xc3\t\xa9A\tC\t.\t.\t.\n", "corpus-utf8-split-by-tab", &mut r, "m2-corpus lz-vcf-utf8-tab");
    lz_check(ctx, true, b"sq0\t1\t.\tA\n", "corpus-short-line", &mut r, "m2-corpus lz-vcf-short");
    // BCF records: clean end, partial l_shared, l_shared 0, l_indiv missing, a site block that `index` rejects
    let site: Vec<u8> = {
        let mut s = vec![];
        s.extend_from_slice(&0i32.to_le_bytes()); // chrom
        s.extend_from_slice(&9i32.to_le_bytes()); // pos
        s.extend_from_slice(&1i32.to_le_bytes()); // rlen
        s.extend_from_slice(&0x7f80_0001u32.to_le_bytes()); // qual missing
        s.extend_from_slice(&[0, 0, 1, 0]); // n_info 0, n_allele 1
        s.extend_from_slice(&[0, 0, 0, 0]); // n_sample 0, n_fmt 0
        s.extend_from_slice(&[0x07]); // id: empty string
        s.extend_from_slice(&[0x17, b'A']); // ref
        s.extend_from_slice(&[0x00]); // filter: empty
        s
    };
    let rec = |site: &[u8], indiv: &[u8]| {
        let mut v = vec![];
        v.extend_from_slice(&(site.len() as u32).to_le_bytes());
        v.extend_from_slice(&(indiv.len() as u32).to_le_bytes());
        v.extend_from_slice(site);
        v.extend_from_slice(indiv);
        v
    };
    let two = [rec(&site, b""), rec(&site, &[1, 2, 3])].concat();
    bcf_check(ctx, &two, "corpus-two", &mut r, "m2-corpus bcf-two");
    bcf_check(ctx, &two[..two.len() - 1], "corpus-cut-samples", &mut r, "m2-corpus bcf-cut-samples");
    bcf_check(ctx, &two[..2], "corpus-partial-l_shared", &mut r, "m2-corpus bcf-partial");
    bcf_check(ctx, &two[..6], "corpus-partial-l_indiv", &mut r, "m2-corpus bcf-partial-indiv");
    bcf_check(ctx, &[&two[..], &[0, 0, 0, 0, 9, 9]].concat(), "corpus-l_shared-0", &mut r, "m2-corpus bcf-zero");
    bcf_check(ctx, &rec(&site[..10], b""), "corpus-short-site", &mut r, "m2-corpus bcf-short-site");
    bcf_check(ctx, b"", "corpus-empty", &mut r, "m2-corpus bcf-empty");
    // BAI
    let mut bai = b"BAI\x01".to_vec();
    bai.extend_from_slice(&1u32.to_le_bytes());
    bai.extend_from_slice(&2u32.to_le_bytes()); // n_bin
    bai.extend_from_slice(&4681u32.to_le_bytes());
    bai.extend_from_slice(&1u32.to_le_bytes());
    bai.extend_from_slice(&100u64.to_le_bytes());
    bai.extend_from_slice(&200u64.to_le_bytes());
    bai.extend_from_slice(&37450u32.to_le_bytes());
    bai.extend_from_slice(&2u32.to_le_bytes());
    for v in [1u64, 2, 3, 4] {
        bai.extend_from_slice(&v.to_le_bytes());
    }
    bai.extend_from_slice(&2u32.to_le_bytes()); // n_intv
    bai.extend_from_slice(&5u64.to_le_bytes());
    bai.extend_from_slice(&6u64.to_le_bytes());
    bai_check(ctx, &bai, "corpus-no-n_no_coor", &mut r, "m2-corpus bai-basic");
    bai_check(ctx, &[&bai[..], &7u64.to_le_bytes()[..]].concat(), "corpus-n_no_coor", &mut r, "m2-corpus bai-unplaced");
    bai_check(ctx, &[&bai[..], &[7, 0, 0][..]].concat(), "corpus-partial-n_no_coor", &mut r, "m2-corpus bai-partial-unplaced");
    bai_check(ctx, &bai[..bai.len() - 3], "corpus-cut", &mut r, "m2-corpus bai-cut");
    {
        let mut neg = bai.clone();
        neg[19] = 0x80; // n_chunk of the first bin: negative as i32 (sync), huge as u32 (async)
        bai_check(ctx, &neg, "corpus-n_chunk-high-bit", &mut r, "m2-corpus bai-nchunk-high");
        let mut m3 = bai.clone();
        m3[44] = 3; // metadata n_chunk 3
        bai_check(ctx, &m3, "corpus-metadata-n_chunk-3", &mut r, "m2-corpus bai-meta3");
    }
    bai_check(ctx, b"BAJ\x01\0\0\0\0", "corpus-bad-magic", &mut r, "m2-corpus bai-magic");
    // tabix / CSI: the two sync-reader defects and their neighbours
    let hdr = |names: &[u8], l_nm: u32| {
        let mut h = vec![];
        for v in [2u32, 1, 2, 0, 35, 0] {
            h.extend_from_slice(&v.to_le_bytes());
        }
        h.extend_from_slice(&l_nm.to_le_bytes());
        h.extend_from_slice(names);
        h
    };
    let tbi = |nref: u32, h: &[u8], rest: &[u8]| {
        let mut p = b"TBI\x01".to_vec();
        p.extend_from_slice(&nref.to_le_bytes());
        p.extend_from_slice(h);
        p.extend_from_slice(rest);
        p
    };
    zix_check(ctx, IK::Tbi, &tbi(0, &hdr(b"a\0", 2), b""), "corpus-no-refs", &mut r, "m2-corpus tbi-basic");
    zix_check(ctx, IK::Tbi, &tbi(0, &hdr(b"a\0", 3), b""), "corpus-names-cut-short", &mut r, "m2-corpus tbi-names-truncated");
    zix_check(ctx, IK::Tbi, &tbi(0, &hdr(b"a\0", 2), &9u64.to_le_bytes()), "corpus-unplaced", &mut r, "m2-corpus tbi-unplaced");
    zix_check(ctx, IK::Tbi, &tbi(1, &hdr(b"a\0", 2), &[0, 0, 0, 0, 0, 0, 0, 0]), "corpus-one-empty-ref", &mut r, "m2-corpus tbi-one-ref");
    zix_check(ctx, IK::Tbi, &tbi(0, &hdr(b"a", 1), b""), "corpus-name-without-nul", &mut r, "m2-corpus tbi-no-nul");
    let csi_f = |ms: u32, d: u32, aux: &[u8], l_aux: u32, rest: &[u8]| {
        let mut p = b"CSI\x01".to_vec();
        p.extend_from_slice(&ms.to_le_bytes());
        p.extend_from_slice(&d.to_le_bytes());
        p.extend_from_slice(&l_aux.to_le_bytes());
        p.extend_from_slice(aux);
        p.extend_from_slice(rest);
        p
    };
    let h2 = hdr(b"a\0", 2);
    let tail0: Vec<u8> = [&0u32.to_le_bytes()[..], &5u64.to_le_bytes()[..]].concat(); // n_ref 0, n_no_coor 5
    zix_check(ctx, IK::Csi, &csi_f(14, 5, &h2, h2.len() as u32, &tail0), "corpus-aux-exact", &mut r, "m2-corpus csi-basic");
    zix_check(ctx, IK::Csi, &csi_f(14, 5, &[&h2[..], &[0, 0, 0, 0][..]].concat(), h2.len() as u32 + 4, &tail0), "corpus-aux-leftover", &mut r, "m2-corpus csi-aux-leftover");
    zix_check(ctx, IK::Csi, &csi_f(14, 5, &h2, h2.len() as u32 - 1, &tail0), "corpus-aux-short", &mut r, "m2-corpus csi-aux-short");
    zix_check(ctx, IK::Csi, &csi_f(14, 5, b"", 0, &tail0), "corpus-no-aux", &mut r, "m2-corpus csi-no-aux");
    zix_check(ctx, IK::Csi, &csi_f(0, 5, &h2, h2.len() as u32, &tail0), "corpus-bad-geometry", &mut r, "m2-corpus csi-geometry");
    zix_check(ctx, IK::Csi, &csi_f(14, 5, &hdr(b"a\0", 3), 31, &[]), "corpus-aux-cut-by-eof", &mut r, "m2-corpus csi-aux-eof");
    // writers
    for s in [16_200_101u64, 16_200_102, 16_200_103] {
        fqw_case(ctx, s);
        faw_case(ctx, s);
        bufw_case(ctx, s);
    }
}

// ------------------------------------------------------------------ entry

pub fn run(ctx: &mut Ctx) {
    corpus(ctx);
    let seed = ctx.seed;
    let suites: [(fn(&mut Ctx, u64), u64, u64, u64); 11] = [
        (tok_case, 40, 3000, 16_200_003),
        (fq_case, 50, 4000, 16_200_019),
        (fa_case, 50, 4000, 16_200_043),
        (ln_case, 45, 3000, 16_200_057),
        (lz_case, 40, 3000, 16_200_063),
        (bcf_case, 25, 1500, 16_200_069),
        (bai_case, 30, 2000, 16_200_081),
        (zix_case, 40, 2500, 16_200_093),
        (fqw_case, 12, 800, 16_200_097),
        (faw_case, 12, 800, 16_200_107),
        (bufw_case, 12, 800, 16_200_111),
    ];
    for (f, q, t, mul) in suites {
        let n = ctx.n(q, t);
        for it in 0..n {
            f(ctx, seed.wrapping_mul(mul).wrapping_add(it));
        }
    }
}

/// true if the case words were ours
pub fn replay(ctx: &mut Ctx, case: &[String]) -> bool {
    let Some(w) = case.first() else { return false };
    if !w.starts_with("m2-") {
        return false;
    }
    let sub: u64 = case.get(1).and_then(|s| s.parse().ok()).unwrap_or(0);
    match w.as_str() {
        "m2-tok" => tok_case(ctx, sub),
        "m2-fq" => fq_case(ctx, sub),
        "m2-fa" => fa_case(ctx, sub),
        "m2-ln" => ln_case(ctx, sub),
        "m2-lz" => lz_case(ctx, sub),
        "m2-bcf" => bcf_case(ctx, sub),
        "m2-bai" => bai_case(ctx, sub),
        "m2-zix" => zix_case(ctx, sub),
        "m2-fqw" => fqw_case(ctx, sub),
        "m2-faw" => faw_case(ctx, sub),
        "m2-bufw" => bufw_case(ctx, sub),
        "m2-corpus" => {
            corpus(ctx);
            let want = case.join(" ");
            ctx.failures.retain(|f| f.2 == want);
        }
        _ => {}
    }
    true
}
