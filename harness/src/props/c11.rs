//! C11 — FASTA/FASTQ indexing and random access return exactly the indexed bases.
//!
//! Correspondence (suite `c11`): the real `fasta::io::Indexer` + `Reader::query`, `Reader::records`,
//! the FASTA/FASTQ writers, the FASTQ reader and indexer against the Lean model
//! (`lean/Noodles/Fasta/Model.lean`) on generated and hand-written files.
//!
//! Oracle (real code only, reference = the naive whole-file parse below, which shares nothing with
//! noodles or the model):
//!   index-naive       accepted file: index names / lengths = naive parse
//!   query-naive       region with start <= length: bases = naive[start-1 .. min(end,length)]
//!                     (every single base of small records is addressed as well, which is what
//!                     "ragged files are rejected rather than mis-indexed" means observably)
//!   start-beyond-end  region with start > length: an error or no bases — never foreign bytes (F8)
//!   bgzf-gzi          same answers through bgzf + gzi (`bgzf::io::IndexedReader`)
//!   small-buffer      same answers through a 1-byte `BufReader`
//!   fasta-roundtrip   FASTA writer -> reader equality at line widths 1..200 (+ index/query of it)
//!   fastq-roundtrip   FASTQ writer -> reader equality ('@' / '+' inside qualities)
//!   fastq-index       FASTQ index offsets address the sequence / quality lines of written files
//!   panic             any panic in the above
use super::c01::{stored_member, EOF};
use crate::common::*;
use bstr::BString;
use noodles_bgzf as bgzf;
use noodles_core::{Position, Region, region::Interval};
use noodles_fasta as fasta;
use noodles_fastq as fastq;
use std::io::{self, BufReader, Cursor, Write};
use std::num::NonZero;
use std::sync::{Arc, Mutex};

// ------------------------------------------------------------------------------------------------
// the naive reference parse (independent of noodles and of the Lean model)

#[derive(Clone, Debug, PartialEq)]
pub struct NaiveRec {
    pub name: Vec<u8>,
    pub bases: Vec<u8>,
}

/// Split on LF, strip one CR, lines starting with '>' open a record, everything else is bases.
pub fn naive_parse(file: &[u8]) -> Vec<NaiveRec> {
    let mut out: Vec<NaiveRec> = vec![];
    for line in file.split(|&b| b == b'\n') {
        let line = line.strip_suffix(b"\r").unwrap_or(line);
        if line.first() == Some(&b'>') {
            let name: Vec<u8> = line[1..].iter().copied().take_while(|b| !b.is_ascii_whitespace()).collect();
            out.push(NaiveRec { name, bases: vec![] });
        } else if let Some(r) = out.last_mut() {
            r.bases.extend_from_slice(line);
        }
    }
    out
}

/// the alphabet hypothesis of the theorems: no CR and no '>' among the bases
fn clean(bases: &[u8]) -> bool {
    !bases.iter().any(|&b| b == b'\r' || b == b'>')
}

// ------------------------------------------------------------------------------------------------
// real code wrappers

pub(super) type Reg = (Vec<u8>, Option<u64>, Option<u64>);

fn region(r: &Reg) -> Region {
    let p = |x: u64| Position::try_from(x as usize).unwrap();
    let iv: Interval = match (r.1, r.2) {
        (Some(s), Some(e)) => (p(s)..=p(e)).into(),
        (Some(s), None) => (p(s)..).into(),
        (None, Some(e)) => (..=p(e)).into(),
        (None, None) => (..).into(),
    };
    Region::new(r.0.clone(), iv)
}

fn index_with<R: io::BufRead>(r: R) -> io::Result<Vec<fasta::fai::Record>> {
    let mut ix = fasta::io::Indexer::new(r);
    let mut out = vec![];
    while let Some(rec) = ix.index_record().map_err(io::Error::from)? {
        out.push(rec);
    }
    Ok(out)
}

fn fmt_index(ix: &[fasta::fai::Record]) -> String {
    if ix.is_empty() {
        return "-".into();
    }
    ix.iter()
        .map(|r| format!("{}:{}:{}:{}:{}", hex(r.name().as_ref()), r.length(), r.position(), r.line_base_count(), r.line_width()))
        .collect::<Vec<_>>()
        .join(",")
}

/// Ok(bases) | Err(class)
fn query_with<R: io::BufRead + io::Seek>(rd: &mut fasta::io::Reader<R>, ix: &fasta::fai::Index, r: &Reg) -> Result<Vec<u8>, String> {
    match guarded(|| rd.query(ix, &region(r))) {
        Ok(Ok(rec)) => Ok(rec.sequence().as_ref().to_vec()),
        Ok(Err(e)) => Err(errclass(&e).to_string()),
        Err(p) => Err(format!("panic: {p}")),
    }
}

fn fmt_res(r: &Result<Vec<u8>, String>) -> String {
    match r {
        Ok(b) => hex(b),
        Err(c) if c.starts_with("panic") => "panic".into(),
        Err(c) => c.clone(),
    }
}

fn fmt_reg(r: &Reg) -> String {
    let o = |x: Option<u64>| x.map(|v| v.to_string()).unwrap_or("-".into());
    format!("{}:{}:{}", hex(&r.0), o(r.1), o(r.2))
}

fn show_reg(r: &Reg) -> String {
    let o = |x: Option<u64>| x.map(|v| v.to_string()).unwrap_or("".into());
    format!("{}:{}-{}", String::from_utf8_lossy(&r.0), o(r.1), o(r.2))
}

fn show(b: &[u8]) -> String {
    let s: String = b.iter().take(60).map(|&c| if (32..127).contains(&c) { (c as char).to_string() } else { format!("\\x{c:02x}") }).collect();
    if b.len() > 60 { format!("\"{s}…\"({} bytes)", b.len()) } else { format!("\"{s}\"") }
}

// ------------------------------------------------------------------------------------------------
// generators

const DNA: &[u8] = b"ACGTN";
const IUPAC: &[u8] = b"ACGTNacgtnRYKMSWBDHVryk*-";

#[derive(Default, Clone, Debug)]
pub(super) struct Meta {
    crlf: bool,
    perturbed: Option<&'static str>,
    weird: bool,
    no_final_newline: bool,
    blank_tail: bool,
    max_lines: usize,
}

fn gen_name(rng: &mut Rng, k: usize) -> Vec<u8> {
    match rng.below(4) {
        0 => format!("sq{k}").into_bytes(),
        1 => format!("chr{}", k + 1).into_bytes(),
        _ => {
            let n = 1 + rng.below(6) as usize;
            (0..n).map(|_| *rng.pick(b"ABCXYZabcxyz0123456789_.|:-#")).collect()
        }
    }
}

fn gen_lb(rng: &mut Rng) -> usize {
    match rng.below(12) {
        0 => 1,
        1 => 2,
        2 => 3,
        3 => 4,
        4 => 60,
        5 => 80,
        6 => 200,
        7 | 8 => rng.range(1, 200) as usize,
        _ => rng.range(1, 24) as usize,
    }
}

/// A FASTA file: mostly what a writer would produce (one geometry per record), with the property's
/// variations (CRLF, short last line, blank trailing line, no final newline, descriptions) and, in
/// a minority of files, one defect (ragged line, blank line inside, wrong terminator, empty
/// sequence, missing '>' …) or bytes outside the base alphabet.
pub(super) fn gen_file(rng: &mut Rng) -> (Vec<u8>, Meta) {
    let mut m = Meta::default();
    let nrec = *rng.pick(&[1usize, 1, 2, 2, 2, 3, 3, 4, 5, 8]);
    m.crlf = rng.chance(1, 3);
    let perturb_rec = if rng.chance(1, 6) { Some(rng.below(nrec as u64) as usize) } else { None };
    let weird_rec = if perturb_rec.is_none() && rng.chance(1, 20) { Some(rng.below(nrec as u64) as usize) } else { None };
    let mut f = vec![];
    let mut names: Vec<Vec<u8>> = vec![];
    if rng.chance(1, 60) {
        m.perturbed = Some("leading-junk");
        f.extend_from_slice(if rng.chance(1, 2) { b"ACGT\n" } else { b"\n" });
    }
    for k in 0..nrec {
        let (tm, other): (&[u8], &[u8]) = if m.crlf != rng.chance(1, 20) { (b"\r\n", b"\n") } else { (b"\n", b"\r\n") };
        let name = if !names.is_empty() && rng.chance(1, 25) { rng.pick(&names).clone() } else { gen_name(rng, k) };
        names.push(name.clone());
        f.push(b'>');
        f.extend_from_slice(&name);
        f.extend_from_slice(*rng.pick(&[&b""[..], b"", b" desc", b" d e  ", b"\tLN:5", b"  x", b" >y"]));
        f.extend_from_slice(tm);
        let lb = gen_lb(rng);
        let full = rng.below(5) as usize;
        let mut rem = rng.below(lb as u64 + 1) as usize;
        if full == 0 && rem == 0 {
            rem = 1 + rng.below(lb as u64) as usize;
        }
        let len = full * lb + rem;
        let alpha = if rng.chance(1, 8) { IUPAC } else { DNA };
        let bases: Vec<u8> = (0..len).map(|_| *rng.pick(alpha)).collect();
        let mut lines: Vec<Vec<u8>> = bases.chunks(lb).map(|c| c.to_vec()).collect();
        m.max_lines = m.max_lines.max(lines.len());
        let last_rec = k + 1 == nrec;
        // terminators: all `tm`, the last line possibly different
        let mut terms: Vec<Vec<u8>> = lines.iter().map(|_| tm.to_vec()).collect();
        let nl = lines.len();
        match rng.below(16) {
            0 | 1 if last_rec => {
                terms[nl - 1] = vec![];
                m.no_final_newline = true;
            }
            2 => terms[nl - 1] = other.to_vec(),
            3 if last_rec => {
                terms[nl - 1] = b"\r".to_vec();
                m.no_final_newline = true;
            }
            _ => {}
        }
        if Some(k) == perturb_rec {
            let kind = rng.below(9);
            let mid = if nl >= 3 { 1 + rng.below(nl as u64 - 2) as usize } else { 0 };
            m.perturbed = Some(match kind {
                0 if nl >= 3 && lines[mid].len() > 1 => {
                    lines[mid].pop();
                    "mid-line-short"
                }
                1 if nl >= 3 => {
                    lines[mid].push(b'A');
                    "mid-line-long"
                }
                2 if nl >= 2 => {
                    lines.insert(nl - 1, vec![]);
                    terms.insert(nl - 1, tm.to_vec());
                    "blank-line-inside"
                }
                3 if nl >= 3 => {
                    terms[mid] = other.to_vec();
                    "mid-line-other-terminator"
                }
                4 if nl >= 2 => {
                    let l = lines[0].len();
                    lines[nl - 1] = vec![b'G'; l + 1];
                    "last-line-long"
                }
                5 => {
                    lines.clear();
                    terms.clear();
                    "empty-sequence"
                }
                6 => {
                    lines.insert(0, vec![]);
                    terms.insert(0, tm.to_vec());
                    "blank-first-line"
                }
                7 if nl >= 2 => {
                    lines[0].pop();
                    if lines[0].is_empty() { "blank-first-line" } else { "first-line-short" }
                }
                _ => {
                    // two blank trailing lines
                    lines.push(vec![]);
                    terms.push(tm.to_vec());
                    lines.push(vec![]);
                    terms.push(tm.to_vec());
                    "two-blank-tails"
                }
            });
        }
        if Some(k) == weird_rec && !lines.is_empty() {
            m.weird = true;
            let i = rng.below(lines.len() as u64) as usize;
            let j = rng.below(lines[i].len().max(1) as u64) as usize;
            if !lines[i].is_empty() {
                lines[i][j] = *rng.pick(b">\r");
            }
        }
        for (l, t) in lines.iter().zip(&terms) {
            f.extend_from_slice(l);
            f.extend_from_slice(t);
        }
        // blank trailing line(s)
        let ends_with_newline = f.last() == Some(&b'\n');
        if ends_with_newline {
            match rng.below(24) {
                0 => {
                    f.extend_from_slice(tm);
                    m.blank_tail = true;
                }
                1 => {
                    f.extend_from_slice(other);
                    m.blank_tail = true;
                }
                2 if last_rec => {
                    f.push(b'\r');
                    m.blank_tail = true;
                }
                _ => {}
            }
        }
    }
    (f, m)
}

/// regions of the classes named by the property for one record of `len` bases, `lb` per line
fn gen_regions(rng: &mut Rng, name: &[u8], len: u64, lb: u64, out: &mut Vec<(Reg, &'static str)>) {
    let n = name.to_vec();
    let mut push = |s: Option<u64>, e: Option<u64>, k: &'static str| {
        if let (Some(s), Some(e)) = (s, e) {
            if s > e || s == 0 {
                return;
            }
        }
        if s == Some(0) || e == Some(0) {
            return;
        }
        out.push(((n.clone(), s, e), k));
    };
    push(None, None, "whole");
    let lb = lb.max(1);
    for _ in 0..3 {
        // single base
        let (r1, r2) = (1 + rng.below(len), 1 + rng.below(len));
        let s = *rng.pick(&[1, len, lb, lb + 1, r1, r2]);
        if s >= 1 && s <= len {
            push(Some(s), Some(s), "single-base");
        }
    }
    for _ in 0..3 {
        // line-boundary spanning
        if len > lb {
            let k = 1 + rng.below((len - 1) / lb);
            let a = rng.below(3);
            let b = 1 + rng.below(3);
            let s = (k * lb).saturating_sub(a).max(1);
            let e = k * lb + b;
            push(Some(s), Some(e), if e > len { "clipped" } else { "line-spanning" });
        }
    }
    for _ in 0..3 {
        let s = 1 + rng.below(len);
        let e = s + rng.below(len - s + 1);
        push(Some(s), Some(e), "inside");
    }
    // to-end, clipped
    push(Some(1 + rng.below(len)), None, "to-end");
    push(None, Some(1 + rng.below(len + 3)), "from-start");
    push(Some(1 + rng.below(len)), Some(len + 1 + rng.below(300)), "clipped");
    push(Some(len), Some(len + 1), "clipped");
    push(Some(1), Some(u64::MAX / 2), "clipped");
    // start beyond the sequence length
    for _ in 0..4 {
        let (r1, r2) = (1 + rng.below(40), 1 + rng.below(400));
        let d = *rng.pick(&[1, 1, 2, 3, lb, lb + 1, lb + 2, 2 * lb + 3, r1, r2]);
        let s = len + d;
        let e = match rng.below(3) {
            0 => None,
            1 => Some(s),
            _ => Some(s + rng.below(30)),
        };
        push(Some(s), e, "start-beyond-end");
    }
}

// ------------------------------------------------------------------------------------------------
// the fai case: index + queries, correspondence + oracle

fn bgzip(rng: &mut Rng, file: &[u8]) -> (Vec<u8>, bgzf::gzi::Index) {
    let mut out = vec![];
    let mut gzi = vec![];
    let mut pos = 0usize;
    let maxc = *rng.pick(&[3usize, 7, 16, 50, 400]);
    let mut first = true;
    while pos < file.len() {
        let n = (1 + rng.below(maxc as u64) as usize).min(file.len() - pos);
        if !first {
            gzi.push((out.len() as u64, pos as u64));
        }
        first = false;
        out.extend_from_slice(&stored_member(&file[pos..pos + n]));
        pos += n;
        if rng.chance(1, 9) {
            // an empty member mid-file
            gzi.push((out.len() as u64, pos as u64));
            out.extend_from_slice(&EOF);
        }
    }
    if !first {
        gzi.push((out.len() as u64, pos as u64));
    }
    out.extend_from_slice(&EOF);
    (out, bgzf::gzi::Index::from(gzi))
}

fn fai_case(ctx: &mut Ctx, file: &[u8], regs: &[(Reg, &'static str)], exhaustive: bool, sub: u64, case: &str, emit_corr: bool) {
    let naive = naive_parse(file);
    let fhex = hex(file);
    let idx = guarded(|| index_with(file));
    let idx = match idx {
        Err(p) => {
            ctx.eval(None);
            ctx.fail("panic", format!("Indexer panicked on {}: {p}", show(file)), case.into());
            return;
        }
        Ok(r) => r,
    };
    let recs = match idx {
        Err(e) => {
            ctx.eval(None);
            ctx.bump(&format!("index_rejected_{}", errclass(&e)));
            if emit_corr {
                ctx.corr(format!("c11 fai {fhex} -"), errclass(&e).into());
            }
            return;
        }
        Ok(r) => r,
    };
    ctx.bump("index_accepted");
    // (a) the index lists the naive records with their lengths
    let same = recs.len() == naive.len()
        && recs.iter().zip(&naive).all(|(r, n)| AsRef::<[u8]>::as_ref(r.name()) == &n.name[..] && r.length() as usize == n.bases.len());
    ctx.eval(if naive.iter().any(|n| n.bases.len() > 1) { Some(fnv(file)) } else { None });
    if !same {
        ctx.fail(
            "index-naive",
            format!(
                "index of {} lists {:?}, the naive parse has {:?}",
                show(file),
                recs.iter().map(|r| (r.name().to_string(), r.length())).collect::<Vec<_>>(),
                naive.iter().map(|n| (String::from_utf8_lossy(&n.name).to_string(), n.bases.len())).collect::<Vec<_>>()
            ),
            case.into(),
        );
        return;
    }
    let index = fasta::fai::Index::from(recs.clone());
    let mut rd = fasta::io::Reader::new(Cursor::new(file.to_vec()));
    // the bgzipped + gzi and the 1-byte-buffer variants
    let mut rng = Rng::new(sub ^ 0xB6);
    let (gz, gzi) = bgzip(&mut rng, file);
    let all_clean = naive.iter().all(|n| clean(&n.bases));
    let gz_ix = guarded(|| index_with(bgzf::io::Reader::new(&gz[..])));
    let small_ix = guarded(|| index_with(BufReader::with_capacity(1, file)));
    ctx.eval(None);
    ctx.eval(None);
    match &gz_ix {
        // (a stray CR inside a line is counted or not depending on where a refill ends: C12's
        // subject, and outside the alphabet hypothesis)
        _ if !all_clean => {}
        Ok(Ok(g)) if *g == recs => {}
        other => ctx.fail("bgzf-gzi", format!("indexing {} through bgzf gives {:?}, plain gives {}", show(file), other.as_ref().map(|r| r.as_ref().map(|v| fmt_index(v)).map_err(|e| e.to_string())), fmt_index(&recs)), case.into()),
    }
    if all_clean {
        match &small_ix {
            Ok(Ok(g)) if *g == recs => {}
            other => ctx.fail("small-buffer", format!("indexing {} through a 1-byte BufReader gives {:?}, whole buffer gives {}", show(file), other.as_ref().map(|r| r.as_ref().map(|v| fmt_index(v)).map_err(|e| e.to_string())), fmt_index(&recs)), case.into()),
        }
    }
    let mut gz_rd = fasta::io::IndexedReader::new(bgzf::io::IndexedReader::new(Cursor::new(gz.clone()), gzi), index.clone());
    let mut small_rd = fasta::io::Reader::new(BufReader::with_capacity(1, Cursor::new(file.to_vec())));

    // (b) queries
    let mut answers = vec![];
    let mut check = |ctx: &mut Ctx, r: &Reg, kind: &str, variants: bool| -> String {
        let got = query_with(&mut rd, &index, r);
        let ans = fmt_res(&got);
        let Some(nv) = naive.iter().find(|n| n.name == r.0) else {
            ctx.eval(None);
            if !matches!(&got, Err(c) if c.starts_with("err")) {
                ctx.fail("query-naive", format!("region {} names no sequence of {} but the query answered {}", show_reg(r), show(file), ans), case.into());
            }
            return ans;
        };
        if !clean(&nv.bases) {
            return ans; // outside the alphabet hypothesis: correspondence only
        }
        let len = nv.bases.len() as u64;
        let s = r.1.unwrap_or(1);
        let e = r.2.unwrap_or(u64::MAX);
        ctx.eval(if len > 1 { Some(fnv(format!("{case} {}", fmt_reg(r)).as_bytes())) } else { None });
        ctx.bump(&format!("region_{kind}"));
        if let Err(c) = &got {
            if c.starts_with("panic") {
                ctx.fail("panic", format!("query {} on {} panicked: {c}", show_reg(r), show(file)), case.into());
                return ans;
            }
        }
        if s <= len {
            let want = &nv.bases[(s - 1) as usize..e.min(len) as usize];
            if got.as_deref() != Ok(want) {
                ctx.fail("query-naive", format!("query {} on {} returned {}, the naive parse says {}", show_reg(r), show(file), match &got { Ok(b) => show(b), Err(c) => c.clone() }, show(want)), case.into());
                return ans;
            }
            if variants {
                let g = gz_rd.query(&region(r)).map(|x| x.sequence().as_ref().to_vec());
                ctx.eval(None);
                if g.as_deref().ok() != Some(want) {
                    ctx.fail("bgzf-gzi", format!("query {} on bgzipped {} returned {:?}, plain returned {}", show_reg(r), show(file), g.map(|b| show(&b)).map_err(|e| e.to_string()), show(want)), case.into());
                }
                let g = query_with(&mut small_rd, &index, r);
                ctx.eval(None);
                if g.as_deref() != Ok(want) {
                    ctx.fail("small-buffer", format!("query {} on {} through a 1-byte BufReader returned {:?}, whole buffer returned {}", show_reg(r), show(file), g.map(|b| show(&b)), show(want)), case.into());
                }
            }
        } else {
            // start beyond the sequence length: an error or nothing — never foreign bytes
            match &got {
                Err(_) => {}
                Ok(b) if b.is_empty() => {}
                Ok(b) => ctx.fail(
                    "start-beyond-end",
                    format!("query {} on {} (sequence length {len}) returned {} — bytes that are not bases of that sequence", show_reg(r), show(file), show(b)),
                    case.into(),
                ),
            }
        }
        ans
    };
    for (r, kind) in regs {
        let a = check(ctx, r, kind, true);
        answers.push(a);
    }
    if exhaustive {
        // every base of every (small) record is addressed on its own, and every record start..end
        for (i, nv) in naive.iter().enumerate() {
            let len = nv.bases.len() as u64;
            if len > 600 || naive.iter().position(|n| n.name == nv.name) != Some(i) {
                continue;
            }
            for s in 1..=len {
                check(ctx, &(nv.name.clone(), Some(s), Some(s)), "exhaustive-single-base", false);
            }
            for s in (1..=len).step_by(((len / 12) as usize).max(1)) {
                check(ctx, &(nv.name.clone(), Some(s), None), "exhaustive-to-end", false);
            }
        }
    }
    if emit_corr {
        let q = if regs.is_empty() { "-".to_string() } else { regs.iter().map(|(r, _)| fmt_reg(r)).collect::<Vec<_>>().join(",") };
        let mut a = vec![fmt_index(&recs)];
        a.extend(answers);
        ctx.corr(format!("c11 fai {fhex} {q}"), a.join(" "));
    }
}

pub(super) fn fai_regions(rng: &mut Rng, file: &[u8]) -> Vec<(Reg, &'static str)> {
    let naive = naive_parse(file);
    let mut regs = vec![];
    // geometry for region placement: first line of each record, by a plain scan
    let mut lbs = vec![];
    let mut it = file.split(|&b| b == b'\n').peekable();
    while let Some(l) = it.next() {
        if l.first() == Some(&b'>') {
            let nxt = it.peek().map(|x| x.strip_suffix(b"\r").unwrap_or(x).len()).unwrap_or(1);
            lbs.push(nxt.max(1) as u64);
        }
    }
    let per = if naive.len() > 4 { 2 } else { 1 };
    for (i, nv) in naive.iter().enumerate() {
        if nv.bases.is_empty() {
            continue;
        }
        let mut v = vec![];
        gen_regions(rng, &nv.name, nv.bases.len() as u64, *lbs.get(i).unwrap_or(&1), &mut v);
        // keep files with many records affordable
        for (k, x) in v.into_iter().enumerate() {
            if per == 1 || k % per == i % per || x.1 == "start-beyond-end" {
                regs.push(x);
            }
        }
    }
    regs.push(((b"nosuchseq".to_vec(), None, None), "unknown-name"));
    regs.push(((b"nosuchseq".to_vec(), Some(2), Some(3)), "unknown-name"));
    regs
}

fn fai_generated(ctx: &mut Ctx, sub: u64, emit_corr: bool) {
    let mut rng = Rng::new(sub);
    let (file, m) = gen_file(&mut rng);
    let regs = fai_regions(&mut rng, &file);
    if emit_corr {
        ctx.bump(if m.crlf { "file_crlf" } else { "file_lf" });
        if let Some(p) = m.perturbed {
            ctx.bump(&format!("file_defect_{p}"));
        } else {
            ctx.bump("file_no_defect");
        }
        if m.weird {
            ctx.bump("file_bytes_outside_alphabet");
        }
        if m.no_final_newline {
            ctx.bump("file_no_final_newline");
        }
        if m.blank_tail {
            ctx.bump("file_blank_trailing_line");
        }
        ctx.bump(&format!("file_max_lines_{}", m.max_lines.min(5)));
        ctx.bump(&format!("file_records_{}", naive_parse(&file).len().min(8)));
    }
    fai_case(ctx, &file, &regs, file.len() <= 3000, sub, &format!("fai {sub}"), emit_corr);
    // `Reader::records` goes through `read_to_end`, whose internal buffer growth decides where a
    // partially consumed line resumes: with a CR or '>' among the bases the answer depends on std's
    // allocation strategy, so the sequential reader is compared on files inside the alphabet only
    if emit_corr && naive_parse(&file).iter().all(|n| clean(&n.bases)) {
        faread_corr(ctx, &file);
    }
}

/// correspondence of the sequential reader (`Reader::records`) on an arbitrary file
fn faread_corr(ctx: &mut Ctx, file: &[u8]) {
    let got = guarded(|| fasta::io::Reader::new(file).records().collect::<io::Result<Vec<_>>>());
    let ans = match got {
        Ok(Ok(rs)) => fmt_fa_recs(&rs.iter().map(|r| (r.name().to_vec(), r.description().map(|d| d.to_vec()), r.sequence().as_ref().to_vec())).collect::<Vec<_>>()),
        Ok(Err(e)) => errclass(&e).into(),
        Err(_) => "panic".into(),
    };
    ctx.corr(format!("c11 faread {}", hex(file)), ans);
}

type FaRec = (Vec<u8>, Option<Vec<u8>>, Vec<u8>);

fn fmt_fa_recs(rs: &[FaRec]) -> String {
    if rs.is_empty() {
        return "-".into();
    }
    rs.iter()
        .map(|(n, d, s)| format!("{}:{}:{}", hex(n), d.as_ref().map(|d| hex(d)).unwrap_or("~".into()), hex(s)))
        .collect::<Vec<_>>()
        .join(",")
}

// ------------------------------------------------------------------------------------------------
// FASTA write -> read

fn gen_token(rng: &mut Rng, max: usize, alpha: &[u8]) -> Vec<u8> {
    let n = 1 + rng.below(max as u64) as usize;
    (0..n).map(|_| *rng.pick(alpha)).collect()
}

const NAME_ALPHA: &[u8] = b"ABCxyz0123456789_.|:-#>@+";
const DESC_ALPHA: &[u8] = b"ABCxyz0123 \t=:>@+";

fn gen_fa_recs(rng: &mut Rng) -> (Vec<FaRec>, usize) {
    let lb = gen_lb(rng);
    let n = 1 + rng.below(5) as usize;
    let mut rs = vec![];
    for k in 0..n {
        let name = if rng.chance(1, 2) { format!("sq{k}").into_bytes() } else { gen_token(rng, 8, NAME_ALPHA) };
        let desc = if rng.chance(1, 2) {
            None
        } else {
            let d = gen_token(rng, 12, DESC_ALPHA);
            let d = d.trim_ascii().to_vec();
            if d.is_empty() { Some(b"d".to_vec()) } else { Some(d) }
        };
        let len = match rng.below(8) {
            0 => 0,
            1 => lb,
            2 => lb + 1,
            3 => 2 * lb,
            4 => rng.below(700) as usize,
            _ => rng.below(3 * lb as u64 + 2) as usize,
        };
        let alpha = if rng.chance(1, 6) { IUPAC } else { DNA };
        let seq = (0..len).map(|_| *rng.pick(alpha)).collect();
        rs.push((name, desc, seq));
    }
    (rs, lb)
}

fn write_fasta(rs: &[FaRec], lb: usize) -> io::Result<Vec<u8>> {
    let mut w = fasta::io::writer::Builder::default().set_line_base_count(NonZero::new(lb).unwrap()).build_from_writer(Vec::new());
    for (n, d, s) in rs {
        let def = fasta::record::Definition::new(n.clone(), d.clone().map(BString::from));
        w.write_record(&fasta::Record::new(def, fasta::record::Sequence::from(s.clone())))?;
    }
    Ok(w.into_inner())
}

fn fasta_roundtrip(ctx: &mut Ctx, sub: u64, emit_corr: bool) {
    let mut rng = Rng::new(sub);
    let (rs, lb) = gen_fa_recs(&mut rng);
    let case = format!("fawr {sub}");
    ctx.eval(if rs.iter().any(|r| r.2.len() > lb) { Some(fnv(case.as_bytes())) } else { None });
    ctx.bump(&format!("write_line_width_{}", match lb { 1 => "1", 2..=9 => "2-9", 10..=79 => "10-79", 80..=199 => "80-199", _ => "200" }));
    let file = match guarded(|| write_fasta(&rs, lb)) {
        Ok(Ok(f)) => f,
        other => {
            ctx.fail("fasta-roundtrip", format!("FASTA writer failed on {} records at line width {lb}: {:?}", rs.len(), other.map(|r| r.map(|_| ()).map_err(|e| e.to_string()))), case);
            return;
        }
    };
    let back = guarded(|| fasta::io::Reader::new(&file[..]).records().collect::<io::Result<Vec<_>>>());
    let back: Result<Vec<FaRec>, String> = match back {
        Ok(Ok(v)) => Ok(v.iter().map(|r| (r.name().to_vec(), r.description().map(|d| d.to_vec()), r.sequence().as_ref().to_vec())).collect()),
        Ok(Err(e)) => Err(e.to_string()),
        Err(p) => Err(format!("panic: {p}")),
    };
    if back.as_ref().ok() != Some(&rs) {
        ctx.fail("fasta-roundtrip", format!("records written at line width {lb} do not read back equal: wrote {}, file {}, read {:?}", fmt_fa_recs(&rs), show(&file), back.map(|v| fmt_fa_recs(&v))), case.clone());
        return;
    }
    if emit_corr {
        ctx.corr(format!("c11 fawrite {lb} {}", fmt_fa_recs(&rs)), hex(&file));
        faread_corr(ctx, &file);
    }
    // what the writer produced is indexable (unless a sequence is empty) and queries address it
    if rs.iter().all(|r| !r.2.is_empty()) {
        let regs = fai_regions(&mut rng, &file);
        fai_case(ctx, &file, &regs, file.len() <= 1500, sub, &case, false);
    }
}

// ------------------------------------------------------------------------------------------------
// FASTQ

pub(super) type FqRec = (Vec<u8>, Vec<u8>, Vec<u8>, Vec<u8>);

fn fmt_fq_recs(rs: &[FqRec]) -> String {
    if rs.is_empty() {
        return "-".into();
    }
    rs.iter().map(|(n, d, s, q)| format!("{}:{}:{}:{}", hex(n), hex(d), hex(s), hex(q))).collect::<Vec<_>>().join(",")
}

#[derive(Clone)]
struct SharedBuf(Arc<Mutex<Vec<u8>>>);
impl Write for SharedBuf {
    fn write(&mut self, b: &[u8]) -> io::Result<usize> {
        self.0.lock().unwrap().extend_from_slice(b);
        Ok(b.len())
    }
    fn flush(&mut self) -> io::Result<()> {
        Ok(())
    }
}

pub(super) fn write_fastq(rs: &[FqRec], sep: u8) -> io::Result<Vec<u8>> {
    let mk = |r: &FqRec| fastq::Record::new(fastq::record::Definition::new(r.0.clone(), r.1.clone()), r.2.clone(), r.3.clone());
    if sep == b' ' {
        let mut w = fastq::io::Writer::new(Vec::new());
        for r in rs {
            w.write_record(&mk(r))?;
        }
        Ok(w.into_inner())
    } else {
        let buf = SharedBuf(Arc::new(Mutex::new(vec![])));
        let mut w = fastq::io::writer::Builder::default().set_definition_separator(sep).build_from_writer(buf.clone());
        for r in rs {
            w.write_record(&mk(r))?;
        }
        drop(w);
        let v = buf.0.lock().unwrap().clone();
        Ok(v)
    }
}

fn read_fastq(file: &[u8]) -> Result<Vec<FqRec>, String> {
    match guarded(|| fastq::io::Reader::new(file).records().collect::<io::Result<Vec<_>>>()) {
        Ok(Ok(v)) => Ok(v.iter().map(|r| (r.name().to_vec(), r.description().to_vec(), r.sequence().to_vec(), r.quality_scores().to_vec())).collect()),
        Ok(Err(e)) => Err(errclass(&e).to_string()),
        Err(p) => Err(format!("panic: {p}")),
    }
}

fn fqindex_answer(file: &[u8]) -> (String, Option<Vec<fastq::fai::Record>>) {
    let got = guarded(|| {
        let mut ix = fastq::io::Indexer::new(file);
        let mut out = vec![];
        while let Some(r) = ix.index_record()? {
            out.push(r);
        }
        Ok::<_, io::Error>(out)
    });
    match got {
        Ok(Ok(v)) => (
            if v.is_empty() {
                "-".into()
            } else {
                v.iter()
                    .map(|r| format!("{}:{}:{}:{}:{}:{}", hex(r.name().as_bytes()), r.length(), r.sequence_offset(), r.line_bases(), r.line_width(), r.quality_scores_offset()))
                    .collect::<Vec<_>>()
                    .join(",")
            },
            Some(v),
        ),
        Ok(Err(e)) => (errclass(&e).into(), None),
        Err(_) => ("panic".into(), None),
    }
}

const QUAL_ALPHA: &[u8] = b"!\"#$%&'()*+,-./0123456789:;<=>?@ABCDEFGHIJ@@++";

pub(super) fn gen_fq_recs(rng: &mut Rng) -> Vec<FqRec> {
    let n = 1 + rng.below(5) as usize;
    (0..n)
        .map(|k| {
            let name = match rng.below(12) {
                0 => vec![],
                1..=5 => format!("r{k}/1").into_bytes(),
                _ => gen_token(rng, 10, b"ABCxyz0123456789_.|:-#>@+/"),
            };
            let desc = match rng.below(3) {
                0 => vec![],
                1 => b"LN:4".to_vec(),
                _ => gen_token(rng, 10, b"ABCxyz0123 \t=:>@+"),
            };
            let len = match rng.below(6) {
                0 => 0,
                1 => 1,
                _ => rng.below(120) as usize,
            };
            let seq: Vec<u8> = (0..len).map(|_| *rng.pick(DNA)).collect();
            let qlen = if rng.chance(1, 10) { rng.below(8) as usize } else { len };
            let mut qual: Vec<u8> = (0..qlen).map(|_| *rng.pick(QUAL_ALPHA)).collect();
            if qlen > 0 && rng.chance(1, 3) {
                qual[0] = *rng.pick(b"@+");
            }
            (name, desc, seq, qual)
        })
        .collect()
}

fn fastq_case(ctx: &mut Ctx, sub: u64, emit_corr: bool) {
    let mut rng = Rng::new(sub);
    let rs = gen_fq_recs(&mut rng);
    let sep = if rng.chance(1, 3) { b'\t' } else { b' ' };
    let case = format!("fq {sub}");
    let special = rs.iter().any(|r| r.3.first().map(|b| *b == b'@' || *b == b'+').unwrap_or(false));
    ctx.eval(if special { Some(fnv(case.as_bytes())) } else { None });
    ctx.bump(if special { "fastq_quality_starts_with_at_or_plus" } else { "fastq_plain" });
    let file = match guarded(|| write_fastq(&rs, sep)) {
        Ok(Ok(f)) => f,
        other => {
            ctx.fail("fastq-roundtrip", format!("FASTQ writer failed: {:?}", other.map(|r| r.map(|_| ()).map_err(|e| e.to_string()))), case);
            return;
        }
    };
    let back = read_fastq(&file);
    if back.as_ref().ok() != Some(&rs) {
        ctx.fail("fastq-roundtrip", format!("FASTQ records do not read back equal: wrote {}, file {}, read {:?}", fmt_fq_recs(&rs), show(&file), back.map(|v| fmt_fq_recs(&v))), case.clone());
        return;
    }
    // index offsets address the sequence and quality lines
    let (ixans, ix) = fqindex_answer(&file);
    ctx.eval(None);
    match &ix {
        Some(ix) if ix.len() == rs.len() => {
            for (r, x) in rs.iter().zip(ix) {
                let so = x.sequence_offset() as usize;
                let qo = x.quality_scores_offset() as usize;
                let ok = x.name().as_bytes() == &r.0[..]
                    && x.length() as usize == r.2.len()
                    && file.get(so..so + r.2.len()) == Some(&r.2[..])
                    && file.get(qo..qo + r.3.len()) == Some(&r.3[..])
                    && x.line_width() as usize == r.2.len() + 1;
                if !ok {
                    ctx.fail("fastq-index", format!("FASTQ index record {x:?} does not address sequence/quality of {} in {}", fmt_fq_recs(&[r.clone()]), show(&file)), case.clone());
                    break;
                }
            }
        }
        _ => ctx.fail("fastq-index", format!("FASTQ indexer on a written file of {} records answered {ixans}", rs.len()), case.clone()),
    }
    if emit_corr {
        ctx.corr(format!("c11 fqwrite {sep} {}", fmt_fq_recs(&rs)), hex(&file));
        ctx.corr(format!("c11 fqread {}", hex(&file)), fmt_fq_recs(&rs));
        ctx.corr(format!("c11 fqindex {}", hex(&file)), ixans);
        // a mangled variant: CRLF, truncation, missing plus line, extra text — reader and indexer vs model
        let mut g = file.clone();
        match rng.below(6) {
            0 => g = g.iter().flat_map(|&b| if b == b'\n' { vec![b'\r', b'\n'] } else { vec![b] }).collect(),
            1 => g.truncate(rng.below(g.len() as u64 + 1) as usize),
            2 => {
                if let Some(p) = g.iter().position(|&b| b == b'+') {
                    g[p] = b'-';
                }
            }
            3 => {
                if let Some(p) = g.iter().position(|&b| b == b'+') {
                    g.splice(p + 1..p + 1, b"again r0".iter().copied());
                }
            }
            4 => {
                g.pop();
            }
            _ => g.extend_from_slice(b"\n"),
        }
        let a = match read_fastq(&g) {
            Ok(v) => fmt_fq_recs(&v),
            Err(c) if c.starts_with("panic") => "panic".into(),
            Err(c) => c,
        };
        ctx.corr(format!("c11 fqread {}", hex(&g)), a);
        if g.is_ascii() {
            ctx.corr(format!("c11 fqindex {}", hex(&g)), fqindex_answer(&g).0);
        }
    }
}

// ------------------------------------------------------------------------------------------------
// hand-written corpus, run first

const CORPUS: &[(&[u8], &[(&[u8], u64, u64)])] = &[
    // F8: start beyond the end of a 6-base record used to return the next definition line
    (b">sq0\nACGT\nAC\n>q1 desc\nTTTTG\n", &[(b"sq0", 9, 20), (b"sq0", 7, 20), (b"sq0", 7, 7), (b"sq0", 8, 8), (b"sq0", 6, 6), (b"sq0", 5, 9), (b"sq0", 1, 6), (b"q1", 5, 5), (b"q1", 6, 6)]),
    // CRLF file whose last line ends with LF only: offset of base len+1 lies inside the next definition
    (b">a\r\nACGT\r\nACGT\n>b\r\nTT\r\n", &[(b"a", 8, 9), (b"a", 9, 9), (b"a", 9, 12), (b"a", 4, 5), (b"a", 5, 8), (b"b", 2, 2), (b"b", 3, 3)]),
    // full last line followed directly by the next record
    (b">a\nACGT\nACGT\n>b\nGG\n", &[(b"a", 8, 8), (b"a", 9, 9), (b"a", 9, 10), (b"a", 10, 10), (b"a", 12, 14), (b"a", 4, 5)]),
    // no final newline; lone CR at the end
    (b">a\nACGT\nAC", &[(b"a", 6, 6), (b"a", 6, 9), (b"a", 7, 7), (b"a", 4, 5)]),
    (b">a\nACGT\nAC\r", &[(b"a", 6, 6), (b"a", 7, 7)]),
    (b">a\nACGT\n\r", &[(b"a", 4, 4), (b"a", 5, 5)]),
    // blank trailing line before the next record / at the end
    (b">a\nACGT\nACGT\n\n>b\nAC\n", &[(b"a", 8, 8), (b"a", 9, 9), (b"a", 1, 100), (b"b", 1, 2)]),
    (b">a\nACGT\n\n", &[(b"a", 4, 4), (b"a", 5, 5)]),
    // short last line followed by a blank line; two blank lines: rejected
    (b">a\nACGT\nAC\n\n", &[]),
    (b">a\nAC\n\n\n", &[]),
    // ragged
    (b">a\nACGT\nACG\nACGT\n", &[]),
    (b">a\nACGT\nACGTA\n", &[]),
    (b">a\nACGT\nACGT\r\nACGT\n", &[]),
    (b">a\nACGT\n\nACGT\n", &[]),
    // single base, single line without newline, line width 1
    (b">a\nA", &[(b"a", 1, 1), (b"a", 2, 2), (b"a", 1, 5)]),
    (b">a\nA\nC\nG\n>b\nT\n", &[(b"a", 1, 1), (b"a", 2, 3), (b"a", 3, 3), (b"a", 4, 4), (b"a", 5, 9)]),
    // empty sequence, empty file, missing prefix, missing name
    (b">a\n>b\nAC\n", &[]),
    (b">a\n", &[]),
    (b"", &[]),
    (b"ACGT\n", &[]),
    (b">\nACGT\n", &[]),
    (b"> x\nACGT\n", &[]),
    (b">a\r", &[]),
    // duplicate names: the first record answers
    (b">a\nAC\n>a\nGGTT\n", &[(b"a", 1, 2), (b"a", 3, 4)]),
    // description with '>' and tabs
    (b">a\t>x y \nACGT\nA\n", &[(b"a", 4, 5), (b"a", 6, 6)]),
];

fn corpus_case(ctx: &mut Ctx, k: usize, emit_corr: bool) {
    let (file, qs) = CORPUS[k];
    let mut regs: Vec<(Reg, &'static str)> = qs.iter().map(|(n, s, e)| ((n.to_vec(), Some(*s), Some(*e)), "corpus")).collect();
    for nv in naive_parse(file) {
        regs.push(((nv.name.clone(), None, None), "whole"));
        regs.push(((nv.name.clone(), Some(2), None), "to-end"));
    }
    regs.push(((b"zz".to_vec(), None, None), "unknown-name"));
    fai_case(ctx, file, &regs, true, k as u64, &format!("corpus {k}"), emit_corr);
    if emit_corr {
        faread_corr(ctx, file);
    }
}

// ------------------------------------------------------------------------------------------------

pub fn run(ctx: &mut Ctx) {
    if let Some(case) = ctx.replay_only.clone() {
        if super::c11_more::replay(ctx, &case) { return; }
        if super::c11_indexer::replay(ctx, &case) { return; }
        let sub: u64 = case.get(1).and_then(|s| s.parse().ok()).unwrap_or(0);
        match case.first().map(|s| s.as_str()) {
            Some("corpus") if (sub as usize) < CORPUS.len() => corpus_case(ctx, sub as usize, false),
            Some("fai") => fai_generated(ctx, sub, false),
            Some("fawr") => fasta_roundtrip(ctx, sub, false),
            Some("fq") => fastq_case(ctx, sub, false),
            // observation, replay-only (outside C11's quantifier, relevant to C15): an inverted
            // interval makes `end - start + 1` in `Reader::query` underflow
            Some("inverted") => {
                let file = b">sq0\nACGTACGT\n";
                let ix = fasta::fai::Index::from(index_with(&file[..]).unwrap());
                let mut rd = fasta::io::Reader::new(Cursor::new(file.to_vec()));
                let got = query_with(&mut rd, &ix, &(b"sq0".to_vec(), Some(5), Some(3)));
                ctx.eval(None);
                if !matches!(&got, Err(c) if c.starts_with("err")) {
                    ctx.fail("inverted-interval-observation", format!("query sq0:5-3 on \">sq0\\nACGTACGT\\n\" answered {:?} instead of an error", got.map(|b| show(&b))), "inverted".into());
                }
            }
            _ => {}
        }
        return;
    }
    for k in 0..CORPUS.len() {
        corpus_case(ctx, k, true);
    }
    let n = ctx.n(1_000, 60_000);
    for it in 0..n {
        let sub = ctx.seed.wrapping_mul(11_000_027).wrapping_add(it);
        fai_generated(ctx, sub, true);
    }
    let n = ctx.n(400, 20_000);
    for it in 0..n {
        let sub = ctx.seed.wrapping_mul(11_000_047).wrapping_add(it);
        fasta_roundtrip(ctx, sub, true);
    }
    let n = ctx.n(400, 20_000);
    for it in 0..n {
        let sub = ctx.seed.wrapping_mul(11_000_081).wrapping_add(it);
        fastq_case(ctx, sub, true);
    }
    super::c11_more::run(ctx);
    super::c11_indexer::run(ctx);
    ctx.sample(|| "c11 fai 3e7371300a414347540a41430a3e713120646573630a54545454470a 737130:2:5,737130:9:20,7131:-:-".into());
}
