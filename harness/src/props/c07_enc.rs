//! C07 (extension) — CRAM bit I/O, data-series encodings, compression header and record codec.
//!
//! CORRESPONDENCE (vs `Noodles.Cram.{Bits,Encoding,CompressionHeader,RecordCodec}` through the
//! `cfg(noodles_verif)` hooks of `noodles_cram::verif_enc`): `bitw`/`bitr` (BitWriter / BitReader runs),
//! `encparse` (parameter bytes → encoding → bytes), `encdec` / `encenc` (values on streams), `chparse` /
//! `chwrite` (compression header), `recw` / `recr` (write_record / read_record over in-memory streams, on
//! generated records, on hostile streams and on the blocks of files the real writer produced),
//! `refctx`, `stored`.
//! ORACLE (on the real code): bits read back what was written; the decoders invert the specification's
//! Huffman / Beta / Gamma encoders (written here independently); decode ∘ encode = id for the encodings the
//! writer implements; parameters re-parse; a compression header re-parses; read_records ∘ write_records
//! returns what the series store, for every flag combination.
use crate::common::*;
use noodles_cram as cram;
use noodles_sam as sam;
use cram::verif_enc as ve;
use sam::alignment::io::Write as _;

#[path = "c07/cases.rs"]
#[allow(dead_code)]
mod cases;
#[path = "c07/walker.rs"]
#[allow(dead_code)]
mod walker;
pub mod c15_rec;

// ------------------------------------------------------------------------------------------ helpers

fn res_class<T>(r: Result<std::io::Result<T>, String>) -> Result<T, String> {
    match r {
        Ok(Ok(v)) => Ok(v),
        Ok(Err(e)) => Err(errclass(&e).to_string()),
        Err(_) => Err("panic".to_string()),
    }
}

fn itf8(n: i32) -> Vec<u8> {
    let u = n as u32;
    if u < 1 << 7 {
        vec![u as u8]
    } else if u < 1 << 14 {
        vec![0x80 | (u >> 8) as u8, u as u8]
    } else if u < 1 << 21 {
        vec![0xc0 | (u >> 16) as u8, (u >> 8) as u8, u as u8]
    } else if u < 1 << 28 {
        vec![0xe0 | (u >> 24) as u8, (u >> 16) as u8, (u >> 8) as u8, u as u8]
    } else {
        vec![0xf0 | (u >> 28) as u8, (u >> 20) as u8, (u >> 12) as u8, (u >> 4) as u8, (u & 0x0f) as u8]
    }
}

/// MSB-first bit string → bytes, zero padded
#[derive(Default, Clone)]
struct Bits(Vec<bool>);
impl Bits {
    fn push(&mut self, v: u64, len: u32) {
        for k in (0..len).rev() {
            self.0.push((v >> k) & 1 == 1);
        }
    }
    fn bytes(&self) -> Vec<u8> {
        let mut out = vec![0u8; self.0.len().div_ceil(8)];
        for (i, b) in self.0.iter().enumerate() {
            if *b {
                out[i / 8] |= 0x80 >> (i % 8);
            }
        }
        out
    }
}

// ------------------------------------------------------------------------------- encodings (harness side)

#[derive(Clone, Debug, PartialEq)]
enum E {
    IntExt(i32),
    IntGolomb(i32, i32),
    IntHuff(Vec<i32>, Vec<u32>),
    IntBeta(i32, u32),
    IntSubexp(i32, i32),
    IntRice(i32, i32),
    IntGamma(i32),
    ByteExt(i32),
    ByteHuff(Vec<i32>, Vec<u32>),
    ArrLen(Box<E>, Box<E>),
    ArrStop(u8, i32),
}

impl E {
    fn kind(&self) -> char {
        match self {
            E::ByteExt(_) | E::ByteHuff(..) => 'b',
            E::ArrLen(..) | E::ArrStop(..) => 'a',
            _ => 'i',
        }
    }
    fn vkind(&self) -> ve::Kind {
        match self.kind() {
            'b' => ve::Kind::Byte,
            'a' => ve::Kind::ByteArray,
            _ => ve::Kind::Integer,
        }
    }
    fn label(&self) -> &'static str {
        match self {
            E::IntExt(_) => "int-external",
            E::IntGolomb(..) => "int-golomb",
            E::IntHuff(a, _) => if a.len() == 1 { "int-huffman-1" } else { "int-huffman" },
            E::IntBeta(..) => "int-beta",
            E::IntSubexp(..) => "int-subexp",
            E::IntRice(..) => "int-golomb-rice",
            E::IntGamma(_) => "int-gamma",
            E::ByteExt(_) => "byte-external",
            E::ByteHuff(a, _) => if a.len() == 1 { "byte-huffman-1" } else { "byte-huffman" },
            E::ArrLen(..) => "bytes-len",
            E::ArrStop(..) => "bytes-stop",
        }
    }
    /// the parameter bytes, written by the harness's own serialiser
    fn ser(&self) -> Vec<u8> {
        fn codec(kind: i32, args: Vec<u8>) -> Vec<u8> {
            let mut v = itf8(kind);
            v.extend(itf8(args.len() as i32));
            v.extend(args);
            v
        }
        fn huff(a: &[i32], l: &[u32]) -> Vec<u8> {
            let mut v = itf8(a.len() as i32);
            for s in a {
                v.extend(itf8(*s));
            }
            v.extend(itf8(l.len() as i32));
            for s in l {
                v.extend(itf8(*s as i32));
            }
            v
        }
        fn two(a: i32, b: i32) -> Vec<u8> {
            let mut v = itf8(a);
            v.extend(itf8(b));
            v
        }
        match self {
            E::IntExt(id) | E::ByteExt(id) => codec(1, itf8(*id)),
            E::IntGolomb(a, b) => codec(2, two(*a, *b)),
            E::IntHuff(a, l) | E::ByteHuff(a, l) => codec(3, huff(a, l)),
            E::IntBeta(o, l) => codec(6, two(*o, *l as i32)),
            E::IntSubexp(a, b) => codec(7, two(*a, *b)),
            E::IntRice(a, b) => codec(8, two(*a, *b)),
            E::IntGamma(o) => codec(9, itf8(*o)),
            E::ArrLen(l, v) => {
                let mut a = l.ser();
                a.extend(v.ser());
                codec(4, a)
            }
            E::ArrStop(sb, id) => {
                let mut a = vec![*sb];
                a.extend(itf8(*id));
                codec(5, a)
            }
        }
    }
    fn req(&self) -> String {
        format!("{}.{}", self.kind(), hex(&self.ser()))
    }
    fn real(&self) -> Option<ve::AnyEncoding> {
        let b = self.ser();
        guarded(|| ve::AnyEncoding::read(self.vkind(), &b)).ok().and_then(|r| r.ok()).map(|x| x.0)
    }
}

/// Kraft-valid code lengths: split random leaves of a binary tree, then maybe drop some leaves
fn gen_lens(rng: &mut Rng, n: usize, max_depth: u32) -> Vec<u32> {
    let mut leaves = vec![0u32];
    let mut guard = 0;
    while leaves.len() < n && guard < 10_000 {
        guard += 1;
        let i = rng.below(leaves.len() as u64) as usize;
        if leaves[i] < max_depth {
            let d = leaves.swap_remove(i);
            leaves.push(d + 1);
            leaves.push(d + 1);
        }
    }
    leaves.truncate(n);
    // shuffle
    for i in (1..leaves.len()).rev() {
        let j = rng.below(i as u64 + 1) as usize;
        leaves.swap(i, j);
    }
    leaves
}

/// the specification's canonical code: symbols sorted by (length, value); first code 0, then
/// `(code + 1) << (len - prev_len)`
fn canonical_code(alphabet: &[i32], lens: &[u32]) -> Vec<(i32, u64, u32)> {
    let mut p: Vec<(u32, i32)> = lens.iter().copied().zip(alphabet.iter().copied()).collect();
    p.sort();
    let mut out = vec![];
    let mut code = 0u64;
    let mut prev = p.first().map(|x| x.0).unwrap_or(0);
    for (i, (l, s)) in p.iter().enumerate() {
        if i > 0 {
            code = (code + 1) << (l - prev);
        }
        out.push((*s, code, *l));
        prev = *l;
    }
    out
}

fn gen_symbols(rng: &mut Rng, n: usize, bytes: bool) -> Vec<i32> {
    let mut v: Vec<i32> = vec![];
    while v.len() < n {
        let s = if bytes {
            rng.below(256) as i32
        } else {
            match rng.below(4) {
                0 => rng.below(16) as i32,
                1 => rng.below(1000) as i32 - 500,
                2 => *rng.pick(&[i32::MAX, i32::MIN, -1, 0, 1 << 20, -(1 << 28)]),
                _ => rng.next() as i32,
            }
        };
        if !v.contains(&s) {
            v.push(s);
        }
    }
    v
}

fn edge_i32(rng: &mut Rng) -> i32 {
    match rng.below(6) {
        0 => *rng.pick(&[0, 1, -1, 127, 128, 16383, 16384, (1 << 21) - 1, 1 << 21, (1 << 28) - 1, 1 << 28, i32::MAX, i32::MIN]),
        1 => rng.below(64) as i32,
        2 => -(rng.below(64) as i32),
        3 => (rng.next() as i32) >> rng.below(31),
        _ => rng.below(100_000) as i32,
    }
}

fn gen_int_enc(rng: &mut Rng, core_ok: bool) -> E {
    let pick = if core_ok { rng.below(10) } else { 0 };
    match pick {
        0..=2 => E::IntExt(gen_id(rng)),
        3 => {
            let n = 1 + rng.below(9) as usize;
            let a = gen_symbols(rng, n, false);
            let l = if n == 1 && rng.chance(3, 4) { vec![0] } else { gen_lens(rng, n, 12) };
            E::IntHuff(a, l)
        }
        4 | 5 => { let d = if rng.chance(1, 2) { 1 } else { 65536 }; let m = if rng.chance(1, 8) { 40 } else { 32 }; E::IntBeta(edge_i32(rng) / d, rng.below(m) as u32) },
        6 | 7 => E::IntGamma(if rng.chance(1, 3) { 1 } else { edge_i32(rng) }),
        8 => match rng.below(3) {
            0 => E::IntGolomb(edge_i32(rng), edge_i32(rng)),
            1 => E::IntSubexp(edge_i32(rng), edge_i32(rng)),
            _ => E::IntRice(edge_i32(rng), edge_i32(rng)),
        },
        _ => E::IntExt(gen_id(rng)),
    }
}

fn gen_id(rng: &mut Rng) -> i32 {
    match rng.below(8) {
        0..=3 => 1 + rng.below(40) as i32,
        4 => 60 + rng.below(10) as i32, // around LOW_READER_COUNT = 64
        5 => 0,
        6 => -(1 + rng.below(5) as i32),
        _ => 4_000_000 + rng.below(2_000_000) as i32,
    }
}

fn gen_byte_enc(rng: &mut Rng, core_ok: bool) -> E {
    if core_ok && rng.chance(1, 3) {
        let n = 1 + rng.below(8) as usize;
        let bytes_only = !rng.chance(1, 6);
        let a = gen_symbols(rng, n, bytes_only);
        let l = if n == 1 { vec![0] } else { gen_lens(rng, n, 10) };
        E::ByteHuff(a, l)
    } else {
        E::ByteExt(gen_id(rng))
    }
}

fn gen_arr_enc(rng: &mut Rng, core_ok: bool) -> E {
    if rng.chance(1, 2) {
        E::ArrStop(*rng.pick(&[0u8, 0, 9, 255]), gen_id(rng))
    } else if rng.chance(1, 2) {
        let id = gen_id(rng);
        E::ArrLen(Box::new(E::IntExt(id)), Box::new(E::ByteExt(id)))
    } else {
        let v = gen_byte_enc(rng, core_ok);
        // a value encoding that consumes no input (one-symbol alphabet, zero-bit code) makes `decode_take` allocate
        // whatever length is decoded: keep that length small (the allocation by a declared length is C15's subject)
        let free = matches!(&v, E::ByteHuff(a, l) if a.len() == 1 || l.iter().any(|x| *x == 0));
        let l = if free { E::IntBeta(rng.below(4) as i32, rng.below(9) as u32) } else { gen_int_enc(rng, core_ok) };
        E::ArrLen(Box::new(l), Box::new(v))
    }
}

// --------------------------------------------------------------------------------------------- bits

fn bits_cases(ctx: &mut Ctx) {
    // corpus: the unit tests of noodles, the boundaries of len, a 32-bit write
    let corpus_w: Vec<Vec<(u32, usize)>> = vec![
        vec![],
        vec![(0x0c, 4), (0x03, 2), (0x34, 6)],
        vec![(0xff, 0)],
        vec![(0xff, 33)],
        vec![(1, 1)],
        vec![(0xdead_beef, 32)],
        vec![(0xdead_beef, 31), (1, 1)],
        vec![(5, 3), (0xffff_ffff, 8), (0, 5)],
        vec![(1, 1); 17],
        vec![(3, 2), (7, 40), (1, 1)],
    ];
    let n = ctx.n(1500, 20000);
    for k in 0..corpus_w.len() as u64 + n {
        let mut rng = Rng::new(ctx.seed ^ 0xB175 ^ k.wrapping_mul(0x9E37));
        let ops: Vec<(u32, usize)> = if (k as usize) < corpus_w.len() {
            corpus_w[k as usize].clone()
        } else {
            (0..rng.below(12))
                .map(|_| {
                    let len = match rng.below(10) {
                        0 => 0,
                        1 => 32,
                        2 => 33 + rng.below(3) as usize,
                        3 => 31,
                        _ => 1 + rng.below(31) as usize,
                    };
                    (rng.next() as u32 >> rng.below(32), len)
                })
                .collect()
        };
        bits_write_case(ctx, &ops);
    }
    let corpus_r: Vec<(Vec<u8>, Vec<Option<u32>>)> = vec![
        (vec![0b1100_1111, 0b0100_0000], vec![Some(4), Some(2), Some(6), Some(32)]),
        (vec![], vec![None, Some(0), Some(1), Some(32)]),
        (vec![0xff], vec![Some(8), None, Some(0), None]),
        (vec![0xa5, 0x5a, 0xff, 0x00, 0x81], vec![Some(31), Some(9), Some(1)]),
        (vec![0x80], vec![None, None, None, None, None, None, None, None, None]),
        (vec![0x12, 0x34], vec![Some(12), Some(12), Some(4), Some(40), Some(4)]),
    ];
    for k in 0..corpus_r.len() as u64 + n {
        let mut rng = Rng::new(ctx.seed ^ 0xB17F ^ k.wrapping_mul(0x9E37));
        let (src, ops) = if (k as usize) < corpus_r.len() {
            corpus_r[k as usize].clone()
        } else {
            let k = rng.below(9) as usize;
            let src = rng.bytes(k);
            let ops = (0..1 + rng.below(14))
                .map(|_| match rng.below(8) {
                    0 => None,
                    1 => Some(0),
                    2 => Some(32 + rng.below(4) as u32),
                    3 => Some(31),
                    _ => Some(1 + rng.below(16) as u32),
                })
                .collect();
            (src, ops)
        };
        bits_read_case(ctx, &src, &ops);
    }
}

fn bits_write_case(ctx: &mut Ctx, ops: &[(u32, usize)]) {
    let ops_s = if ops.is_empty() { "-".to_string() } else { ops.iter().map(|(v, l)| format!("{v}:{l}")).collect::<Vec<_>>().join(",") };
    let r = res_class(guarded(|| ve::bit_write(ops)));
    ctx.corr(format!("c07 bitw {ops_s}"), match &r { Ok(b) => hex(b), Err(e) => e.clone() });
    ctx.bump(&format!("bitw:{}", match &r { Ok(_) => "ok", Err(e) => e.as_str() }));
    for (_, l) in ops {
        ctx.bump(&format!("bitw-len:{}", match *l { 0 => "0", 1..=7 => "1-7", 8..=31 => "8-31", 32 => "32", _ => ">32" }));
    }
    // oracle: what was written (≤ 31 bits per call) reads back, and the layout is MSB first
    if let Ok(bytes) = &r {
        ctx.eval(if ops.len() >= 2 { Some(fnv(ops_s.as_bytes())) } else { None });
        let mut want = Bits::default();
        for (v, l) in ops {
            want.push(*v as u64, *l as u32);
        }
        if want.bytes() != *bytes {
            ctx.fail("bits-layout", format!("write_u32 run {ops_s} produced {} instead of {}", hex(bytes), hex(&want.bytes())), format!("bitw {ops_s}"));
        }
        if ops.iter().all(|(_, l)| *l <= 31) {
            let lens: Vec<Option<u32>> = ops.iter().map(|(_, l)| Some(*l as u32)).collect();
            let back = guarded(|| ve::bit_read(bytes, &lens));
            let ok = match &back {
                Ok(v) => v.len() == ops.len() && v.iter().zip(ops).all(|(r, (v, l))| matches!(r, Ok(x) if *x as u32 == if *l == 0 { 0 } else { v & (u32::MAX >> (32 - l)) })),
                Err(_) => false,
            };
            if !ok {
                ctx.fail("bits-roundtrip", format!("reading back the run {ops_s} from {} does not return the values written", hex(bytes)), format!("bitw {ops_s}"));
            }
        }
    }
}

fn bits_read_case(ctx: &mut Ctx, src: &[u8], ops: &[Option<u32>]) {
    let ops_s = if ops.is_empty() { "-".to_string() } else { ops.iter().map(|o| o.map(|l| l.to_string()).unwrap_or("b".into())).collect::<Vec<_>>().join(",") };
    let r = guarded(|| ve::bit_read(src, ops));
    let ans = match r {
        Ok(v) => v
            .iter()
            .map(|x| match x {
                Ok(n) => n.to_string(),
                Err(e) => {
                    errclass(e).to_string()
                }
            })
            .collect::<Vec<_>>()
            .join(","),
        Err(_) => "panic".into(),
    };
    for a in ans.split(',') {
        ctx.bump(&format!("bitr:{}", if a.starts_with("err") || a == "panic" { a } else { "ok" }));
    }
    ctx.corr(format!("c07 bitr {} {ops_s}", hex(src)), ans);
}

// ---------------------------------------------------------------------------------------- encodings

fn fmt_val(v: &ve::Val) -> String {
    match v {
        ve::Val::Int(n) => format!("i{n}"),
        ve::Val::Byte(b) => format!("b{b}"),
        ve::Val::Bytes(b) => format!("x{}", hex(b)),
    }
}

fn fmt_ext(ext: &[(i32, Vec<u8>)]) -> String {
    if ext.is_empty() { "-".into() } else { ext.iter().map(|(i, b)| format!("{i}={}", hex(b))).collect::<Vec<_>>().join(";") }
}

fn encparse_case(ctx: &mut Ctx, kind: char, src: &[u8]) {
    let vk = match kind {
        'b' => ve::Kind::Byte,
        'a' => ve::Kind::ByteArray,
        _ => ve::Kind::Integer,
    };
    let r = res_class(guarded(|| ve::AnyEncoding::read(vk, src)));
    let ans = match &r {
        Ok((e, used)) => {
            let w = res_class(guarded(|| e.write()));
            format!("{e:?} | {used} | {}", match &w { Ok(b) => hex(b), Err(c) => c.clone() })
        }
        Err(c) => c.clone(),
    };
    ctx.bump(&format!("encparse-{kind}:{}", match &r { Ok(_) => "ok", Err(c) => c.as_str() }));
    ctx.corr(format!("c07 encparse {kind} {}", hex(src)), ans);
    // oracle: parameters that parse are written and re-parse to the same encoding
    if let Ok((e, _)) = &r {
        ctx.eval(if src.len() > 3 { Some(fnv(src) ^ kind as u64) } else { None });
        match res_class(guarded(|| e.write())) {
            Ok(b) => match res_class(guarded(|| ve::AnyEncoding::read(vk, &b))) {
                Ok((e2, used)) if e2 == *e && used == b.len() => {}
                other => ctx.fail("enc-params-roundtrip", format!("{e:?} is written as {} which re-parses as {:?}", hex(&b), other.map(|x| format!("{:?} ({} bytes)", x.0, x.1))), format!("encparse {kind} {}", hex(src))),
            },
            Err(c) => ctx.fail("enc-params-roundtrip", format!("{e:?} was parsed from {} but cannot be written: {c}", hex(src)), format!("encparse {kind} {}", hex(src))),
        }
    }
}

fn encparse_cases(ctx: &mut Ctx) {
    let corpus: Vec<(char, Vec<u8>)> = vec![
        ('i', vec![1, 1, 5]),
        ('i', vec![2, 2, 1, 10]),
        ('i', vec![3, 4, 1, 65, 1, 0]),
        ('i', vec![6, 2, 0, 8]),
        ('i', vec![7, 2, 0, 1]),
        ('i', vec![8, 2, 1, 3]),
        ('i', vec![9, 1, 1]),
        ('i', vec![0, 0]),
        ('i', vec![4, 0]),
        ('i', vec![5, 2, 0, 1]),
        ('i', vec![10, 0]),
        ('i', vec![]),
        ('i', vec![1]),
        ('i', vec![1, 2, 5]),
        ('i', vec![1, 0]),
        ('i', vec![1, 3, 5, 9, 9, 7]),
        ('i', vec![6, 2, 0, 0xff, 0xff, 0xff, 0xff, 0x0f]),
        ('i', vec![6, 6, 0, 0xff, 0xff, 0xff, 0xff, 0x0f]),
        ('i', vec![3, 3, 0xff, 0xff, 0xff]),
        ('i', vec![3, 6, 0xff, 0xff, 0xff, 0xff, 0x0f, 1]),
        ('i', vec![3, 2, 0, 0]),
        ('i', vec![3, 5, 2, 1, 2, 1, 7]),
        ('i', vec![3, 9, 1, 1, 1, 0xff, 0xff, 0xff, 0xff, 0x0f, 0]),
        ('i', vec![1, 0xff, 0xff, 0xff, 0xff, 0x0f]),
        ('i', vec![0x81, 0x01, 1, 5]),
        ('b', vec![1, 1, 27]),
        ('b', vec![3, 4, 1, 65, 1, 0]),
        ('b', vec![6, 2, 0, 8]),
        ('b', vec![3, 1, 0]),
        ('a', vec![4, 6, 1, 1, 19, 1, 1, 19]),
        ('a', vec![5, 2, 0, 7]),
        ('a', vec![5, 0]),
        ('a', vec![5, 1, 0]),
        ('a', vec![4, 3, 1, 1, 19]),
        ('a', vec![4, 6, 1, 1, 19, 6, 1, 19]),
        ('a', vec![4, 6, 4, 1, 19, 1, 1, 19]),
        ('a', vec![1, 1, 5]),
        ('a', vec![4, 9, 6, 2, 3, 9, 3, 4, 1, 65, 1, 0, 7, 7]),
    ];
    for (k, s) in &corpus {
        encparse_case(ctx, *k, s);
    }
    let n = ctx.n(4000, 60000);
    for it in 0..n {
        let mut rng = Rng::new(ctx.seed ^ 0xE9C0 ^ it.wrapping_mul(0x9E3779B1));
        let e = match rng.below(3) {
            0 => gen_int_enc(&mut rng, true),
            1 => gen_byte_enc(&mut rng, true),
            _ => gen_arr_enc(&mut rng, true),
        };
        ctx.bump(&format!("encparse-gen:{}", e.label()));
        let mut b = e.ser();
        let kind = if rng.chance(1, 12) { *rng.pick(&['i', 'b', 'a']) } else { e.kind() };
        match rng.below(6) {
            0 => {
                let k = rng.below(b.len() as u64 + 1) as usize;
                b.truncate(k);
            }
            1 => {
                let k = rng.below(b.len() as u64) as usize;
                b[k] = *rng.pick(&[0u8, 1, 0x7f, 0x80, 0xff, 0xf0, 3, 9, 10]);
            }
            2 => {
                let k = 1 + rng.below(3) as usize;
                b.extend(rng.bytes(k));
            }
            _ => {}
        }
        encparse_case(ctx, kind, &b);
    }
}

/// one decode run: encodings, core bytes, external blocks, ops
fn encdec_case(ctx: &mut Ctx, encs: &[E], core: &[u8], ext: &[(i32, Vec<u8>)], ops: &[(usize, Option<usize>)]) -> Option<Vec<Result<ve::Val, String>>> {
    let real: Option<Vec<ve::AnyEncoding>> = encs.iter().map(|e| e.real()).collect();
    let real = real?;
    let encs_s = encs.iter().map(|e| e.req()).collect::<Vec<_>>().join(";");
    let ops_s = ops.iter().map(|(i, t)| match t { Some(n) => format!("{i}/{n}"), None => i.to_string() }).collect::<Vec<_>>().join(",");
    let out = guarded(|| ve::decode_values(&real, core, ext, ops));
    let (ans, vals) = match out {
        Ok((vals, rest)) => {
            let vals: Vec<Result<ve::Val, String>> = vals.into_iter().map(|v| v.map_err(|e| errclass(&e).to_string())).collect();
            let mut s = vals.iter().map(|v| match v { Ok(v) => fmt_val(v), Err(c) => c.clone() }).collect::<Vec<_>>().join(",");
            if s.is_empty() {
                s = "-".into();
            }
            if vals.iter().all(|v| v.is_ok()) {
                s.push_str(" | ");
                s.push_str(&if rest.is_empty() { "-".to_string() } else { rest.iter().map(|(i, n)| format!("{i}={n}")).collect::<Vec<_>>().join(";") });
            }
            (s, Some(vals))
        }
        Err(_) => {
            // a panic loses the values decoded before it: the model reports them, then `panic`
            // (replayed one op at a time to find the prefix that still succeeds)
            let mut prefix: Vec<String> = vec![];
            for k in 0..ops.len() {
                match guarded(|| ve::decode_values(&real, core, ext, &ops[..=k])) {
                    Ok((vals, _)) => prefix = vals.iter().map(|v| match v { Ok(v) => fmt_val(v), Err(e) => errclass(e).to_string() }).collect(),
                    Err(_) => break,
                }
            }
            prefix.push("panic".into());
            (prefix.join(","), None)
        }
    };
    for e in encs {
        ctx.bump(&format!("encdec-enc:{}", e.label()));
    }
    let last = ans.split(" | ").next().unwrap_or("").rsplit(',').next().unwrap_or("").to_string();
    ctx.bump(&format!("encdec:{}", if last.starts_with("err") || last == "panic" { last.as_str() } else { "ok" }));
    ctx.corr(format!("c07 encdec {encs_s} {} {} {ops_s}", hex(core), fmt_ext(ext)), ans);
    vals
}

fn encdec_cases(ctx: &mut Ctx) {
    // corpus: the unit tests of noodles and the boundary shapes
    let nd = E::IntHuff(vec![0x4e, 0x44, 0x4c], vec![1, 2, 2]);
    encdec_case(ctx, &[nd.clone()], &[0b0101_1000], &[], &[(0, None), (0, None), (0, None), (0, None)]);
    encdec_case(ctx, &[E::IntExt(1)], &[0x80], &[(1, vec![0x0d])], &[(0, None), (0, None)]);
    encdec_case(ctx, &[E::IntHuff(vec![0x4e], vec![0])], &[0x80], &[], &[(0, None), (0, None)]);
    encdec_case(ctx, &[E::IntHuff(vec![0x4e], vec![5])], &[], &[], &[(0, None)]);
    encdec_case(ctx, &[E::IntHuff(vec![], vec![])], &[0xff], &[], &[(0, None)]);
    encdec_case(ctx, &[E::IntHuff(vec![1, 2], vec![])], &[0xff], &[], &[(0, None)]);
    encdec_case(ctx, &[E::IntHuff(vec![1, 2], vec![1])], &[0x00], &[], &[(0, None)]);
    encdec_case(ctx, &[E::IntHuff(vec![1, 2], vec![1, 1])], &[0b0100_0000], &[], &[(0, None), (0, None), (0, None)]);
    encdec_case(ctx, &[E::IntHuff(vec![1, 2, 3], vec![1, 1, 1])], &[0b0110_0000], &[], &[(0, None), (0, None), (0, None)]);
    encdec_case(ctx, &[E::IntHuff(vec![7, 7], vec![1, 1])], &[0b0100_0000], &[], &[(0, None), (0, None)]);
    encdec_case(ctx, &[E::IntHuff(vec![1, 2], vec![0, 1])], &[0xff], &[], &[(0, None), (0, None)]);
    encdec_case(ctx, &[E::IntHuff(vec![1, 2], vec![1, 40])], &[0xff, 0xff, 0xff, 0xff, 0xff, 0xff], &[], &[(0, None)]);
    encdec_case(ctx, &[E::IntHuff(vec![1, 2], vec![1, 33])], &[0xff, 0xff, 0xff, 0xff, 0xff, 0xff], &[], &[(0, None)]);
    encdec_case(ctx, &[E::IntHuff(vec![1, 2], vec![1, 32])], &[0xff, 0xff, 0xff, 0xff, 0xff, 0xff], &[], &[(0, None)]);
    encdec_case(ctx, &[E::IntHuff(vec![1, 2, 3], vec![31, 31, 1])], &[0x00, 0, 0, 1, 0xff], &[], &[(0, None), (0, None)]);
    {
        // a complete code with a 31-bit word: `code += 1` after the last symbol overflows i32
        let a: Vec<i32> = (0..32).collect();
        let mut l: Vec<u32> = (1..=31).collect();
        l.push(31);
        encdec_case(ctx, &[E::IntHuff(a, l)], &[0x00], &[], &[(0, None)]);
    }
    encdec_case(ctx, &[E::IntBeta(1, 3)], &[0x80], &[], &[(0, None)]);
    encdec_case(ctx, &[E::IntBeta(0, 0)], &[], &[], &[(0, None), (0, None)]);
    encdec_case(ctx, &[E::IntBeta(0, 32)], &[0xff; 5], &[], &[(0, None)]);
    encdec_case(ctx, &[E::IntBeta(i32::MIN, 31)], &[0xff; 5], &[], &[(0, None)]);
    encdec_case(ctx, &[E::IntBeta(-1, 31)], &[0xff; 5], &[], &[(0, None)]);
    encdec_case(ctx, &[E::IntBeta(5, 9)], &[0xff], &[], &[(0, None)]);
    encdec_case(ctx, &[E::IntGamma(5)], &[0b0001_1010], &[], &[(0, None)]);
    encdec_case(ctx, &[E::IntGamma(0)], &[0x00, 0x00], &[], &[(0, None)]);
    encdec_case(ctx, &[E::IntGamma(0)], &[0, 0, 0, 1, 0xff, 0xff, 0xff, 0xfe], &[], &[(0, None)]);
    encdec_case(ctx, &[E::IntGamma(0)], &[0, 0, 0, 0, 0x80, 0, 0, 0, 0], &[], &[(0, None)]);
    encdec_case(ctx, &[E::IntGamma(1)], &[0, 0, 0, 1, 0, 0, 0, 0], &[], &[(0, None)]);
    encdec_case(ctx, &[E::IntGamma(-1)], &[0, 0, 0, 1, 0xff, 0xff, 0xff, 0xfe], &[], &[(0, None)]);
    encdec_case(ctx, &[E::IntGamma(i32::MIN)], &[0x80], &[], &[(0, None)]);
    encdec_case(ctx, &[E::IntGolomb(0, 2)], &[0xff], &[], &[(0, None)]);
    encdec_case(ctx, &[E::IntSubexp(0, 2)], &[0xff], &[], &[(0, None)]);
    encdec_case(ctx, &[E::IntRice(0, 2)], &[0xff], &[], &[(0, None)]);
    encdec_case(ctx, &[E::IntExt(70)], &[], &[(70, vec![0xff, 0xff, 0xff, 0xff, 0xff, 1])], &[(0, None), (0, None), (0, None)]);
    encdec_case(ctx, &[E::IntExt(2)], &[], &[(1, vec![1])], &[(0, None)]);
    encdec_case(ctx, &[E::IntExt(1)], &[], &[(1, vec![1]), (1, vec![2, 3])], &[(0, None), (0, None), (0, None)]);
    encdec_case(ctx, &[E::ByteExt(1)], &[0x80], &[(1, b"ndls".to_vec())], &[(0, Some(4)), (0, None)]);
    encdec_case(ctx, &[E::ByteExt(1)], &[], &[(1, b"ndls".to_vec())], &[(0, Some(0)), (0, Some(5))]);
    encdec_case(ctx, &[E::ByteExt(9)], &[], &[], &[(0, Some(0)), (0, Some(1))]);
    encdec_case(ctx, &[E::ByteHuff(vec![0x4e], vec![0])], &[], &[], &[(0, Some(4)), (0, None)]);
    encdec_case(ctx, &[E::ByteHuff(vec![0x14e], vec![0])], &[], &[], &[(0, Some(2))]);
    encdec_case(ctx, &[E::ByteHuff(vec![0x4e, -1], vec![1, 1])], &[0b1010_0000], &[], &[(0, Some(3)), (0, None), (0, Some(9))]);
    encdec_case(ctx, &[E::ArrStop(0, 1)], &[], &[(1, b"ab\0c\0".to_vec())], &[(0, None), (0, None), (0, None)]);
    encdec_case(ctx, &[E::ArrStop(0, 1)], &[], &[(1, b"ab".to_vec())], &[(0, None)]);
    encdec_case(ctx, &[E::ArrStop(0, 2)], &[], &[(1, b"ab\0".to_vec())], &[(0, None)]);
    encdec_case(ctx, &[E::ArrLen(Box::new(E::IntExt(1)), Box::new(E::ByteExt(1)))], &[], &[(1, vec![2, 65, 66, 0, 1])], &[(0, None), (0, None), (0, None)]);
    encdec_case(ctx, &[E::ArrLen(Box::new(E::IntExt(1)), Box::new(E::ByteExt(2)))], &[], &[(1, vec![0xff, 0xff, 0xff, 0xff, 0x0f]), (2, vec![1])], &[(0, None)]);
    encdec_case(ctx, &[E::ArrLen(Box::new(E::IntExt(1)), Box::new(E::ByteExt(2)))], &[], &[(1, vec![0])], &[(0, None)]);
    encdec_case(ctx, &[E::ArrLen(Box::new(E::IntBeta(0, 4)), Box::new(E::ByteHuff(vec![65, 66], vec![1, 1])))], &[0b0011_0100], &[], &[(0, None)]);

    let n = ctx.n(4000, 60000);
    for it in 0..n {
        let mut rng = Rng::new(ctx.seed ^ 0xDEC0 ^ it.wrapping_mul(0x9E3779B1));
        spec_decode_case(ctx, &mut rng, it);
    }
}

/// the specification's encoders (written here, not noodles') feed noodles' decoders
fn spec_decode_case(ctx: &mut Ctx, rng: &mut Rng, it: u64) {
    let nenc = 1 + rng.below(3) as usize;
    let mut encs: Vec<E> = vec![];
    for _ in 0..nenc {
        encs.push(match rng.below(3) {
            0 => gen_int_enc(rng, true),
            1 => gen_byte_enc(rng, true),
            _ => gen_arr_enc(rng, true),
        });
    }
    // build streams by encoding values with the specification's encoders; `want` is what must come back
    let mut core = Bits::default();
    let mut ext: Vec<(i32, Vec<u8>)> = vec![];
    let mut ops: Vec<(usize, Option<usize>)> = vec![];
    let mut want: Vec<Option<ve::Val>> = vec![];
    fn put(ext: &mut Vec<(i32, Vec<u8>)>, id: i32, b: &[u8]) {
        if let Some(e) = ext.iter_mut().find(|e| e.0 == id) {
            e.1.extend_from_slice(b);
        } else {
            ext.push((id, b.to_vec()));
        }
    }
    /// encode an integer; None = outside the encoder's range (nothing is emitted)
    fn enc_int(e: &E, v: i32, core: &mut Bits, ext: &mut Vec<(i32, Vec<u8>)>) -> bool {
        match e {
            E::IntExt(id) => {
                put(ext, *id, &itf8(v));
                true
            }
            E::IntHuff(a, l) => {
                if a.len() == 1 {
                    return a[0] == v && l == &vec![0];
                }
                if l.iter().any(|x| *x == 0) || a.len() != l.len() {
                    return false;
                }
                match canonical_code(a, l).iter().find(|c| c.0 == v) {
                    Some(c) => {
                        core.push(c.1, c.2);
                        true
                    }
                    None => false,
                }
            }
            E::IntBeta(o, len) => {
                let x = v as i64 + *o as i64;
                if *len <= 31 && x >= 0 && x < (1i64 << len) {
                    core.push(x as u64, *len);
                    true
                } else {
                    false
                }
            }
            E::IntGamma(o) => {
                let x = v as i64 + *o as i64;
                if x >= 1 && x < (1i64 << 31) {
                    let n = 63 - (x as u64).leading_zeros();
                    core.push(0, n);
                    core.push(1, 1);
                    core.push(x as u64 & ((1u64 << n) - 1), n);
                    true
                } else {
                    false
                }
            }
            _ => false,
        }
    }
    fn pick_int(e: &E, rng: &mut Rng) -> i32 {
        match e {
            E::IntHuff(a, _) if !a.is_empty() => *rng.pick(a),
            E::IntBeta(o, len) if *len <= 31 => {
                let x = if *len == 0 { 0 } else { rng.below(1u64 << len) as i64 };
                (x - *o as i64).clamp(i32::MIN as i64, i32::MAX as i64) as i32
            }
            E::IntGamma(o) => {
                let x = 1 + (rng.next() >> (33 + rng.below(31))) as i64;
                (x - *o as i64).clamp(i32::MIN as i64, i32::MAX as i64) as i32
            }
            _ => edge_i32(rng),
        }
    }
    fn enc_byte(e: &E, v: u8, core: &mut Bits, ext: &mut Vec<(i32, Vec<u8>)>) -> bool {
        match e {
            E::ByteExt(id) => {
                put(ext, *id, &[v]);
                true
            }
            E::ByteHuff(a, l) => {
                if a.len() == 1 {
                    return a[0] as u8 == v && l == &vec![0];
                }
                if l.iter().any(|x| *x == 0) {
                    return false;
                }
                match canonical_code(a, l).iter().find(|c| c.0 as u8 == v) {
                    Some(c) if a.iter().filter(|s| **s as u8 == v).count() == 1 => {
                        core.push(c.1, c.2);
                        true
                    }
                    _ => false,
                }
            }
            _ => false,
        }
    }
    let nops = 1 + rng.below(8) as usize;
    let mut spec_ok = true;
    for _ in 0..nops {
        let i = rng.below(encs.len() as u64) as usize;
        let e = encs[i].clone();
        match &e {
            E::ByteExt(_) | E::ByteHuff(..) => {
                let pick = |rng: &mut Rng| match &e {
                    E::ByteHuff(a, _) if !a.is_empty() => *rng.pick(a) as u8,
                    _ => rng.next() as u8,
                };
                if rng.chance(1, 2) {
                    let v = pick(rng);
                    let ok = enc_byte(&e, v, &mut core, &mut ext);
                    ops.push((i, None));
                    want.push(if ok { Some(ve::Val::Byte(v)) } else { None });
                    spec_ok &= ok;
                } else {
                    let n = rng.below(5) as usize;
                    let vs: Vec<u8> = (0..n).map(|_| pick(rng)).collect();
                    let ok = vs.iter().all(|v| enc_byte(&e, *v, &mut core, &mut ext));
                    ops.push((i, Some(n)));
                    want.push(if ok { Some(ve::Val::Bytes(vs)) } else { None });
                    spec_ok &= ok;
                }
            }
            E::ArrStop(sb, id) => {
                let n = rng.below(6) as usize;
                let keep = rng.chance(1, 20);
                let vs: Vec<u8> = (0..n).map(|_| rng.next() as u8).filter(|b| b != sb || keep).collect();
                let ok = !vs.contains(sb);
                put(&mut ext, *id, &vs);
                put(&mut ext, *id, &[*sb]);
                ops.push((i, None));
                want.push(if ok { Some(ve::Val::Bytes(vs)) } else { None });
                spec_ok &= ok;
            }
            E::ArrLen(l, v) => {
                let n = rng.below(6) as usize;
                let pick = |rng: &mut Rng| match &**v {
                    E::ByteHuff(a, _) if !a.is_empty() => *rng.pick(a) as u8,
                    _ => rng.next() as u8,
                };
                let vs: Vec<u8> = (0..n).map(|_| pick(rng)).collect();
                let ok = enc_int(l, n as i32, &mut core, &mut ext) && vs.iter().all(|b| enc_byte(v, *b, &mut core, &mut ext));
                ops.push((i, None));
                want.push(if ok { Some(ve::Val::Bytes(vs)) } else { None });
                spec_ok &= ok;
            }
            _ => {
                let v = pick_int(&e, rng);
                let ok = enc_int(&e, v, &mut core, &mut ext);
                ops.push((i, None));
                want.push(if ok { Some(ve::Val::Int(v)) } else { None });
                spec_ok &= ok;
            }
        }
        if !spec_ok {
            break; // the streams are out of step from here on
        }
    }
    let mut core_bytes = core.bytes();
    match rng.below(8) {
        0 => core_bytes.extend(rng.bytes(2)),
        1 if !core_bytes.is_empty() => {
            core_bytes.pop();
        }
        _ => {}
    }
    let truncated = core_bytes.len() < core.bytes().len();
    if rng.chance(1, 10) {
        ops.push((rng.below(encs.len() as u64) as usize, if rng.chance(1, 2) { Some(rng.below(4) as usize) } else { None }));
        want.push(None);
    }
    let got = encdec_case(ctx, &encs, &core_bytes, &ext, &ops);
    // oracle: every value produced by a specification encoder inside the codec's range comes back
    if let (Some(got), false) = (got, truncated) {
        ctx.eval(if ops.len() >= 2 { Some(it ^ 0xDEC0DE) } else { None });
        for (k, w) in want.iter().enumerate() {
            let Some(w) = w else { break };
            let cls = format!("enc-decode-{}", encs[ops[k].0].label());
            match got.get(k) {
                Some(Ok(v)) if v == w => ctx.bump(&format!("spec-roundtrip:{}", encs[ops[k].0].label())),
                other => {
                    ctx.fail(&cls, format!("op {k}: the specification's encoding of {} under {:?} decodes to {:?}", fmt_val(w), encs[ops[k].0], other.map(|r| r.as_ref().map(fmt_val))), format!("encdec {}", ctx.seed ^ 0xDEC0 ^ it.wrapping_mul(0x9E3779B1)));
                    break;
                }
            }
        }
    }
}

/// noodles' own encoders, then its decoders
fn encenc_cases(ctx: &mut Ctx) {
    let n = ctx.n(2500, 40000);
    for it in 0..n + 6 {
        let mut rng = Rng::new(ctx.seed ^ 0xE2C0 ^ it.wrapping_mul(0x9E3779B1));
        let mut encs: Vec<E> = vec![];
        let core_ok = rng.chance(1, 6) || it < 6; // mostly the encodings the writer implements
        for _ in 0..1 + rng.below(4) {
            encs.push(match rng.below(3) {
                0 => gen_int_enc(&mut rng, core_ok),
                1 => gen_byte_enc(&mut rng, core_ok),
                _ => gen_arr_enc(&mut rng, core_ok),
            });
        }
        let mut ids: Vec<i32> = vec![];
        fn collect(e: &E, ids: &mut Vec<i32>) {
            match e {
                E::IntExt(i) | E::ByteExt(i) | E::ArrStop(_, i) => ids.push(*i),
                E::ArrLen(a, b) => {
                    collect(a, ids);
                    collect(b, ids);
                }
                _ => {}
            }
        }
        for e in &encs {
            collect(e, &mut ids);
        }
        if rng.chance(1, 12) && !ids.is_empty() {
            let k = rng.below(ids.len() as u64) as usize;
            let gone = ids[k];
            ids.retain(|i| *i != gone); // a missing external block
        }
        let mut ops: Vec<(usize, ve::Val)> = vec![];
        for _ in 0..1 + rng.below(8) {
            let i = rng.below(encs.len() as u64) as usize;
            let v = match &encs[i] {
                E::ByteExt(_) | E::ByteHuff(..) => {
                    if rng.chance(1, 2) { ve::Val::Byte(rng.next() as u8) } else { let k = rng.below(5) as usize; ve::Val::Bytes(rng.bytes(k)) }
                }
                E::ArrStop(sb, _) => {
                    let sb = *sb;
                    { let k = rng.below(6) as usize; ve::Val::Bytes(rng.bytes(k).into_iter().filter(|b| *b != sb).collect()) }
                }
                E::ArrLen(..) => { let k = rng.below(6) as usize; ve::Val::Bytes(rng.bytes(k)) }
                _ => ve::Val::Int(edge_i32(&mut rng)),
            };
            ops.push((i, v));
        }
        let Some(real) = encs.iter().map(|e| e.real()).collect::<Option<Vec<_>>>() else { continue };
        let r = res_class(guarded(|| ve::encode_values(&real, &ids, &ops)));
        let encs_s = encs.iter().map(|e| e.req()).collect::<Vec<_>>().join(";");
        let ids_s = if ids.is_empty() { "-".to_string() } else { ids.iter().map(|i| i.to_string()).collect::<Vec<_>>().join(",") };
        let ops_s = ops.iter().map(|(i, v)| format!("{i}:{}", fmt_val(v))).collect::<Vec<_>>().join(",");
        ctx.corr(format!("c07 encenc {encs_s} {ids_s} {ops_s}"), match &r { Ok((c, e)) => format!("{} {}", hex(c), fmt_ext(e)), Err(c) => c.clone() });
        ctx.bump(&format!("encenc:{}", match &r { Ok(_) => "ok", Err(c) => c.as_str() }));
        for (i, _) in &ops {
            ctx.bump(&format!("encenc-enc:{}", encs[*i].label()));
        }
        // oracle: decode ∘ encode = id
        if let Ok((core, ext)) = r {
            ctx.eval(if ops.len() >= 2 { Some(it ^ 0xE2C0DE) } else { None });
            let dops: Vec<(usize, Option<usize>)> = ops.iter().map(|(i, v)| (*i, match (&encs[*i], v) { (E::ByteExt(_) | E::ByteHuff(..), ve::Val::Bytes(b)) => Some(b.len()), _ => None })).collect();
            let blocks: Vec<(i32, Vec<u8>)> = ext.into_iter().filter(|(_, b)| !b.is_empty()).collect();
            let got = encdec_case(ctx, &encs, &core, &blocks, &dops);
            let same = match &got {
                Some(g) => g.len() == ops.len() && g.iter().zip(&ops).all(|(a, (_, b))| a.as_ref().ok() == Some(b)),
                None => false,
            };
            if !same {
                ctx.fail("enc-roundtrip", format!("decode(encode(values)) differs: wrote {ops_s} with {encs_s}, read {:?}", got.map(|g| g.iter().map(|v| v.as_ref().map(fmt_val).map_err(|e| e.clone())).collect::<Vec<_>>())), format!("encenc {}", it));
            }
        }
    }
}

// ------------------------------------------------------------------------------- compression header

const SERIES: [(&str, char); 28] = [
    ("BF", 'i'), ("CF", 'i'), ("RI", 'i'), ("RL", 'i'), ("AP", 'i'), ("RG", 'i'), ("RN", 'a'), ("MF", 'i'), ("NS", 'i'), ("NP", 'i'),
    ("TS", 'i'), ("NF", 'i'), ("TL", 'i'), ("FN", 'i'), ("FC", 'b'), ("FP", 'i'), ("DL", 'i'), ("BB", 'a'), ("QQ", 'a'), ("BS", 'b'),
    ("IN", 'a'), ("RS", 'i'), ("PD", 'i'), ("HC", 'i'), ("SC", 'a'), ("MQ", 'i'), ("BA", 'b'), ("QS", 'b'),
];

#[derive(Clone, Debug)]
struct Hdr {
    rn: bool,
    ap: bool,
    rr: bool,
    /// for reference base A,C,G,T,N the read base letters of codes 0..3
    sm: [[u8; 4]; 5],
    td: Vec<Vec<[u8; 3]>>,
    /// (series index, encoding), in file order
    series: Vec<(usize, E)>,
    tags: Vec<(i32, E)>,
}

const DEFAULT_SM: [[u8; 4]; 5] = [*b"CGTN", *b"AGTN", *b"ACTN", *b"ACGN", *b"ACGT"];

fn array(b: Vec<u8>) -> Vec<u8> {
    let mut v = itf8(b.len() as i32);
    v.extend(b);
    v
}

impl Hdr {
    /// `DataSeriesEncodings::init()` with the given tag keys
    fn init(rn: bool, ap: bool, td: Vec<Vec<[u8; 3]>>) -> Hdr {
        let series = (0..28)
            .map(|i| {
                let id = i as i32 + 1;
                let e = match SERIES[i] {
                    ("QQ", _) => E::ArrLen(Box::new(E::IntExt(id)), Box::new(E::ByteExt(id))),
                    (_, 'a') => E::ArrStop(0, id),
                    (_, 'b') => E::ByteExt(id),
                    _ => E::IntExt(id),
                };
                (i, e)
            })
            .collect();
        let mut tags: Vec<(i32, E)> = vec![];
        for set in &td {
            for k in set {
                let id = key_id(k);
                if !tags.iter().any(|t| t.0 == id) {
                    tags.push((id, E::ArrLen(Box::new(E::IntExt(id)), Box::new(E::ByteExt(id)))));
                }
            }
        }
        Hdr { rn, ap, rr: true, sm: DEFAULT_SM, td, series, tags }
    }
    fn ser(&self) -> Vec<u8> {
        let mut pm = itf8(5);
        pm.extend(b"RN");
        pm.push(self.rn as u8);
        pm.extend(b"AP");
        pm.push(self.ap as u8);
        pm.extend(b"RR");
        pm.push(self.rr as u8);
        pm.extend(b"SM");
        for (r, row) in self.sm.iter().enumerate() {
            let mut code = 0u8;
            for (k, b) in DEFAULT_SM[r].iter().enumerate() {
                let pos = row.iter().position(|x| x == b).unwrap_or(0) as u8;
                code |= pos << (6 - 2 * k);
            }
            pm.push(code);
        }
        pm.extend(b"TD");
        let mut td = vec![];
        for set in &self.td {
            for k in set {
                td.extend(k);
            }
            td.push(0);
        }
        pm.extend(array(td));
        let mut out = array(pm);
        let mut ds = itf8(self.series.len() as i32);
        for (i, e) in &self.series {
            ds.extend(SERIES[*i].0.as_bytes());
            ds.extend(e.ser());
        }
        out.extend(array(ds));
        let mut te = itf8(self.tags.len() as i32);
        for (id, e) in &self.tags {
            te.extend(itf8(*id));
            te.extend(e.ser());
        }
        out.extend(array(te));
        out
    }
    fn enc(&self, key: &str) -> Option<&E> {
        self.series.iter().rev().find(|(i, _)| SERIES[*i].0 == key).map(|x| &x.1)
    }
    fn all_ids(&self) -> Vec<i32> {
        fn collect(e: &E, ids: &mut Vec<i32>) {
            match e {
                E::IntExt(i) | E::ByteExt(i) | E::ArrStop(_, i) => ids.push(*i),
                E::ArrLen(a, b) => {
                    collect(a, ids);
                    collect(b, ids);
                }
                _ => {}
            }
        }
        let mut ids = vec![];
        for (_, e) in &self.series {
            collect(e, &mut ids);
        }
        for (_, e) in &self.tags {
            collect(e, &mut ids);
        }
        ids.sort();
        ids.dedup();
        ids
    }
}

fn key_id(k: &[u8; 3]) -> i32 {
    ((k[0] as i32) << 16) | ((k[1] as i32) << 8) | k[2] as i32
}

fn fmt_fields(f: &ve::CompressionHeaderFields) -> String {
    let sm: String = f.substitution_matrix.chars().filter(|c| "ACGTN".contains(*c)).collect();
    let td = if f.tag_sets.is_empty() {
        "~".to_string()
    } else {
        f.tag_sets.iter().map(|s| if s.is_empty() { "-".to_string() } else { s.iter().map(|k| hex(k)).collect::<Vec<_>>().join(".") }).collect::<Vec<_>>().join("/")
    };
    let te = if f.tag_encodings.is_empty() { "-".to_string() } else { f.tag_encodings.iter().map(|(i, e)| format!("{i}:{e}")).collect::<Vec<_>>().join(";") };
    // `SubstitutionMatrix(…)` prints a tuple struct: keep only the base letters after the type name
    let sm = sm.strip_prefix("SM").map(|s| s.to_string()).unwrap_or(sm);
    format!("rn={} ap={} rr={} sm={sm} td={td} dse={} te={te}", f.records_have_names as u8, f.alignment_starts_are_deltas as u8, f.external_reference_sequence_is_required as u8, f.data_series_encodings)
}

fn chparse_case(ctx: &mut Ctx, src: &[u8], origin: &str) {
    let r = res_class(guarded(|| ve::read_compression_header(src)));
    let ans = match &r { Ok(h) => fmt_fields(&ve::compression_header_fields(h)), Err(c) => c.clone() };
    ctx.bump(&format!("chparse-{origin}:{}", match &r { Ok(_) => "ok", Err(c) => c.as_str() }));
    ctx.corr(format!("c07 chparse {}", hex(src)), ans);
    if let Ok(h) = &r {
        let f = ve::compression_header_fields(h);
        ctx.eval(Some(fnv(src)));
        let w = res_class(guarded(|| ve::write_compression_header(h)));
        // byte identity can only be asked for when the hash map has at most one entry
        if f.tag_encodings.len() <= 1 {
            ctx.corr(format!("c07 chwrite {}", hex(src)), match &w { Ok(b) => hex(b), Err(c) => c.clone() });
        }
        // oracle: a header that parses is written and re-parses to the same header. The five bytes of the
        // substitution matrix can name one code twice (then a row repeats a base and cannot be written back):
        // only matrices whose rows list four different bases are judged
        let letters: Vec<u8> = f.substitution_matrix.bytes().filter(|c| b"ACGTN".contains(c)).collect();
        let rows_ok = letters.len() == 20 && letters.chunks(4).all(|r| (0..4).all(|i| (0..i).all(|j| r[i] != r[j])));
        if !rows_ok {
            ctx.bump("chparse:matrix-row-repeats-a-base");
            return;
        }
        match &w {
            Ok(b) => match res_class(guarded(|| ve::read_compression_header(b))) {
                Ok(h2) if ve::compression_header_fields(&h2) == f => {}
                Ok(h2) => ctx.fail("ch-roundtrip", format!("compression header re-parses differently: {} vs {}", fmt_fields(&f), fmt_fields(&ve::compression_header_fields(&h2))), format!("chparse {}", hex(src))),
                Err(c) => ctx.fail("ch-roundtrip", format!("the written compression header {} does not parse: {c}", hex(b)), format!("chparse {}", hex(src))),
            },
            Err(c) => ctx.fail("ch-roundtrip", format!("a parsed compression header cannot be written: {c}"), format!("chparse {}", hex(src))),
        }
    }
}

fn gen_keys(rng: &mut Rng) -> Vec<Vec<[u8; 3]>> {
    let pool: [[u8; 3]; 8] = [*b"NHC", *b"COZ", *b"XAA", *b"XBB", *b"NMi", *b"XSs", *b"XFf", *b"XHH"];
    (0..rng.below(4))
        .map(|_| {
            let mut set: Vec<[u8; 3]> = vec![];
            for _ in 0..rng.below(4) {
                let k = *rng.pick(&pool);
                if !set.iter().any(|x| x[..2] == k[..2]) {
                    set.push(k);
                }
            }
            set
        })
        .collect()
}

fn gen_hdr(rng: &mut Rng, hostile: bool) -> Hdr {
    let mut h = Hdr::init(rng.chance(1, 2), rng.chance(1, 2), gen_keys(rng));
    h.rr = rng.chance(3, 4);
    if rng.chance(1, 3) {
        for r in 0..5 {
            let mut row = DEFAULT_SM[r];
            for i in (1..4).rev() {
                row.swap(i, rng.below(i as u64 + 1) as usize);
            }
            h.sm[r] = row;
        }
    }
    // content ids: own / all in one block / arbitrary
    let style = rng.below(4);
    for (i, e) in h.series.iter_mut() {
        let id = match style {
            0 => *i as i32 + 1,
            1 => 1,
            2 => gen_id(rng),
            _ => if rng.chance(1, 4) { gen_id(rng) } else { *i as i32 + 1 },
        };
        *e = match SERIES[*i].1 {
            'a' => match rng.below(3) {
                0 => E::ArrStop(*rng.pick(&[0u8, 9]), id),
                1 => E::ArrLen(Box::new(E::IntExt(id)), Box::new(E::ByteExt(id))),
                _ => E::ArrLen(Box::new(E::IntExt(gen_id(rng))), Box::new(E::ByteExt(id))),
            },
            'b' => E::ByteExt(id),
            _ => E::IntExt(id),
        };
    }
    for (id, e) in h.tags.iter_mut() {
        if rng.chance(1, 4) {
            *e = E::ArrStop(9, *id);
        }
    }
    if hostile {
        // core-data codecs (decoder only), dropped series, duplicate / legacy / unknown keys
        for _ in 0..1 + rng.below(4) {
            let k = rng.below(h.series.len() as u64) as usize;
            let i = h.series[k].0;
            h.series[k].1 = match SERIES[i].1 {
                'a' => gen_arr_enc(rng, true),
                'b' => {
                    // never a zero-bit byte code: `decode_take` would loop over a hostile length
                    match gen_byte_enc(rng, true) {
                        E::ByteHuff(a, l) if a.len() == 1 || l.iter().any(|x| *x == 0) => E::ByteExt(gen_id(rng)),
                        e => e,
                    }
                }
                _ => match gen_int_enc(rng, true) {
                    E::IntHuff(a, l) if a.len() == 1 => E::IntHuff(vec![a[0].rem_euclid(40)], l),
                    e => e,
                },
            };
        }
        if rng.chance(1, 4) {
            let k = rng.below(h.series.len() as u64) as usize;
            h.series.remove(k);
        }
        if rng.chance(1, 6) {
            let k = rng.below(h.series.len() as u64) as usize;
            let dup = h.series[k].clone();
            h.series.push(dup);
        }
    }
    h
}

fn chparse_cases(ctx: &mut Ctx) {
    let base = Hdr::init(true, true, vec![vec![], vec![*b"NHC", *b"COZ"]]);
    let b = base.ser();
    chparse_case(ctx, &b, "corpus");
    chparse_case(ctx, &Hdr::init(false, false, vec![]).ser(), "corpus");
    chparse_case(ctx, &[], "corpus");
    // the unit test of the preservation map reader, then empty maps
    let mut t: Vec<u8> = vec![0x18, 0x05, b'R', b'N', 0, b'A', b'P', 0, b'R', b'R', 0, b'S', b'M', 0x1b, 0x1b, 0x1b, 0x1b, 0x1b, b'T', b'D', 4, b'C', b'O', b'Z', 0];
    t.extend([1, 0, 1, 0]);
    chparse_case(ctx, &t, "corpus");
    // missing SM / TD, bad bool, unknown key, legacy TC/TN, unknown series, duplicate tag id, tag set with a partial key / bad type
    let pm = |entries: &[&[u8]]| -> Vec<u8> {
        let mut m = itf8(entries.len() as i32);
        for e in entries {
            m.extend(*e);
        }
        let mut v = array(m);
        v.extend([1, 0, 1, 0]);
        v
    };
    chparse_case(ctx, &pm(&[b"TD\x00"]), "corpus");
    chparse_case(ctx, &pm(&[b"SM\x1b\x1b\x1b\x1b\x1b"]), "corpus");
    chparse_case(ctx, &pm(&[b"SM\x1b\x1b\x1b\x1b\x1b", b"TD\x00", b"RN\x02"]), "corpus");
    chparse_case(ctx, &pm(&[b"SM\x1b\x1b\x1b\x1b\x1b", b"TD\x00", b"XX\x00"]), "corpus");
    chparse_case(ctx, &pm(&[b"SM\x00\xff\x55\xaa\x1b", b"TD\x00", b"RN\x01", b"RN\x00"]), "corpus");
    chparse_case(ctx, &pm(&[b"SM\x1b\x1b\x1b\x1b", b"TD\x00"]), "corpus");
    chparse_case(ctx, &pm(&[b"SM\x1b\x1b\x1b\x1b\x1b", b"TD\x09NHC\x00COZX\x00ab"]), "corpus");
    chparse_case(ctx, &pm(&[b"SM\x1b\x1b\x1b\x1b\x1b", b"TD\x04NHq\x00"]), "corpus");
    let with_series = |ds: &[u8], te: &[u8]| -> Vec<u8> {
        let mut v = array({
            let mut m = itf8(2);
            m.extend(b"SM\x1b\x1b\x1b\x1b\x1bTD\x00");
            m
        });
        v.extend(array(ds.to_vec()));
        v.extend(array(te.to_vec()));
        v
    };
    chparse_case(ctx, &with_series(&[2, b'T', b'C', 1, 1, 5, b'T', b'N', 9, 0], &[0]), "corpus");
    chparse_case(ctx, &with_series(&[1, b'T', b'C', 10, 0], &[0]), "corpus");
    chparse_case(ctx, &with_series(&[1, b'Z', b'Z', 1, 1, 5], &[0]), "corpus");
    chparse_case(ctx, &with_series(&[1, b'B', b'F', 5, 2, 0, 7], &[0]), "corpus");
    chparse_case(ctx, &with_series(&[1, b'R', b'N', 1, 1, 7], &[0]), "corpus");
    chparse_case(ctx, &with_series(&[2, b'B', b'F', 1, 1, 1, b'B', b'F', 1, 1, 2], &[0]), "corpus");
    chparse_case(ctx, &with_series(&[3, b'B', b'F', 1, 1, 1], &[0]), "corpus");
    chparse_case(ctx, &with_series(&[0], &[2, 5, 5, 2, 0, 5, 5, 5, 2, 9, 5]), "corpus");
    chparse_case(ctx, &with_series(&[0], &[1, 5, 1, 1, 5]), "corpus");
    chparse_case(ctx, &with_series(&[0], &[0xff, 0xff, 0xff, 0xff, 0x0f]), "corpus");
    let n = ctx.n(1200, 20000);
    for it in 0..n {
        let mut rng = Rng::new(ctx.seed ^ 0xC4D0 ^ it.wrapping_mul(0x9E3779B1));
        let hostile = rng.chance(1, 2);
        let h = gen_hdr(&mut rng, hostile);
        let mut b = h.ser();
        let origin = match rng.below(6) {
            0 => {
                let k = rng.below(b.len() as u64 + 1) as usize;
                b.truncate(k);
                "truncated"
            }
            1 => {
                let k = rng.below(b.len() as u64) as usize;
                b[k] = *rng.pick(&[0u8, 1, 2, 5, 0x7f, 0x80, 0xff, b'T', b'C', b'N']);
                "mutated"
            }
            _ => "generated",
        };
        chparse_case(ctx, &b, origin);
    }
}

// -------------------------------------------------------------------------------------- record codec

fn opt_s(o: Option<usize>) -> String {
    o.map(|v| v.to_string()).unwrap_or_else(|| "~".into())
}

fn fmt_feature(f: &ve::VFeature) -> String {
    use ve::VFeature as F;
    match f {
        F::Bases { position, bases } => format!("b{position}:{}", hex(bases)),
        F::Scores { position, quality_scores } => format!("q{position}:{}", hex(quality_scores)),
        F::ReadBase { position, base, quality_score } => format!("B{position}:{base}:{quality_score}"),
        F::Substitution { position, code } => format!("X{position}:{code}"),
        F::Insertion { position, bases } => format!("I{position}:{}", hex(bases)),
        F::Deletion { position, len } => format!("D{position}:{len}"),
        F::InsertBase { position, base } => format!("i{position}:{base}"),
        F::QualityScore { position, quality_score } => format!("Q{position}:{quality_score}"),
        F::ReferenceSkip { position, len } => format!("N{position}:{len}"),
        F::SoftClip { position, bases } => format!("S{position}:{}", hex(bases)),
        F::Padding { position, len } => format!("P{position}:{len}"),
        F::HardClip { position, len } => format!("H{position}:{len}"),
    }
}

fn feature_pos(f: &ve::VFeature) -> usize {
    use ve::VFeature as F;
    match f {
        F::Bases { position, .. } | F::Scores { position, .. } | F::ReadBase { position, .. } | F::Substitution { position, .. } | F::Insertion { position, .. } | F::Deletion { position, .. } | F::InsertBase { position, .. } | F::QualityScore { position, .. } | F::ReferenceSkip { position, .. } | F::SoftClip { position, .. } | F::Padding { position, .. } | F::HardClip { position, .. } => *position,
    }
}

/// the harness's view of a record: the hook's `VRecord` with tag values as (tag, type, BAM bytes)
#[derive(Clone, Debug, PartialEq)]
struct R {
    v: ve::VRecord,
    tags: Vec<([u8; 2], u8, Vec<u8>)>,
}

fn fmt_rec(v: &ve::VRecord, tags: &[([u8; 2], u8, Vec<u8>)]) -> String {
    let data = if tags.is_empty() { "-".to_string() } else { tags.iter().map(|(t, ty, b)| format!("{}.{}.{}", hex(t), hex(&[*ty]), hex(b))).collect::<Vec<_>>().join("+") };
    let feats = if v.features.is_empty() { "-".to_string() } else { v.features.iter().map(fmt_feature).collect::<Vec<_>>().join("+") };
    [
        v.bam_flags.to_string(),
        v.cram_flags.to_string(),
        opt_s(v.reference_sequence_id),
        v.read_length.to_string(),
        opt_s(v.alignment_start),
        opt_s(v.read_group_id),
        v.name.as_ref().map(|n| hex(n)).unwrap_or_else(|| "~".into()),
        v.mate_flags.to_string(),
        opt_s(v.mate_reference_sequence_id),
        opt_s(v.mate_alignment_start),
        v.template_length.to_string(),
        opt_s(v.mate_distance),
        data,
        feats,
        v.mapping_quality.map(|q| q.to_string()).unwrap_or_else(|| "~".into()),
        hex(&v.sequence),
        hex(&v.quality_scores),
    ]
    .join(",")
}

fn fmt_recs_in(rs: &[R]) -> String {
    if rs.is_empty() { "-".into() } else { rs.iter().map(|r| fmt_rec(&r.v, &r.tags)).collect::<Vec<_>>().join(";") }
}

fn fmt_recs_out(rs: &[ve::VRecord]) -> String {
    if rs.is_empty() { "-".into() } else { rs.iter().map(|r| fmt_rec(r, &r.encoded_data)).collect::<Vec<_>>().join(";") }
}

fn sam_type(ty: u8) -> Option<sam::alignment::record::data::field::Type> {
    use sam::alignment::record::data::field::Type as T;
    Some(match ty {
        b'A' => T::Character,
        b'c' => T::Int8,
        b'C' => T::UInt8,
        b's' => T::Int16,
        b'S' => T::UInt16,
        b'i' => T::Int32,
        b'I' => T::UInt32,
        b'f' => T::Float,
        b'Z' => T::String,
        b'H' => T::Hex,
        b'B' => T::Array,
        _ => return None,
    })
}

/// a valid BAM-encoded value of the type
fn gen_value(rng: &mut Rng, ty: u8, avoid: u8) -> Vec<u8> {
    let byte = |rng: &mut Rng| loop {
        let b = rng.next() as u8;
        if b != avoid {
            return b;
        }
    };
    match ty {
        b'A' => vec![b'!' + rng.below(90) as u8],
        b'c' | b'C' => vec![byte(rng)],
        b's' | b'S' => vec![byte(rng), byte(rng)],
        b'i' | b'I' => (0..4).map(|_| byte(rng)).collect(),
        b'f' => vec![byte(rng), byte(rng), 0x80 | rng.below(64) as u8, 0x3f],
        b'Z' => {
            let mut v: Vec<u8> = (0..rng.below(6)).map(|_| b' ' + rng.below(94) as u8).filter(|b| *b != avoid).collect();
            v.push(0);
            v
        }
        b'H' => {
            let mut v: Vec<u8> = (0..2 * rng.below(4)).map(|_| *rng.pick(b"0123456789ABCDEF")).collect();
            v.push(0);
            v
        }
        _ => {
            let (sub, size) = *rng.pick(&[(b'c', 1usize), (b'C', 1), (b's', 2), (b'S', 2), (b'i', 4), (b'I', 4)]);
            let n = rng.below(4) as usize;
            let mut v = vec![sub];
            v.extend((n as u32).to_le_bytes());
            v.extend((0..n * size).map(|_| byte(rng)));
            v
        }
    }
}

fn to_vrecord(r: &R) -> Option<ve::VRecord> {
    let mut v = r.v.clone();
    v.data.clear();
    for (t, ty, b) in &r.tags {
        let mut src = &b[..];
        let val = noodles_bam::record::codec::decoder::data::field::read_value(&mut src, sam_type(*ty)?).ok()?;
        v.data.push((*t, val));
    }
    Some(v)
}

/// feature list accepted by `validate_features`: positions do not decrease, base-carrying features do not
/// overlap and end inside the read, score-carrying ones likewise
fn gen_features(rng: &mut Rng, rl: usize, lo: u8) -> Vec<ve::VFeature> {
    use ve::VFeature as F;
    let mut out = vec![];
    let (mut cur, mut rp, mut qp) = (1usize, 1usize, 1usize);
    let bytes = |rng: &mut Rng, n: usize| -> Vec<u8> { (0..n).map(|_| lo + rng.below(256 - lo as u64) as u8).collect() };
    for _ in 0..rng.below(9) {
        let kind = rng.below(12);
        let is_base = matches!(kind, 0 | 2 | 3 | 4 | 6 | 9);
        let is_score = matches!(kind, 1 | 2 | 7);
        let mut p = cur + if rng.chance(1, 3) { 0 } else { rng.below(4) as usize };
        if is_base || matches!(kind, 5 | 8 | 10 | 11) {
            p = p.max(rp);
        }
        if is_score {
            p = p.max(qp);
        }
        let room = (rl + 1).saturating_sub(p); // positions p..=rl
        let n = match kind {
            0 | 4 | 9 | 1 => {
                if room == 0 {
                    if matches!(kind, 1) { continue }
                    0
                } else {
                    rng.below(room.min(4) as u64 + 1) as usize
                }
            }
            2 | 3 | 6 | 7 => {
                if room == 0 {
                    continue;
                }
                1
            }
            _ => 0,
        };
        if p > rl + 1 {
            continue;
        }
        let f = match kind {
            0 => F::Bases { position: p, bases: bytes(rng, n) },
            1 => F::Scores { position: p, quality_scores: bytes(rng, n) },
            2 => F::ReadBase { position: p, base: rng.next() as u8, quality_score: rng.next() as u8 },
            3 => F::Substitution { position: p, code: rng.below(4) as u8 },
            4 => F::Insertion { position: p, bases: bytes(rng, n) },
            5 => F::Deletion { position: p, len: gen_len(rng) },
            6 => F::InsertBase { position: p, base: rng.next() as u8 },
            7 => F::QualityScore { position: p, quality_score: rng.next() as u8 },
            8 => F::ReferenceSkip { position: p, len: gen_len(rng) },
            9 => F::SoftClip { position: p, bases: bytes(rng, n) },
            10 => F::Padding { position: p, len: gen_len(rng) },
            _ => F::HardClip { position: p, len: gen_len(rng) },
        };
        if is_base {
            rp = p + n;
        } else if matches!(kind, 5 | 8 | 10 | 11) {
            rp = p;
        }
        if is_score && n > 0 {
            qp = p + n;
        }
        cur = p;
        out.push(f);
    }
    out
}

fn gen_len(rng: &mut Rng) -> usize {
    match rng.below(8) {
        0 => 0,
        1 => (1 << 31) - 1,
        2 => 100_000 + rng.below(1 << 20) as usize,
        _ => 1 + rng.below(60) as usize,
    }
}

fn gen_pos(rng: &mut Rng) -> Option<usize> {
    match rng.below(10) {
        0 => None,
        1 => Some((1 << 31) - 1 - rng.below(3) as usize),
        2 => Some(1),
        3 => Some(16384 + rng.below(3) as usize),
        _ => Some(1 + rng.below(5000) as usize),
    }
}

const KEYS: [[u8; 3]; 11] = [*b"NHC", *b"COZ", *b"XAA", *b"XBB", *b"NMi", *b"XSs", *b"XFf", *b"XHH", *b"XcC", *b"XIi", *b"XIc"];

struct Slice {
    hdr: Hdr,
    ctx: (i32, usize, usize),
    ids: Vec<i32>,
    recs: Vec<R>,
    /// every record is of the shape the writer produces (`WF` of the Lean statement)
    wf: bool,
    why: &'static str,
}

fn gen_slice(rng: &mut Rng) -> Slice {
    let mut hdr = gen_hdr(rng, false);
    let stops: Vec<u8> = vec![0, 9];
    let lo = 10u8; // array bytes avoid every stop byte in use
    let n = 1 + rng.below(6) as usize;
    let same_ref = rng.chance(1, 2);
    let base_ref = rng.below(3) as usize;
    let mut recs: Vec<R> = vec![];
    let mut sets: Vec<Vec<[u8; 3]>> = hdr.td.clone();
    for i in 0..n {
        let unmapped = rng.chance(1, 4);
        let mut bf = (rng.next() as u16) & 0x0fff;
        bf = if unmapped { bf | 4 } else { bf & !4 };
        let detached = rng.chance(1, 2);
        let downstream = !detached && rng.chance(1, 2);
        let mut cf = 0u8;
        if rng.chance(5, 6) {
            cf |= 1;
        }
        if detached {
            cf |= 2;
        }
        if downstream {
            cf |= 4;
        }
        if rng.chance(1, 6) {
            cf |= 8;
        }
        let rl = match rng.below(8) {
            0 => 0,
            1 => 1,
            _ => 1 + rng.below(40) as usize,
        };
        let rid = if rng.chance(1, 8) { None } else if same_ref { Some(base_ref) } else { Some(rng.below(3) as usize) };
        let name = match rng.below(8) {
            0 => None,
            1 => Some(vec![]),
            2 => Some(b"**".to_vec()),
            _ => Some((0..1 + rng.below(8)).map(|_| b'!' + rng.below(90) as u8).collect::<Vec<u8>>()),
        };
        let name = name.filter(|n| n != b"*");
        // tags: a key list from the pool (distinct tags), values of the key's type
        let mut tags: Vec<([u8; 2], u8, Vec<u8>)> = vec![];
        if rng.chance(2, 3) {
            for _ in 0..rng.below(4) {
                let k = *rng.pick(&KEYS);
                if !tags.iter().any(|t| t.0 == [k[0], k[1]]) {
                    tags.push(([k[0], k[1]], k[2], gen_value(rng, k[2], 9)));
                }
            }
        }
        let key_list: Vec<[u8; 3]> = tags.iter().map(|t| [t.0[0], t.0[1], t.1]).collect();
        if !sets.contains(&key_list) {
            sets.push(key_list);
        }
        let features = if unmapped && rng.chance(3, 4) { vec![] } else { gen_features(rng, rl, lo) };
        let qs: Vec<u8> = match rng.below(5) {
            0 => vec![0xff; rl],
            _ => (0..rl).map(|_| if rng.chance(1, 10) { 0xff } else { rng.below(94) as u8 }).collect(),
        };
        let v = ve::VRecord {
            bam_flags: bf,
            cram_flags: cf,
            reference_sequence_id: rid,
            read_length: rl,
            alignment_start: gen_pos(rng),
            read_group_id: if rng.chance(1, 3) { None } else { Some(rng.below(5) as usize) },
            name,
            mate_flags: if rng.chance(2, 3) { 0 } else { rng.below(4) as u8 },
            mate_reference_sequence_id: if rng.chance(1, 3) { None } else { Some(rng.below(4) as usize) },
            mate_alignment_start: gen_pos(rng),
            template_length: edge_i32(rng),
            mate_distance: if downstream || (detached && rng.chance(1, 10)) { Some(if rng.chance(1, 10) { (1 << 31) - 1 } else { rng.below((n - i) as u64) as usize }) } else { None },
            data: vec![],
            encoded_data: vec![],
            features,
            mapping_quality: if rng.chance(1, 5) { None } else { Some(rng.below(255) as u8) },
            sequence: (0..rl).map(|_| *rng.pick(b"ACGTNacgtRY")).collect(),
            quality_scores: qs,
        };
        recs.push(R { v, tags });
    }
    let _ = stops;
    // the dictionary: every key list of the slice (first-appearance order, after the generated extra sets)
    hdr.td = sets;
    hdr.tags.clear();
    for set in hdr.td.clone() {
        for k in set {
            let id = key_id(&k);
            if !hdr.tags.iter().any(|t| t.0 == id) {
                let e = if rng.chance(1, 5) { E::ArrStop(9, id) } else { E::ArrLen(Box::new(E::IntExt(id)), Box::new(E::ByteExt(id))) };
                hdr.tags.push((id, e));
            }
        }
    }
    let mut wf = true;
    let mut why = "wf";
    // deviations from the writer's shape, one at a time (outside the quantifier of the round-trip statement)
    match rng.below(22) {
        0 => {
            let k = rng.below(recs.len() as u64) as usize;
            recs[k].v.name = Some(vec![b'a', *rng.pick(&[0u8, 9]), b'b']);
            wf = false;
            why = "name-with-stop-byte";
        }
        1 => {
            let k = rng.below(recs.len() as u64) as usize;
            recs[k].v.features = vec![ve::VFeature::Deletion { position: 5, len: 1 }, ve::VFeature::Deletion { position: 2, len: 1 }];
            recs[k].v.bam_flags &= !4;
            wf = false;
            why = "features-unsorted";
        }
        2 => {
            let k = rng.below(recs.len() as u64) as usize;
            recs[k].v.quality_scores.push(1);
            wf = false;
            why = "quality-length";
        }
        3 => {
            let k = rng.below(recs.len() as u64) as usize;
            recs[k].v.sequence.push(b'A');
            recs[k].v.bam_flags |= 4;
            wf = false;
            why = "sequence-length";
        }
        4 => {
            let k = rng.below(recs.len() as u64) as usize;
            recs[k].v.cram_flags = (recs[k].v.cram_flags & !2) | 4;
            recs[k].v.mate_distance = None;
            wf = false;
            why = "downstream-without-distance";
        }
        5 => {
            let k = rng.below(recs.len() as u64) as usize;
            recs[k].v.features = vec![ve::VFeature::SoftClip { position: 1, bases: vec![65, 0, 9, 66] }];
            recs[k].v.read_length = recs[k].v.read_length.max(4);
            let rl = recs[k].v.read_length;
            recs[k].v.quality_scores.resize(rl, 30);
            recs[k].v.sequence.resize(rl, b'A');
            recs[k].v.bam_flags &= !4;
            wf = false;
            why = "array-with-stop-byte";
        }
        6 => {
            let k = rng.below(recs.len() as u64) as usize;
            recs[k].v.bam_flags |= 0x1000 << rng.below(4);
            wf = false;
            why = "reserved-flag-bits";
        }
        7 => {
            let k = rng.below(recs.len() as u64) as usize;
            recs[k].v.features = vec![ve::VFeature::Insertion { position: 1, bases: vec![65; recs[k].v.read_length + 3] }];
            recs[k].v.bam_flags &= !4;
            wf = false;
            why = "features-outside-read";
        }
        8 => {
            let k = rng.below(recs.len() as u64) as usize;
            recs[k].v.read_length = 1usize << 31;
            wf = false;
            why = "read-length-2^31";
        }
        9 => {
            let k = rng.below(recs.len() as u64) as usize;
            match rng.below(5) {
                0 => recs[k].v.alignment_start = Some(1usize << 31),
                1 => recs[k].v.mate_alignment_start = Some((1usize << 31) + 5),
                2 => recs[k].v.reference_sequence_id = Some(1usize << 31),
                3 => recs[k].v.read_group_id = Some(1usize << 32),
                _ => recs[k].v.mate_reference_sequence_id = Some(1usize << 31),
            }
            wf = false;
            why = "field-2^31";
        }
        10 => {
            let k = rng.below(recs.len() as u64) as usize;
            let p = recs[k].v.read_length + 1;
            recs[k].v.features.push(match rng.below(4) {
                0 => ve::VFeature::Deletion { position: p, len: 1usize << 31 },
                1 => ve::VFeature::ReferenceSkip { position: p, len: 1usize << 31 },
                2 => ve::VFeature::Padding { position: p, len: 1usize << 31 },
                _ => ve::VFeature::HardClip { position: p, len: 1usize << 31 },
            });
            recs[k].v.bam_flags &= !4;
            wf = false;
            why = "feature-length-2^31";
        }
        _ => {}
    }
    // the writer's context, or `many` (any slice can be written as a multi-reference slice)
    let mut ids = hdr.all_ids();
    if rng.chance(1, 15) && !ids.is_empty() {
        let k = rng.below(ids.len() as u64) as usize;
        ids.remove(k);
        wf = false;
        why = "missing-external-writer";
    }
    Slice { hdr, ctx: (-2, 0, 0), ids, recs, wf, why }
}

fn ctx_s(c: (i32, usize, usize)) -> String {
    match c.0 {
        -1 => "-1".into(),
        -2 => "-2".into(),
        id => format!("{id}:{}:{}", c.1, c.2),
    }
}

/// what the series store of a record (`Noodles.Cram.Enc.stored`), written independently here
fn stored(h: &Hdr, ctx: (i32, usize, usize), r: &R) -> (ve::VRecord, Vec<([u8; 2], u8, Vec<u8>)>) {
    let v = &r.v;
    let detached = v.cram_flags & 2 != 0;
    let downstream = v.cram_flags & 4 != 0;
    let unmapped = v.bam_flags & 4 != 0;
    let qs_array = v.cram_flags & 1 != 0;
    let mf = v.mate_flags & 3;
    let mut bf = v.bam_flags;
    if detached {
        if mf & 1 != 0 {
            bf |= 0x20;
        }
        if mf & 2 != 0 {
            bf |= 0x08;
        }
    }
    let out = ve::VRecord {
        bam_flags: bf,
        cram_flags: v.cram_flags,
        reference_sequence_id: match ctx.0 {
            -1 => None,
            -2 => v.reference_sequence_id,
            id => Some(id as usize),
        },
        read_length: v.read_length,
        alignment_start: v.alignment_start,
        read_group_id: v.read_group_id,
        name: if h.rn || detached { v.name.clone() } else { None },
        mate_flags: if detached { mf } else { 0 },
        mate_reference_sequence_id: if detached { v.mate_reference_sequence_id } else { None },
        mate_alignment_start: if detached { v.mate_alignment_start } else { None },
        template_length: if detached { v.template_length } else { 0 },
        mate_distance: if detached { None } else if downstream { v.mate_distance } else { None },
        data: vec![],
        encoded_data: vec![],
        features: if unmapped { vec![] } else { v.features.clone() },
        mapping_quality: if unmapped { None } else { v.mapping_quality },
        sequence: if unmapped { v.sequence.clone() } else { vec![] },
        quality_scores: if qs_array && !v.quality_scores.iter().all(|q| *q == 0xff) { v.quality_scores.clone() } else { vec![] },
    };
    (out, r.tags.clone())
}

fn real_header(b: &[u8]) -> Option<cram::container::CompressionHeader> {
    guarded(|| ve::read_compression_header(b)).ok().and_then(|r| r.ok())
}

/// the hooks take the context as (id | -1 | -2, start, end); `Some` needs two positions
fn real_ctx(c: (i32, usize, usize)) -> Option<(i32, usize, usize)> {
    if c.0 >= 0 && (c.1 == 0 || c.2 == 0) { None } else { Some(c) }
}

/// `recr`: the real `read_record` loop on the given streams vs the model
fn recr_case(ctx: &mut Ctx, chb: &[u8], c: (i32, usize, usize), core: &[u8], ext: &[(i32, Vec<u8>)], n: usize, origin: &str) -> Option<Result<Vec<ve::VRecord>, String>> {
    let h = real_header(chb)?;
    let rc = real_ctx(c)?;
    let r = res_class(guarded(|| ve::read_records(&h, rc, core, ext, n)));
    ctx.bump(&format!("recr-{origin}:{}", match &r { Ok(_) => "ok", Err(c) => c.as_str() }));
    if let Ok(rs) = &r {
        for x in rs {
            record_hist(ctx, x, "recr");
        }
    }
    ctx.corr(format!("c07 recr {} {} {} {} {n}", hex(chb), ctx_s(c), hex(core), fmt_ext(ext)), match &r { Ok(rs) => fmt_recs_out(rs), Err(c) => c.clone() });
    Some(r)
}

fn record_hist(ctx: &mut Ctx, v: &ve::VRecord, side: &str) {
    ctx.bump(&format!("{side}-rec:{}{}{}{}", if v.bam_flags & 4 != 0 { "unmapped" } else { "mapped" }, if v.cram_flags & 2 != 0 { "+detached" } else if v.cram_flags & 4 != 0 { "+downstream" } else { "+attached-last" }, if v.cram_flags & 1 != 0 { "+qs-array" } else { "" }, if v.name.is_none() { "+noname" } else { "" }));
    for f in &v.features {
        ctx.bump(&format!("{side}-feature:{}", &fmt_feature(f)[..1]));
    }
    ctx.bump(&format!("{side}-tags:{}", v.data.len().max(v.encoded_data.len()).min(3)));
}

fn slice_case(ctx: &mut Ctx, s: &mut Slice, replay: String) {
    let chb = s.hdr.ser();
    let Some(h) = real_header(&chb) else {
        ctx.bump("slice:header-rejected");
        return;
    };
    let Some(vrecs) = s.recs.iter().map(to_vrecord).collect::<Option<Vec<_>>>() else {
        ctx.bump("slice:tag-value-rejected-by-bam-decoder");
        return;
    };
    // the slice's reference context as the real writer computes it (compared with the model), unless forced
    let recs_s = fmt_recs_in(&s.recs);
    let gc = res_class(guarded(|| ve::get_reference_sequence_context(&h, &vrecs)));
    // the hook reports the context's reference id as an i32: ids beyond that are not asked about
    if s.recs.iter().all(|r| r.v.reference_sequence_id.is_none_or(|i| i < 1 << 31)) {
        ctx.corr(format!("c07 refctx {recs_s}"), match &gc { Ok(c) => ctx_s(*c), Err(c) => c.clone() });
    }
    if let Ok(c) = gc {
        ctx.bump(&format!("refctx:{}", match c.0 { -1 => "none", -2 => "many", _ => "some" }));
        // ORACLE: the context the writer computes names every record's reference id (single reference) or is
        // "unmapped" only when no record has one — otherwise the id is neither written nor implied
        ctx.eval(if s.recs.len() >= 2 { Some(fnv(recs_s.as_bytes()) ^ 0xC0FE) } else { None });
        if let Some(k) = s.recs.iter().position(|r| match c.0 {
            -1 => r.v.reference_sequence_id.is_some(),
            -2 => false,
            id => r.v.reference_sequence_id != Some(id as usize),
        }) {
            ctx.fail("refctx-drops-reference-id", format!("the writer's slice context {} does not cover record {k} (reference id {:?}, start {:?})", ctx_s(c), s.recs[k].v.reference_sequence_id, s.recs[k].v.alignment_start), replay.clone());
        }
        if s.ctx.0 == -2 && s.ctx.1 == 0 {
            // ctx not forced: use the writer's own in 2 of 3 cases
            if fnv(recs_s.as_bytes()) % 3 != 0 || s.why == "corpus-ref-without-position" {
                s.ctx = c;
            }
        }
    }
    let Some(rc) = real_ctx(s.ctx) else { return };
    ctx.bump(&format!("slice:{}", s.why));
    ctx.bump(&format!("slice-names:{} ap-delta:{}", s.hdr.rn as u8, s.hdr.ap as u8));
    for v in &vrecs {
        record_hist(ctx, v, "recw");
    }
    let ids_s = if s.ids.is_empty() { "-".to_string() } else { s.ids.iter().map(|i| i.to_string()).collect::<Vec<_>>().join(",") };
    let w = res_class(guarded(|| ve::write_records(&h, rc, &s.ids, &vrecs)));
    ctx.bump(&format!("recw:{}", match &w { Ok(_) => "ok", Err(c) => c.as_str() }));
    ctx.corr(format!("c07 recw {} {} {ids_s} {recs_s}", hex(&chb), ctx_s(s.ctx)), match &w { Ok((c, e)) => format!("{} {}", hex(c), fmt_ext(e)), Err(c) => c.clone() });
    // the specification function `stored`, Rust twin vs Lean
    let want: Vec<(ve::VRecord, Vec<([u8; 2], u8, Vec<u8>)>)> = s.recs.iter().map(|r| stored(&s.hdr, s.ctx, r)).collect();
    let want_s = if want.is_empty() { "-".to_string() } else { want.iter().map(|(v, t)| fmt_rec(v, t)).collect::<Vec<_>>().join(";") };
    ctx.corr(format!("c07 stored {} {} {recs_s}", hex(&chb), ctx_s(s.ctx)), want_s.clone());
    let Ok((core, ext)) = w else { return };
    // `build_blocks`: empty buffers are not written as blocks
    let blocks: Vec<(i32, Vec<u8>)> = ext.into_iter().filter(|(_, b)| !b.is_empty()).collect();
    let got = recr_case(ctx, &chb, s.ctx, &core, &blocks, s.recs.len(), "written");
    // ORACLE: reading what was written returns what the series store, for records of the writer's shape whose
    // reference ids agree with the context
    let ctx_ok = s.recs.iter().all(|r| match s.ctx.0 {
        -1 => r.v.reference_sequence_id.is_none(),
        -2 => true,
        id => r.v.reference_sequence_id == Some(id as usize),
    });
    if s.wf {
        // a context that disagrees with a record's reference id can only come from the writer itself
        let cls = if ctx_ok { "record-series-roundtrip" } else { "refctx-drops-reference-id" };
        let nontrivial = s.recs.len() >= 2;
        ctx.eval(if nontrivial { Some(fnv(recs_s.as_bytes()) ^ fnv(&chb)) } else { None });
        match got {
            Some(Ok(rs)) if fmt_recs_out(&rs) == want_s => {}
            Some(Ok(rs)) => {
                let k = rs.iter().zip(&want).position(|(a, (v, t))| fmt_rec(a, &a.encoded_data) != fmt_rec(v, t)).unwrap_or(0);
                ctx.fail(cls, format!("record {k} reads back as {} but the series store {}", rs.get(k).map(|a| fmt_rec(a, &a.encoded_data)).unwrap_or_default(), want.get(k).map(|(v, t)| fmt_rec(v, t)).unwrap_or_default()), replay);
            }
            Some(Err(c)) => ctx.fail(cls, format!("the records the writer wrote are not read back: {c} ({recs_s})"), replay),
            None => {}
        }
    } else {
        ctx.bump("slice:not-judged");
    }
    // hostile variants of the written streams (correspondence only)
    let mut rng = Rng::new(fnv(recs_s.as_bytes()) ^ 0x4057);
    for _ in 0..2 {
        let mut b = blocks.clone();
        let mut n = s.recs.len();
        let mut core2 = core.clone();
        let origin = match rng.below(6) {
            0 if !b.is_empty() => {
                let k = rng.below(b.len() as u64) as usize;
                let cut = rng.below(b[k].1.len() as u64) as usize;
                b[k].1.truncate(cut);
                "truncated-block"
            }
            1 if !b.is_empty() => {
                let k = rng.below(b.len() as u64) as usize;
                b.remove(k);
                "dropped-block"
            }
            2 if !b.is_empty() => {
                let k = rng.below(b.len() as u64) as usize;
                let j = rng.below(b[k].1.len() as u64) as usize;
                b[k].1[j] = *rng.pick(&[0u8, 1, 2, 4, 0x42, 0x58, 0x7f, 0x80, 0xff]);
                "mutated-byte"
            }
            3 => {
                n += 1;
                "one-record-more"
            }
            4 => {
                core2 = rng.bytes(3);
                "core-garbage"
            }
            _ => {
                if let Some(k) = (!b.is_empty()).then(|| rng.below(b.len() as u64) as usize) {
                    let m = 1 + rng.below(3) as usize;
                    let extra = rng.bytes(m);
                    b[k].1.extend(extra);
                }
                "trailing-bytes"
            }
        };
        recr_case(ctx, &chb, s.ctx, &core2, &b, n, origin);
    }
}

/// hostile compression headers: core-data codecs on integer series, random core data
fn hostile_slice_case(ctx: &mut Ctx, rng: &mut Rng) {
    let h = gen_hdr(rng, true);
    let chb = h.ser();
    let mut ext: Vec<(i32, Vec<u8>)> = vec![];
    for id in h.all_ids() {
        if rng.chance(5, 6) {
            // small ITF8-friendly bytes so that counts stay small
            let n = rng.below(24) as usize;
            ext.push((id, (0..n).map(|_| match rng.below(6) { 0 => rng.next() as u8, 1 => *rng.pick(b"bqBXIDiQNSPH"), _ => rng.below(6) as u8 }).collect()));
        }
    }
    let k = rng.below(12) as usize;
    let core = rng.bytes(k);
    let c = match rng.below(3) {
        0 => (-1, 0, 0),
        1 => (-2, 0, 0),
        _ => (rng.below(3) as i32, 1 + rng.below(100) as usize, 200),
    };
    recr_case(ctx, &chb, c, &core, &ext, 1 + rng.below(3) as usize, "hostile-header");
}

// ------------------------------------------------------------------- files written by the real writer

fn repository(refs: &[(String, Vec<u8>)]) -> noodles_fasta::Repository {
    let recs: Vec<noodles_fasta::Record> = refs
        .iter()
        .map(|(n, s)| noodles_fasta::Record::new(noodles_fasta::record::Definition::new(n.as_bytes(), None), noodles_fasta::record::Sequence::from(s.clone())))
        .collect();
    noodles_fasta::Repository::new(recs)
}

fn write_file(case: &cases::Case) -> Option<Vec<u8>> {
    let text = case.sam_text();
    let r = guarded(|| -> std::io::Result<Vec<u8>> {
        let mut rd = sam::io::Reader::new(text.as_bytes());
        let header = rd.read_header()?;
        let bufs: Vec<sam::alignment::RecordBuf> = rd.record_bufs(&header).collect::<std::io::Result<_>>()?;
        let b = cram::io::writer::Builder::default()
            .set_reference_sequence_repository(repository(&case.refs))
            .preserve_read_names(case.opts.preserve_names)
            .encode_alignment_start_positions_as_deltas(case.opts.deltas);
        let mut w = if case.opts.rps == 0 { b.build_from_writer(Vec::new()) } else { b.verif_build_from_writer_with_layout(Vec::new(), case.opts.rps, case.opts.spc.max(1)) };
        w.write_header(&header)?;
        for r in &bufs {
            w.write_alignment_record(&header, r)?;
        }
        w.try_finish(&header)?;
        Ok(w.get_ref().clone())
    });
    r.ok().and_then(|x| x.ok())
}

/// "the model reads what the code wrote": every slice of a file the real writer produced is decoded by the
/// model from the raw blocks (`recr`) and compared with the real `read_record` loop on the same blocks; the
/// compression header block goes through `chparse` / `chwrite`
fn file_case(ctx: &mut Ctx, sub: u64) {
    let mut case = cases::gen_case(sub, false);
    case.opts.plan = None;
    case.recs.truncate(24);
    let Some(bytes) = write_file(&case) else {
        ctx.bump("file:writer-refused");
        return;
    };
    let w = walker::walk(&bytes, &walker::Expect { recs: vec![], refs: case.refs.iter().map(|r| r.1.clone()).collect(), preserve_names: case.opts.preserve_names, deltas: case.opts.deltas });
    for c in &w.containers {
        let Some(chb) = c.blocks.first().and_then(|b| b.raw.clone()) else { continue };
        chparse_case(ctx, &chb, "file");
        for s in &c.slices {
            let mut core: Option<Vec<u8>> = None;
            let mut ext: Vec<(i32, Vec<u8>)> = vec![];
            let mut complete = true;
            for k in &s.blocks {
                let b = &c.blocks[*k];
                match (&b.raw, b.ctype) {
                    (Some(raw), 5) => core = Some(raw.clone()),
                    (Some(raw), 4) => ext.push((b.cid, raw.clone())),
                    _ => complete = false,
                }
            }
            let (Some(core), true) = (core, complete) else {
                ctx.bump("file:slice-skipped");
                continue;
            };
            let rc = match s.ref_id {
                -1 => (-1, 0, 0),
                -2 => (-2, 0, 0),
                id => (id, s.start.max(0) as usize, (s.start + s.span - 1).max(0) as usize),
            };
            ctx.bump(&format!("file-slice-ctx:{}", match s.ref_id { -1 => "none", -2 => "many", _ => "some" }));
            let got = recr_case(ctx, &chb, rc, &core, &ext, s.nrec.max(0) as usize, "file");
            // oracle: the record codec reads every slice the writer wrote
            ctx.eval(if s.nrec >= 2 { Some(fnv(&core) ^ fnv(&chb) ^ sub) } else { None });
            if let Some(Err(c)) = got {
                ctx.fail("file-slice-unreadable", format!("read_record fails on a slice the writer produced: {c}"), format!("encfile {sub}"));
            }
        }
    }
}

/// a record with a reference name but no position (RNAME set, POS 0), through the public writer and reader:
/// first in its slice, alone, after a mapped record
fn rname_without_position_cases(ctx: &mut Ctx) {
    let refs: Vec<(String, Vec<u8>)> = vec![("sq0".into(), b"ACGTACGTACGTACGTACGT".to_vec()), ("sq1".into(), b"TTTTTTTTTTTTTTTTTTTT".to_vec())];
    let sets: [&[&str]; 4] = [
        &["r1 4 sq1 0 0 * * 0 0 ACGT IIII"],
        &["r1 4 sq1 0 0 * * 0 0 ACGT IIII", "r2 4 * 0 0 * * 0 0 ACGT IIII"],
        &["r0 0 sq0 3 30 4M * 0 0 ACGT IIII", "r1 4 sq1 0 0 * * 0 0 ACGT IIII"],
        &["r2 4 * 0 0 * * 0 0 ACGT IIII", "r1 4 sq1 0 0 * * 0 0 ACGT IIII"],
    ];
    for (k, lines) in sets.iter().enumerate() {
        let recs: Vec<cases::Rec> = lines.iter().map(|l| cases::rec_of_line(l, &refs)).collect();
        let case = cases::Case { refs: refs.clone(), header_text: "@HD\tVN:1.6\n@SQ\tSN:sq0\tLN:20\n@SQ\tSN:sq1\tLN:20\n".into(), recs, opts: cases::plain_opts(), label: format!("encrname {k}") };
        let Some(bytes) = write_file(&case) else {
            ctx.bump("rname-without-position:writer-refused");
            continue;
        };
        let got = guarded(|| -> std::io::Result<Vec<String>> {
            let mut rd = cram::io::reader::Builder::default().set_reference_sequence_repository(repository(&case.refs)).build_from_reader(&bytes[..]);
            let header = rd.read_header()?;
            let mut out = vec![];
            for rec in rd.records(&header) {
                let rec = rec?;
                let mut w = sam::io::Writer::new(Vec::new());
                w.write_alignment_record(&header, &rec)?;
                out.push(String::from_utf8_lossy(w.get_ref()).split('\t').nth(2).unwrap_or("").to_string());
            }
            Ok(out)
        });
        ctx.eval(Some(0xA11CE + k as u64));
        let want: Vec<String> = case.recs.iter().map(|r| r.rid.map(|i| refs[i].0.clone()).unwrap_or_else(|| "*".into())).collect();
        match got {
            Ok(Ok(g)) if g == want => ctx.bump("rname-without-position:kept"),
            other => ctx.fail("refctx-drops-reference-id", format!("reference names {want:?} read back as {other:?}"), format!("encrname {k}")),
        }
    }
}

// --------------------------------------------------------------------------------------------- run

fn corpus_slices() -> Vec<Slice> {
    let r = |bf: u16, cf: u8| R {
        v: ve::VRecord { bam_flags: bf, cram_flags: cf, reference_sequence_id: Some(0), read_length: 4, alignment_start: Some(10), read_group_id: None, name: Some(b"r1".to_vec()), mate_flags: 0, mate_reference_sequence_id: Some(0), mate_alignment_start: Some(50), template_length: 44, mate_distance: None, data: vec![], encoded_data: vec![], features: vec![], mapping_quality: Some(60), sequence: b"ACGT".to_vec(), quality_scores: vec![30, 31, 32, 33] },
        tags: vec![],
    };
    let mut out = vec![];
    for (rn, ap) in [(true, true), (true, false), (false, true), (false, false)] {
        // a pair (first: downstream; last: attached), a detached read, unmapped reads, every tag type, every feature
        let mut a = r(99, 5);
        a.v.mate_distance = Some(2);
        a.v.read_length = 12;
        a.v.sequence = b"ACGTACGTACGT".to_vec();
        a.v.quality_scores = (30..42).collect();
        a.tags = vec![(*b"NH", b'C', vec![3]), (*b"CO", b'Z', b"hi\0".to_vec())];
        a.v.features = vec![
            ve::VFeature::SoftClip { position: 1, bases: vec![65] },
            ve::VFeature::Substitution { position: 2, code: 3 },
            ve::VFeature::Insertion { position: 3, bases: vec![67, 71] },
            ve::VFeature::Deletion { position: 5, len: 2 },
            ve::VFeature::ReadBase { position: 5, base: 78, quality_score: 30 },
            ve::VFeature::HardClip { position: 6, len: 7 },
            ve::VFeature::ReferenceSkip { position: 6, len: 9 },
            ve::VFeature::Padding { position: 6, len: 1 },
            ve::VFeature::InsertBase { position: 6, base: 84 },
            ve::VFeature::Bases { position: 7, bases: vec![65, 67] },
            ve::VFeature::Scores { position: 9, quality_scores: vec![1, 2] },
            ve::VFeature::QualityScore { position: 11, quality_score: 9 },
        ];
        let mut b = r(0, 3);
        b.v.name = None;
        b.v.mate_flags = 3;
        b.v.quality_scores = vec![255; 4];
        b.v.alignment_start = Some(12);
        b.tags = vec![(*b"XB", b'B', vec![b's', 2, 0, 0, 0, 1, 2, 3, 4]), (*b"XF", b'f', vec![0, 0, 128, 63]), (*b"XH", b'H', b"1AE3\0".to_vec()), (*b"XA", b'A', vec![b'q'])];
        let mut c = r(147, 1);
        c.v.alignment_start = Some(50);
        c.v.mapping_quality = None;
        c.tags = vec![(*b"NM", b'i', vec![255, 255, 255, 255]), (*b"XS", b's', vec![1, 128]), (*b"Xc", b'C', vec![200]), (*b"XI", b'I', vec![1, 2, 3, 4])];
        let mut d = r(4, 3);
        d.v.reference_sequence_id = None;
        d.v.alignment_start = None;
        d.v.template_length = -5;
        d.v.quality_scores = vec![255; 4];
        let mut e = r(4, 10);
        e.v.read_length = 0;
        e.v.sequence = vec![];
        e.v.quality_scores = vec![];
        e.v.name = Some(b"u".to_vec());
        let recs = vec![a, b, c, d, e];
        let mut sets: Vec<Vec<[u8; 3]>> = vec![];
        for x in &recs {
            let ks: Vec<[u8; 3]> = x.tags.iter().map(|t| [t.0[0], t.0[1], t.1]).collect();
            if !sets.contains(&ks) {
                sets.push(ks);
            }
        }
        let hdr = Hdr::init(rn, ap, sets);
        let ids = hdr.all_ids();
        out.push(Slice { hdr, ctx: (-2, 0, 0), ids, recs, wf: true, why: "corpus" });
    }
    // single-reference and unmapped contexts
    {
        let hdr = Hdr::init(true, true, vec![vec![]]);
        let ids = hdr.all_ids();
        out.push(Slice { hdr: hdr.clone(), ctx: (0, 10, 60), ids: ids.clone(), recs: vec![r(0, 3), r(16, 3)], wf: true, why: "corpus" });
        let mut u = r(4, 3);
        u.v.reference_sequence_id = None;
        u.v.alignment_start = None;
        out.push(Slice { hdr: hdr.clone(), ctx: (-1, 0, 0), ids: ids.clone(), recs: vec![u.clone(), u], wf: true, why: "corpus" });
        // a reference id without a position: the writer's context is "unmapped", which drops the id (observation)
        let mut p = r(4, 3);
        p.v.alignment_start = None;
        out.push(Slice { hdr, ctx: (-2, 0, 0), ids, recs: vec![p], wf: true, why: "corpus-ref-without-position" });
    }
    out
}

fn gen_slice_case(seed: u64, it: u64) -> Slice {
    let mut rng = Rng::new(seed ^ 0x51CE ^ it.wrapping_mul(0x9E3779B1));
    gen_slice(&mut rng)
}

pub fn run(ctx: &mut Ctx) {
    let t0 = std::time::Instant::now();
    bits_cases(ctx);
    encparse_cases(ctx);
    encdec_cases(ctx);
    encenc_cases(ctx);
    chparse_cases(ctx);
    rname_without_position_cases(ctx);
    for (k, mut s) in corpus_slices().into_iter().enumerate() {
        slice_case(ctx, &mut s, format!("encslice-corpus {k}"));
    }
    let n = ctx.n(2500, 40000);
    for it in 0..n {
        let mut s = gen_slice_case(ctx.seed, it);
        slice_case(ctx, &mut s, format!("encslice {} {it}", ctx.seed));
    }
    let n = ctx.n(1500, 25000);
    for it in 0..n {
        let mut rng = Rng::new(ctx.seed ^ 0x4057 ^ it.wrapping_mul(0x9E3779B1));
        hostile_slice_case(ctx, &mut rng);
    }
    let n = ctx.n(60, 1000);
    for it in 0..n {
        file_case(ctx, ctx.seed.wrapping_mul(1_000_003).wrapping_add(it) ^ 0xF11E);
    }
    ctx.bump_by("c07enc-millis", t0.elapsed().as_millis() as u64);
    ctx.sample(|| "c07 bitw|bitr|encparse|encdec|encenc|chparse|chwrite|recw|recr|refctx|stored … (harness/src/props/c07_enc.rs)".into());
}

pub fn replay(ctx: &mut Ctx, case: &[String]) -> bool {
    let num = |k: usize| -> u64 { case.get(k).and_then(|s| s.parse().ok()).unwrap_or(0) };
    match case.first().map(|s| s.as_str()) {
        Some("bitw") => {
            let ops: Vec<(u32, usize)> = case.get(1).map(|s| s.split(',').filter_map(|p| p.split_once(':')).filter_map(|(a, b)| Some((a.parse().ok()?, b.parse().ok()?))).collect()).unwrap_or_default();
            bits_write_case(ctx, &ops);
        }
        Some("encparse") => {
            let kind = case.get(1).and_then(|s| s.chars().next()).unwrap_or('i');
            encparse_case(ctx, kind, &unhex(case.get(2).map(|s| s.as_str()).unwrap_or("-")));
        }
        Some("encdec") => {
            let mut rng = Rng::new(num(1));
            spec_decode_case(ctx, &mut rng, 0);
        }
        Some("encenc") => encenc_cases(ctx),
        Some("chparse") => chparse_case(ctx, &unhex(case.get(1).map(|s| s.as_str()).unwrap_or("-")), "replay"),
        Some("encslice-corpus") => {
            if let Some(mut s) = corpus_slices().into_iter().nth(num(1) as usize) {
                slice_case(ctx, &mut s, case.join(" "));
            }
        }
        Some("encslice") => {
            let mut s = gen_slice_case(num(1), num(2));
            slice_case(ctx, &mut s, case.join(" "));
        }
        Some("encfile") => file_case(ctx, num(1)),
        Some("encrname") => rname_without_position_cases(ctx),
        _ => return false,
    }
    true
}
