//! C12 — decoded content does not depend on how the underlying stream chunks its reads.
//!
//! Two halves:
//!  * `loops` (correspondence with the Lean model `Noodles.IO.Loops`): the noodles loops that carry
//!    state across refills are run on the REAL code over a scheduled source (`SchedReader`,
//!    optionally inside a `BufReader` of a given capacity) and the model is run on the same bytes and
//!    the same schedule; results and bytes consumed must agree.
//!  * `formats` (oracle): for every format of the property's list a small valid file is produced
//!    with the real writers (or by hand), read once through a plain in-memory cursor and once per
//!    delivery schedule / BufReader capacity, and the full observable stream (header, every record
//!    rendered canonically, errors by class) is compared.
use crate::adversary::{schedule, Delivery, SchedReader};
use crate::common::*;
use noodles_bam as bam;
use noodles_bcf as bcf;
use noodles_bed as bed;
use noodles_bgzf as bgzf;
use noodles_cram as cram;
use noodles_csi as csi;
use noodles_fasta as fasta;
use noodles_fastq as fastq;
use noodles_gff as gff;
use noodles_gtf as gtf;
use noodles_sam as sam;
use noodles_tabix as tabix;
use noodles_vcf as vcf;
use std::cell::Cell;
use std::io::{self, BufRead, BufReader, Cursor, Read, Write};
use std::rc::Rc;

pub const CAPS: [usize; 7] = [1, 2, 3, 7, 64, 4096, 65536];

// ------------------------------------------------------------------------------------------------
// sources

/// How the bytes are delivered: a finite schedule (then `fallback` bytes per call) and, optionally,
/// a `std::io::BufReader` of capacity `cap` in front of it.
#[derive(Clone, Debug)]
pub struct Plan {
    pub sched: Vec<Delivery>,
    pub fallback: usize,
    pub name: String,
    pub cap: Option<usize>,
}

#[derive(Default)]
pub struct TapStat {
    pub reads: Cell<u64>,
    pub interrupts: Cell<u64>,
}

/// `SchedReader` + counters shared with the caller (the reader itself is consumed by the noodles reader).
struct Tap {
    inner: SchedReader,
    stat: Rc<TapStat>,
}

impl Read for Tap {
    fn read(&mut self, buf: &mut [u8]) -> io::Result<usize> {
        self.stat.reads.set(self.stat.reads.get() + 1);
        let r = self.inner.read(buf);
        if let Err(e) = &r {
            if e.kind() == io::ErrorKind::Interrupted {
                self.stat.interrupts.set(self.stat.interrupts.get() + 1);
            }
        }
        r
    }
}

impl io::Seek for Tap {
    fn seek(&mut self, pos: io::SeekFrom) -> io::Result<u64> {
        self.inner.seek(pos)
    }
}

/// a seekable buffered source (FASTA `query`); `None` = everything at once through an 8 KiB BufReader
fn src_bufread_seek(data: &[u8], plan: Option<&Plan>, stat: &Rc<TapStat>) -> BufReader<Tap> {
    match plan {
        None => BufReader::new(Tap { inner: SchedReader::plain(data.to_vec()), stat: stat.clone() }),
        Some(p) => BufReader::with_capacity(p.cap.unwrap_or(8192), Tap { inner: SchedReader::new(data.to_vec(), p.sched.clone(), p.fallback), stat: stat.clone() }),
    }
}

fn src_read(data: &[u8], plan: Option<&Plan>, stat: &Rc<TapStat>) -> Box<dyn Read> {
    match plan {
        None => Box::new(Cursor::new(data.to_vec())),
        Some(p) => {
            let tap = Tap { inner: SchedReader::new(data.to_vec(), p.sched.clone(), p.fallback), stat: stat.clone() };
            match p.cap {
                None => Box::new(tap),
                Some(c) => Box::new(BufReader::with_capacity(c, tap)),
            }
        }
    }
}

fn src_bufread(data: &[u8], plan: Option<&Plan>, stat: &Rc<TapStat>) -> Box<dyn BufRead> {
    match plan {
        None => Box::new(Cursor::new(data.to_vec())),
        Some(p) => {
            let tap = Tap { inner: SchedReader::new(data.to_vec(), p.sched.clone(), p.fallback), stat: stat.clone() };
            Box::new(BufReader::with_capacity(p.cap.unwrap_or(8192), tap))
        }
    }
}

fn ev_err(e: &io::Error) -> String {
    format!("ERR:{}", errclass(e))
}

// ------------------------------------------------------------------------------------------------
// formats

#[derive(Clone, Copy, Debug, PartialEq, Eq)]
pub enum Fmt {
    Bgzf,
    Bam,
    BamRaw,
    Bcf,
    BcfRaw,
    Cram,
    Sam,
    SamGz,
    Vcf,
    VcfGz,
    Fasta,
    FastaIdx,
    Fastq,
    FastqIdx,
    Gff,
    Gtf,
    Bed,
    Bai,
    Csi,
    Tbi,
    Gzi,
    Fai,
    Crai,
    UtilAln,
    UtilVar,
}

pub const FMTS: [Fmt; 25] = [
    Fmt::Bgzf,
    Fmt::Bam,
    Fmt::BamRaw,
    Fmt::Bcf,
    Fmt::BcfRaw,
    Fmt::Cram,
    Fmt::Sam,
    Fmt::SamGz,
    Fmt::Vcf,
    Fmt::VcfGz,
    Fmt::Fasta,
    Fmt::FastaIdx,
    Fmt::Fastq,
    Fmt::FastqIdx,
    Fmt::Gff,
    Fmt::Gtf,
    Fmt::Bed,
    Fmt::Bai,
    Fmt::Csi,
    Fmt::Tbi,
    Fmt::Gzi,
    Fmt::Fai,
    Fmt::Crai,
    Fmt::UtilAln,
    Fmt::UtilVar,
];

impl Fmt {
    pub fn name(self) -> &'static str {
        match self {
            Fmt::Bgzf => "bgzf",
            Fmt::Bam => "bam",
            Fmt::BamRaw => "bam-raw",
            Fmt::Bcf => "bcf",
            Fmt::BcfRaw => "bcf-raw",
            Fmt::Cram => "cram",
            Fmt::Sam => "sam",
            Fmt::SamGz => "sam-gz",
            Fmt::Vcf => "vcf",
            Fmt::VcfGz => "vcf-gz",
            Fmt::Fasta => "fasta",
            Fmt::FastaIdx => "fasta-indexer",
            Fmt::Fastq => "fastq",
            Fmt::FastqIdx => "fastq-indexer",
            Fmt::Gff => "gff",
            Fmt::Gtf => "gtf",
            Fmt::Bed => "bed",
            Fmt::Bai => "bai",
            Fmt::Csi => "csi",
            Fmt::Tbi => "tabix",
            Fmt::Gzi => "gzi",
            Fmt::Fai => "fai",
            Fmt::Crai => "crai",
            Fmt::UtilAln => "util-alignment",
            Fmt::UtilVar => "util-variant",
        }
    }
    pub fn parse(s: &str) -> Option<Fmt> {
        FMTS.iter().copied().find(|f| f.name() == s)
    }
    /// the noodles reader of this format wants `BufRead` (so the scheduled source always sits
    /// inside a `BufReader` of one of the capacities)
    pub fn wants_bufread(self) -> bool {
        matches!(self, Fmt::Sam | Fmt::Vcf | Fmt::Fasta | Fmt::FastaIdx | Fmt::Fastq | Fmt::FastqIdx | Fmt::Gff | Fmt::Gtf | Fmt::Bed | Fmt::Fai)
    }
}

// ---------- generators (text is written by hand; binary files by the real writers from that text)

const REF_LEN: usize = 3000;
const NREF: usize = 3;

fn ref_seq(k: usize) -> Vec<u8> {
    let mut r = Rng::new(0xC12_0000 + k as u64);
    (0..REF_LEN).map(|_| b"ACGT"[r.below(4) as usize]).collect()
}

fn below_either(rng: &mut Rng, num: u64, den: u64, big: u64, small: u64) -> u64 {
    let m = if rng.chance(num, den) { big } else { small };
    rng.below(m)
}

fn eol(crlf: bool) -> &'static str {
    if crlf { "\r\n" } else { "\n" }
}

fn dna(rng: &mut Rng, n: usize) -> String {
    (0..n).map(|_| b"ACGTN"[below_either(rng, 1, 30, 5, 4) as usize] as char).collect()
}

fn qual(rng: &mut Rng, n: usize) -> String {
    (0..n).map(|_| (b'!' + 1 + rng.below(60) as u8) as char).collect()
}

fn seq_len(rng: &mut Rng) -> usize {
    if rng.chance(1, 60) {
        return 66_000 + rng.below(3000) as usize; // longer than any BufReader capacity / one BGZF block
    }
    match rng.below(10) {
        0 => 1,
        1 => 2 + rng.below(6) as usize,
        2 => 300 + rng.below(700) as usize,
        _ => 10 + rng.below(120) as usize,
    }
}

fn gen_sam_text(rng: &mut Rng, crlf: bool, for_binary: bool) -> Vec<u8> {
    let nl = eol(crlf);
    let mut s = String::new();
    let with_header = for_binary || rng.chance(5, 6);
    if with_header {
        s += &format!("@HD\tVN:1.6\tSO:unsorted{nl}");
        for k in 0..NREF {
            s += &format!("@SQ\tSN:sq{k}\tLN:{REF_LEN}{nl}");
        }
        s += &format!("@RG\tID:rg0\tSM:sample0{nl}");
        if rng.chance(1, 2) {
            s += &format!("@PG\tID:pg0\tPN:nvh\tCL:nvh run C12{nl}");
        }
        for _ in 0..rng.below(3) {
            let n = rng.below(300) as usize;
            s += &format!("@CO\t{}{nl}", dna(rng, n));
        }
    }
    let n = match rng.below(8) {
        0 => 0,
        1 => 1,
        _ => 2 + rng.below(30),
    };
    for i in 0..n {
        let l = seq_len(rng);
        // without a header there is no reference dictionary: only unmapped reads are valid
        let unmapped = rng.chance(1, 5) || !with_header || l > REF_LEN / 2;
        let (flag, rname, pos, mapq, cigar) = if unmapped {
            (4u16, "*".to_string(), 0usize, 255u8, "*".to_string())
        } else {
            let k = rng.below(NREF as u64) as usize;
            let pos = 1 + rng.below((REF_LEN - l) as u64) as usize;
            let cigar = if l >= 4 && rng.chance(1, 3) { format!("2S{}M", l - 2) } else { format!("{l}M") };
            (if rng.chance(1, 2) { 0 } else { 16 }, format!("sq{k}"), pos, rng.below(61) as u8, cigar)
        };
        let seq = if !unmapped {
            // mapped reads copy the reference with a few substitutions (keeps the CRAM writer happy)
            let k: usize = rname[2..].parse().unwrap();
            let r = ref_seq(k);
            let soft = if cigar.starts_with("2S") { 2 } else { 0 };
            let mut v: Vec<u8> = (0..l).map(|j| if j < soft { b'A' } else { r[pos - 1 + j - soft] }).collect();
            for _ in 0..rng.below(3) {
                let j = rng.below(l as u64) as usize;
                v[j] = b"ACGT"[rng.below(4) as usize];
            }
            String::from_utf8(v).unwrap()
        } else {
            dna(rng, l)
        };
        let q = qual(rng, l);
        s += &format!("r{i}\t{flag}\t{rname}\t{pos}\t{mapq}\t{cigar}\t*\t0\t0\t{seq}\t{q}");
        if rng.chance(2, 3) {
            s += &format!("\tNM:i:{}", rng.below(5));
        }
        if rng.chance(1, 2) {
            s += "\tRG:Z:rg0";
        }
        if rng.chance(1, 4) {
            s += &format!("\tXB:B:c,{},{},-3", rng.below(100), rng.below(100));
        }
        if rng.chance(1, 4) {
            s += &format!("\tXZ:Z:free text {} here", rng.below(1000));
        }
        s += nl;
    }
    s.into_bytes()
}

fn parse_sam(text: &[u8]) -> io::Result<(sam::Header, Vec<sam::alignment::RecordBuf>)> {
    let mut r = sam::io::Reader::new(text);
    let h = r.read_header()?;
    let recs: Vec<_> = r.record_bufs(&h).collect::<io::Result<_>>()?;
    Ok((h, recs))
}

fn gen_vcf_text(rng: &mut Rng, crlf: bool, for_binary: bool, allow_utf8: bool) -> Vec<u8> {
    let nl = eol(crlf);
    let mut s = String::new();
    s += &format!("##fileformat=VCFv4.3{nl}");
    s += &format!("##INFO=<ID=DP,Number=1,Type=Integer,Description=\"Total depth\">{nl}");
    s += &format!("##INFO=<ID=AF,Number=A,Type=Float,Description=\"Allele frequency\">{nl}");
    s += &format!("##INFO=<ID=NT,Number=1,Type=String,Description=\"A note\">{nl}");
    s += &format!("##INFO=<ID=DB,Number=0,Type=Flag,Description=\"In db\">{nl}");
    s += &format!("##FILTER=<ID=q10,Description=\"Quality below 10\">{nl}");
    s += &format!("##FORMAT=<ID=GT,Number=1,Type=String,Description=\"Genotype\">{nl}");
    s += &format!("##FORMAT=<ID=GQ,Number=1,Type=Integer,Description=\"Genotype quality\">{nl}");
    for k in 0..NREF {
        s += &format!("##contig=<ID=sq{k},length={REF_LEN}>{nl}");
    }
    if !for_binary && rng.chance(1, 2) {
        let n = rng.below(200) as usize;
        s += &format!("##note={}{nl}", dna(rng, n));
    }
    let nsamples = rng.below(3) as usize;
    s += "#CHROM\tPOS\tID\tREF\tALT\tQUAL\tFILTER\tINFO";
    if nsamples > 0 {
        s += "\tFORMAT";
        for i in 0..nsamples {
            s += &format!("\tsample{i}");
        }
    }
    s += nl;
    let n = match rng.below(8) {
        0 => 0,
        1 => 1,
        _ => 2 + rng.below(30),
    };
    let mut pos = 1;
    for i in 0..n {
        pos += rng.below(60) as usize;
        let k = (i as usize * NREF) / (n as usize).max(1);
        let id = if rng.chance(1, 3) {
            ".".to_string()
        } else if allow_utf8 && rng.chance(1, 3) {
            format!("rs{i}\u{20ac}\u{e9}x") // multi-byte UTF-8 in the ID column (VCF >= 4.3 is UTF-8)
        } else {
            format!("rs{i}")
        };
        let rl = 1 + below_either(rng, 1, 8, 400, 4) as usize;
        let r = dna(rng, rl).replace('N', "A");
        let alt = if rng.chance(1, 6) { ".".to_string() } else { "ACGT"[rng.below(4) as usize..][..1].to_string() };
        let q = if rng.chance(1, 4) { ".".to_string() } else { format!("{}", rng.below(100)) };
        let filt = *rng.pick(&[".", "PASS", "q10"]);
        let mut info = vec![];
        if rng.chance(2, 3) {
            info.push(format!("DP={}", rng.below(500)));
        }
        if alt != "." && rng.chance(1, 2) {
            info.push(format!("AF=0.{}", 1 + rng.below(9)));
        }
        if rng.chance(1, 3) {
            let pad = if rng.chance(1, 30) { dna(rng, 66_000) } else { String::new() };
            info.push(if allow_utf8 && rng.chance(1, 2) { format!("NT=caf\u{e9}_{i}{pad}") } else { format!("NT=note_{i}{pad}") });
        }
        if rng.chance(1, 5) {
            info.push("DB".into());
        }
        let info = if info.is_empty() { ".".to_string() } else { info.join(";") };
        s += &format!("sq{k}\t{pos}\t{id}\t{r}\t{alt}\t{q}\t{filt}\t{info}");
        if nsamples > 0 {
            s += "\tGT:GQ";
            for _ in 0..nsamples {
                s += &format!("\t{}/{}:{}", rng.below(2), rng.below(2), rng.below(99));
            }
        }
        s += nl;
    }
    s.into_bytes()
}

fn parse_vcf(text: &[u8]) -> io::Result<(vcf::Header, Vec<vcf::variant::RecordBuf>)> {
    let mut r = vcf::io::Reader::new(text);
    let h = r.read_header()?;
    let recs: Vec<_> = r.record_bufs(&h).collect::<io::Result<_>>()?;
    Ok((h, recs))
}

/// BGZF-compress `raw` with the real writer, cutting members at random places; segments are
/// finished separately and concatenated, so empty members (EOF markers) also occur mid-file.
fn bgzip(rng: &mut Rng, raw: &[u8]) -> Vec<u8> {
    let mut out = vec![];
    let mut at = 0;
    let nseg = 1 + rng.below(3) as usize;
    for seg in 0..nseg {
        let end = if seg + 1 == nseg { raw.len() } else { at + rng.below((raw.len() - at) as u64 + 1) as usize };
        let mut w = bgzf::io::Writer::new(Vec::new());
        while at < end {
            let n = match rng.below(5) {
                0 => 1 + rng.below(20) as usize,
                1 => 1 + rng.below(70_000) as usize,
                _ => 1 + rng.below(2000) as usize,
            }
            .min(end - at);
            w.write_all(&raw[at..at + n]).unwrap();
            at += n;
            if rng.chance(2, 3) {
                w.flush().unwrap();
            }
        }
        out.extend_from_slice(&w.finish().unwrap());
    }
    out
}

/// BAM / BCF: `l_text` (u32 LE at `at`) is followed by that many bytes of header text; append NUL
/// padding to the text and account for it in `l_text`.
fn pad_header_text(rng: &mut Rng, raw: &mut Vec<u8>, at: usize) {
    let l = u32::from_le_bytes(raw[at..at + 4].try_into().unwrap()) as usize;
    let k = 1 + below_either(rng, 1, 4, 20_000, 40) as usize;
    let end = at + 4 + l;
    raw.splice(end..end, std::iter::repeat(0u8).take(k));
    raw[at..at + 4].copy_from_slice(&((l + k) as u32).to_le_bytes());
}

fn bgzf_boundaries(file: &[u8]) -> Vec<usize> {
    let mut b = vec![];
    let mut at = 0;
    while at + 18 <= file.len() {
        let bsize = u16::from_le_bytes([file[at + 16], file[at + 17]]) as usize + 1;
        b.push(at + 12);
        b.push(at + 18);
        at += bsize;
        b.push(at);
    }
    b
}

fn line_boundaries(file: &[u8]) -> Vec<usize> {
    file.iter().enumerate().filter(|(_, c)| **c == b'\n').map(|(i, _)| i + 1).collect()
}

fn gen_fasta_text(rng: &mut Rng, crlf: bool, blank_lines: bool) -> Vec<u8> {
    let nl = eol(crlf);
    let mut s = String::new();
    let n = rng.below(6);
    for i in 0..n {
        s += &format!(">sq{i}");
        if rng.chance(1, 2) {
            s += &format!(" description {} of sq{i}", rng.below(100));
        }
        s += nl;
        let total = if rng.chance(1, 40) { 66_000 + rng.below(3000) as usize } else { 1 + below_either(rng, 1, 4, 5000, 300) as usize };
        let w = if rng.chance(1, 8) { total } else { 1 + rng.below(80) as usize };
        let seq = dna(rng, total);
        let mut at = 0;
        while at < total {
            let e = (at + w).min(total);
            s += &seq[at..e];
            // the last line may lack its terminator at the very end of the file
            if !(e == total && i + 1 == n && rng.chance(1, 4)) {
                s += nl;
            }
            at = e;
        }
        if blank_lines && rng.chance(1, 6) && s.ends_with('\n') {
            s += nl; // a blank line between records
        }
    }
    s.into_bytes()
}

fn gen_fastq_text(rng: &mut Rng, crlf: bool) -> Vec<u8> {
    let nl = eol(crlf);
    let mut s = String::new();
    let n = rng.below(20);
    for i in 0..n {
        let l = seq_len(rng);
        s += &format!("@read{i}");
        match rng.below(3) {
            0 => {}
            1 => s += &format!(" LN:{l} extra words"),
            _ => s += &format!("\tLN:{l}"),
        }
        s += nl;
        s += &dna(rng, l);
        s += nl;
        s += "+";
        if rng.chance(1, 3) {
            s += &format!("read{i}");
        }
        s += nl;
        s += &qual(rng, l);
        if !(i + 1 == n && rng.chance(1, 4)) {
            s += nl;
        }
    }
    s.into_bytes()
}

fn gen_gff_text(rng: &mut Rng, crlf: bool) -> Vec<u8> {
    let nl = eol(crlf);
    let mut s = format!("##gff-version 3{nl}");
    for k in 0..NREF {
        if rng.chance(1, 2) {
            s += &format!("##sequence-region sq{k} 1 {REF_LEN}{nl}");
        }
    }
    let n = rng.below(25);
    for i in 0..n {
        if rng.chance(1, 8) {
            s += &format!("#a comment line {i}{nl}");
        }
        let st = 1 + rng.below(2000);
        let en = st + rng.below(900);
        let ty = *rng.pick(&["gene", "mRNA", "exon", "CDS"]);
        let strand = *rng.pick(&["+", "-", ".", "?"]);
        let phase = if ty == "CDS" { format!("{}", rng.below(3)) } else { ".".into() };
        let score = if rng.chance(1, 3) { format!("{}", rng.below(1000)) } else { ".".into() };
        let mut attrs = vec![format!("ID={ty}{i}")];
        if rng.chance(1, 2) {
            attrs.push(format!("Name=name%3B{i}"));
        }
        if rng.chance(1, 3) {
            attrs.push(format!("Parent=gene{},gene{}", i / 2, i / 3));
        }
        if rng.chance(1, 6) {
            let n = if rng.chance(1, 10) { 66_000 } else { rng.below(400) as usize };
            attrs.push(format!("Note={}", dna(rng, n)));
        }
        s += &format!("sq{}\tnvh\t{ty}\t{st}\t{en}\t{score}\t{strand}\t{phase}\t{}{nl}", rng.below(NREF as u64), attrs.join(";"));
    }
    s.into_bytes()
}

fn gen_gtf_text(rng: &mut Rng, crlf: bool) -> Vec<u8> {
    let nl = eol(crlf);
    let mut s = String::new();
    if rng.chance(1, 2) {
        s += &format!("#!genome-build test{nl}");
    }
    let n = rng.below(25);
    for i in 0..n {
        if rng.chance(1, 8) {
            s += &format!("# comment {i}{nl}");
        }
        let st = 1 + rng.below(2000);
        let en = st + rng.below(900);
        let ty = *rng.pick(&["gene", "transcript", "exon", "CDS"]);
        let strand = *rng.pick(&["+", "-", "."]);
        let frame = if ty == "CDS" { format!("{}", rng.below(3)) } else { ".".into() };
        let mut attrs = format!("gene_id \"g{}\"; transcript_id \"t{i}\";", i / 3);
        if rng.chance(1, 3) {
            attrs += &format!(" note \"a note with spaces {i}\";");
        }
        s += &format!("sq{}\tnvh\t{ty}\t{st}\t{en}\t.\t{strand}\t{frame}\t{attrs}{nl}", rng.below(NREF as u64));
    }
    s.into_bytes()
}

fn gen_bed_text(rng: &mut Rng, crlf: bool) -> Vec<u8> {
    let nl = eol(crlf);
    let mut s = String::new();
    let n = rng.below(25);
    let cols = 4 + rng.below(6) as usize;
    for i in 0..n {
        if rng.chance(1, 6) {
            let n = if rng.chance(1, 20) { 66_000 } else { below_either(rng, 1, 4, 500, 30) as usize };
            s += &format!("#comment {}{nl}", dna(rng, n));
        }
        let st = rng.below(2000);
        let en = st + 1 + rng.below(900);
        let mut f = vec![format!("sq{}", rng.below(NREF as u64)), st.to_string(), en.to_string()];
        let extra = [format!("feature{i}"), rng.below(1001).to_string(), (*rng.pick(&["+", "-", "."])).to_string(), st.to_string(), en.to_string(), "255,0,0".to_string()];
        for e in extra.iter().take(cols - 3) {
            f.push(e.clone());
        }
        s += &f.join("\t");
        if !(i + 1 == n && rng.chance(1, 4)) {
            s += nl;
        }
    }
    s.into_bytes()
}

fn vp(n: u64) -> bgzf::VirtualPosition {
    bgzf::VirtualPosition::from(n)
}

fn gen_binning_index<I>(rng: &mut Rng, ms: u8, d: u8, header: Option<csi::binning_index::index::Header>) -> csi::binning_index::Index<I>
where
    I: csi::binning_index::index::reference_sequence::Index + Default,
{
    use csi::binning_index::index::reference_sequence::bin::Chunk;
    let mut ix = csi::binning_index::Indexer::<I>::new(ms, d);
    if let Some(h) = header {
        ix = ix.set_header(h);
    }
    let maxpos = (1usize << (ms as usize + 3 * d as usize)) - 1;
    let mut off = 100u64;
    for rid in 0..NREF {
        if rng.chance(1, 5) {
            continue;
        }
        let n = below_either(rng, 1, 5, 400, 20) as usize;
        let mut starts: Vec<usize> = (0..n).map(|_| 1 + rng.below((maxpos as u64).min(1 << 26)) as usize).collect();
        starts.sort();
        for s in starts {
            let e = (s + rng.below(5000) as usize).min(maxpos);
            let next = if rng.chance(1, 6) { ((off >> 16) + 1 + rng.below(3)) << 16 } else { off + 1 + rng.below(300) };
            ix.add_record(Some((rid, noodles_core::Position::try_from(s).unwrap(), noodles_core::Position::try_from(e).unwrap(), rng.chance(9, 10))), Chunk::new(vp(off), vp(next))).unwrap();
            off = next;
        }
    }
    for _ in 0..rng.below(3) {
        ix.add_record(None, Chunk::new(vp(0), vp(0))).unwrap();
    }
    ix.build(NREF)
}

fn gen_tabix_header(rng: &mut Rng) -> csi::binning_index::index::Header {
    let mut names = csi::binning_index::index::header::ReferenceSequenceNames::new();
    for i in 0..NREF {
        names.insert(format!("sq{i}_{}", dna(rng, 1 + (i * 7) % 20)).into_bytes().into());
    }
    csi::binning_index::index::header::Builder::vcf().set_reference_sequence_names(names).build()
}

pub struct GenFile {
    pub bytes: Vec<u8>,
    pub boundaries: Vec<usize>,
    /// reading mode (which API of the reader is exercised); part of the case
    pub mode: u64,
}

/// Generate a small valid file of the format. `None` when the real writer rejects the generated
/// content (counted, not a C12 matter).
pub fn gen_file(fmt: Fmt, rng: &mut Rng) -> Option<GenFile> {
    let crlf = rng.chance(1, 4);
    let mode = rng.below(4);
    let (bytes, boundaries): (Vec<u8>, Vec<usize>) = match fmt {
        Fmt::Bgzf => {
            let n = match rng.below(4) {
                0 => 0,
                1 => rng.below(200) as usize,
                2 => rng.below(5000) as usize,
                _ => rng.below(150_000) as usize,
            };
            let raw = super::c01::gen_payload(rng, n);
            let mut f = bgzip(rng, &raw);
            if rng.chance(1, 6) && f.len() >= 28 {
                f.truncate(f.len() - 28); // no EOF marker
            }
            let b = bgzf_boundaries(&f);
            (f, b)
        }
        Fmt::Bam | Fmt::BamRaw | Fmt::Cram | Fmt::UtilAln => {
            let text = gen_sam_text(rng, false, true);
            let (h, recs) = parse_sam(&text).ok()?;
            use sam::alignment::io::Write as _;
            if fmt == Fmt::Cram || (fmt == Fmt::UtilAln && mode == 2) {
                let refs: Vec<fasta::Record> = (0..NREF)
                    .map(|k| fasta::Record::new(fasta::record::Definition::new(format!("sq{k}"), None), fasta::record::Sequence::from(ref_seq(k))))
                    .collect();
                let repo = fasta::Repository::new(refs);
                let b = cram::io::writer::Builder::default().set_reference_sequence_repository(repo);
                let mut w = if rng.chance(1, 2) { b.verif_build_from_writer_with_layout(Vec::new(), 1 + rng.below(6) as usize, 1 + rng.below(3) as usize) } else { b.build_from_writer(Vec::new()) };
                w.write_header(&h).ok()?;
                for r in &recs {
                    w.write_alignment_record(&h, r).ok()?;
                }
                w.try_finish(&h).ok()?;
                let f = w.into_inner();
                let b = vec![4, 6, 26, 27, 30];
                (f, b)
            } else if fmt == Fmt::UtilAln && mode == 3 {
                let b = line_boundaries(&text);
                (text, b)
            } else {
                let mut w = bam::io::Writer::from(Vec::new());
                w.write_header(&h).ok()?;
                for r in &recs {
                    w.write_alignment_record(&h, r).ok()?;
                }
                let mut raw = w.into_inner();
                if rng.chance(1, 3) {
                    // NUL padding after the header text (l_text covers it), as some writers produce
                    pad_header_text(rng, &mut raw, 4);
                }
                if fmt == Fmt::BamRaw || (fmt == Fmt::UtilAln && mode == 1) {
                    let b = vec![4, 8, 12];
                    (raw, b)
                } else {
                    let f = bgzip(rng, &raw);
                    let b = bgzf_boundaries(&f);
                    (f, b)
                }
            }
        }
        Fmt::Bcf | Fmt::BcfRaw | Fmt::UtilVar => {
            let text = gen_vcf_text(rng, false, true, false);
            if fmt == Fmt::UtilVar && mode >= 2 {
                if mode == 3 {
                    let f = bgzip(rng, &text);
                    let b = bgzf_boundaries(&f);
                    (f, b)
                } else {
                    let b = line_boundaries(&text);
                    (text, b)
                }
            } else {
                let (h, recs) = parse_vcf(&text).ok()?;
                use vcf::variant::io::Write as _;
                let mut w = bcf::io::Writer::from(Vec::new());
                w.write_header(&h).ok()?;
                for r in &recs {
                    w.write_variant_record(&h, r).ok()?;
                }
                let mut raw = w.into_inner();
                if rng.chance(1, 3) {
                    pad_header_text(rng, &mut raw, 5);
                }
                if fmt == Fmt::BcfRaw {
                    (raw, vec![3, 5, 9])
                } else {
                    let f = bgzip(rng, &raw);
                    let b = bgzf_boundaries(&f);
                    (f, b)
                }
            }
        }
        Fmt::Sam => {
            let t = gen_sam_text(rng, crlf, false);
            let b = line_boundaries(&t);
            (t, b)
        }
        Fmt::SamGz => {
            let t = gen_sam_text(rng, crlf, false);
            let f = bgzip(rng, &t);
            let b = bgzf_boundaries(&f);
            (f, b)
        }
        Fmt::Vcf => {
            let t = gen_vcf_text(rng, crlf, false, true);
            let b = line_boundaries(&t);
            (t, b)
        }
        Fmt::VcfGz => {
            let t = gen_vcf_text(rng, crlf, false, true);
            let f = bgzip(rng, &t);
            let b = bgzf_boundaries(&f);
            (f, b)
        }
        Fmt::Fasta | Fmt::FastaIdx => {
            let t = gen_fasta_text(rng, crlf, fmt == Fmt::Fasta);
            let b = line_boundaries(&t);
            (t, b)
        }
        Fmt::Fastq | Fmt::FastqIdx => {
            let t = gen_fastq_text(rng, crlf);
            let b = line_boundaries(&t);
            (t, b)
        }
        Fmt::Gff => {
            let t = gen_gff_text(rng, crlf);
            let b = line_boundaries(&t);
            (t, b)
        }
        Fmt::Gtf => {
            let t = gen_gtf_text(rng, crlf);
            let b = line_boundaries(&t);
            (t, b)
        }
        Fmt::Bed => {
            let t = gen_bed_text(rng, crlf);
            let b = line_boundaries(&t);
            (t, b)
        }
        Fmt::Bai => {
            let idx: bam::bai::Index = gen_binning_index(rng, 14, 5, None);
            let mut w = bam::bai::io::Writer::new(Vec::new());
            w.write_index(&idx).ok()?;
            (w.into_inner(), vec![4, 8, 12, 16])
        }
        Fmt::Csi => {
            let (ms, d) = *rng.pick(&[(14u8, 5u8), (14, 6), (12, 5), (10, 4)]);
            let header = if rng.chance(1, 2) { Some(gen_tabix_header(rng)) } else { None };
            let idx: csi::Index = gen_binning_index(rng, ms, d, header);
            let mut w = csi::io::Writer::new(Vec::new());
            w.write_index(&idx).ok()?;
            let f = w.into_inner().finish().ok()?;
            let b = bgzf_boundaries(&f);
            (f, b)
        }
        Fmt::Tbi => {
            let header = gen_tabix_header(rng);
            let idx: tabix::Index = gen_binning_index(rng, 14, 5, Some(header));
            let mut w = tabix::io::Writer::new(Vec::new());
            w.write_index(&idx).ok()?;
            w.try_finish().ok()?;
            let f = w.into_inner().into_inner();
            let b = bgzf_boundaries(&f);
            (f, b)
        }
        Fmt::Gzi => {
            let mut c = 0u64;
            let mut u = 0u64;
            let n = below_either(rng, 1, 4, 600, 10);
            let v: Vec<(u64, u64)> = (0..n)
                .map(|_| {
                    c += 28 + rng.below(65000);
                    u += rng.below(65537);
                    (c, u)
                })
                .collect();
            let mut w = bgzf::gzi::io::Writer::new(Vec::new());
            w.write_index(&bgzf::gzi::Index::from(v)).ok()?;
            let f = w.into_inner();
            let b = (0..f.len()).step_by(16).map(|x| x + 8).collect();
            (f, b)
        }
        Fmt::Fai => {
            let nl = eol(crlf);
            let mut s = String::new();
            let mut off = 0u64;
            for i in 0..below_either(rng, 1, 4, 400, 8) {
                let len = 1 + rng.below(100_000);
                let lb = 1 + rng.below(80);
                off += 5 + rng.below(20);
                s += &format!("sq{i}\t{len}\t{off}\t{lb}\t{}{nl}", lb + if crlf { 2 } else { 1 });
                off += len + len / lb + 1;
            }
            let t = s.into_bytes();
            let b = line_boundaries(&t);
            (t, b)
        }
        Fmt::Crai => {
            use cram::crai;
            let k = below_either(rng, 1, 4, 500, 8);
            let recs: Vec<crai::Record> = (0..k)
                .map(|_| {
                    let (rid, st, span) = if rng.chance(1, 5) { (None, None, 0) } else { (Some(rng.below(100) as usize), noodles_core::Position::new(1 + rng.below(1 << 30) as usize), rng.below(1 << 20) as usize) };
                    crai::Record::new(rid, st, span, rng.below(1 << 40), rng.below(1 << 20), rng.below(1 << 30))
                })
                .collect();
            let mut w = crai::io::Writer::new(Vec::new());
            w.write_index(&recs).ok()?;
            let f = w.finish().ok()?;
            (f, vec![2, 10, 18])
        }
    };
    Some(GenFile { bytes, boundaries, mode })
}

// ---------- renderers: the full observable stream of one read-through, as canonical event strings

const MAX_EVENTS: usize = 5000;

/// `Debug` output made canonical: `HashMap`-backed fields (`indices: {…}` of the VCF/BCF string
/// maps) print in a per-instance random order and are dropped (the ordered `entries` list that
/// follows carries the same information).
fn canon_debug(s: &str) -> String {
    let mut out = String::with_capacity(s.len());
    let mut rest = s;
    while let Some(i) = rest.find("indices: {") {
        out.push_str(&rest[..i]);
        let body = &rest[i + "indices: {".len()..];
        let mut depth = 1usize;
        let mut end = body.len();
        for (j, c) in body.char_indices() {
            match c {
                '{' => depth += 1,
                '}' => {
                    depth -= 1;
                    if depth == 0 {
                        end = j + 1;
                        break;
                    }
                }
                _ => {}
            }
        }
        out.push_str("indices: _");
        rest = &body[end..];
    }
    out.push_str(rest);
    out
}

/// `C12_DUMP=1`: print both full event streams of a failing case to stderr (debugging aid)
fn dump_mode() -> bool {
    static DUMP: std::sync::OnceLock<bool> = std::sync::OnceLock::new();
    *DUMP.get_or_init(|| std::env::var("C12_DUMP").is_ok())
}

fn dbg_trunc<T: std::fmt::Debug>(x: &T) -> String {
    let s = canon_debug(&format!("{x:?}"));
    if s.len() > 600 && !dump_mode() { format!("{}…#{:016x}", &s[..s.char_indices().nth(200).map(|(i, _)| i).unwrap_or(s.len())], fnv(s.as_bytes())) } else { s }
}

fn render_bgzf(r: Box<dyn Read>, mode: u64, ops_seed: u64) -> Vec<String> {
    let mut ev = vec![];
    let mut r = bgzf::io::Reader::new(r);
    let mut rng = Rng::new(ops_seed);
    loop {
        if ev.len() > MAX_EVENTS {
            break;
        }
        let (c, u): (u64, u16) = r.virtual_position().into();
        match mode {
            0 => match r.fill_buf() {
                Ok(b) if b.is_empty() => {
                    ev.push(format!("eof@{c}/{u}#{}", r.position()));
                    break;
                }
                Ok(b) => {
                    let n = b.len();
                    ev.push(format!("block {n}:{:08x}@{c}/{u}", crc32(b)));
                    r.consume(n);
                }
                Err(e) => {
                    ev.push(ev_err(&e));
                    break;
                }
            },
            1 => {
                // read_exact of pseudo-random sizes (fast path inside a block, default_read_exact across blocks)
                let n = *rng.pick(&[1usize, 2, 7, 100, 4000, 65536, 70_000]);
                let mut buf = vec![0u8; n];
                match r.read_exact(&mut buf) {
                    Ok(()) => ev.push(format!("exact {n}:{:08x}@{c}/{u}", crc32(&buf))),
                    Err(e) => {
                        ev.push(ev_err(&e));
                        break;
                    }
                }
            }
            2 => {
                // read with mixed buffer sizes (>= 64 KiB takes the direct path)
                let n = *rng.pick(&[1usize, 3, 500, 65536, 100_000]);
                let mut buf = vec![0u8; n];
                match r.read(&mut buf) {
                    Ok(0) => {
                        ev.push(format!("eof@{c}/{u}#{}", r.position()));
                        break;
                    }
                    Ok(k) => ev.push(format!("read {n}->{k}:{:08x}@{c}/{u}", crc32(&buf[..k]))),
                    Err(e) => {
                        ev.push(ev_err(&e));
                        break;
                    }
                }
            }
            _ => {
                let mut all = vec![];
                match r.read_to_end(&mut all) {
                    Ok(n) => ev.push(format!("all {n}:{:08x}", crc32(&all))),
                    Err(e) => ev.push(ev_err(&e)),
                }
                let (c, u): (u64, u16) = r.virtual_position().into();
                ev.push(format!("end@{c}/{u}#{}", r.position()));
                break;
            }
        }
    }
    ev
}

fn render_alignment_reader<R: Read>(mut r: bam::io::Reader<R>, mode: u64) -> Vec<String> {
    let mut ev = vec![];
    let h = match r.read_header() {
        Ok(h) => h,
        Err(e) => return vec![format!("header {}", ev_err(&e))],
    };
    ev.push(format!("header {}", dbg_trunc(&h)));
    if mode % 2 == 0 {
        for x in r.record_bufs(&h) {
            match x {
                Ok(rec) => ev.push(dbg_trunc(&rec)),
                Err(e) => {
                    ev.push(ev_err(&e));
                    break;
                }
            }
        }
    } else {
        let mut rec = bam::Record::default();
        loop {
            match r.read_record(&mut rec) {
                Ok(0) => break,
                Ok(n) => ev.push(format!("{n} {}", dbg_trunc(&rec))),
                Err(e) => {
                    ev.push(ev_err(&e));
                    break;
                }
            }
        }
    }
    ev.push("end".into());
    ev
}

fn render_variant_reader<R: Read>(mut r: bcf::io::Reader<R>, mode: u64) -> Vec<String> {
    let mut ev = vec![];
    let h = match r.read_header() {
        Ok(h) => h,
        Err(e) => return vec![format!("header {}", ev_err(&e))],
    };
    ev.push(format!("header {}", dbg_trunc(&h)));
    if mode % 2 == 0 {
        for x in r.record_bufs(&h) {
            match x {
                Ok(rec) => ev.push(dbg_trunc(&rec)),
                Err(e) => {
                    ev.push(ev_err(&e));
                    break;
                }
            }
        }
    } else {
        let mut rec = bcf::Record::default();
        loop {
            match r.read_record(&mut rec) {
                Ok(0) => break,
                Ok(n) => ev.push(format!("{n} {}", dbg_trunc(&rec))),
                Err(e) => {
                    ev.push(ev_err(&e));
                    break;
                }
            }
        }
    }
    ev.push("end".into());
    ev
}

fn render_sam<R: BufRead>(mut r: sam::io::Reader<R>, mode: u64) -> Vec<String> {
    let mut ev = vec![];
    let h = match r.read_header() {
        Ok(h) => h,
        Err(e) => return vec![format!("header {}", ev_err(&e))],
    };
    ev.push(format!("header {}", dbg_trunc(&h)));
    if mode % 2 == 0 {
        for x in r.record_bufs(&h) {
            match x {
                Ok(rec) => ev.push(dbg_trunc(&rec)),
                Err(e) => {
                    ev.push(ev_err(&e));
                    break;
                }
            }
        }
    } else {
        let mut rec = sam::Record::default();
        loop {
            match r.read_record(&mut rec) {
                Ok(0) => break,
                Ok(n) => ev.push(format!("{n} {}", dbg_trunc(&rec))),
                Err(e) => {
                    ev.push(ev_err(&e));
                    break;
                }
            }
        }
    }
    ev.push("end".into());
    ev
}

fn render_vcf<R: BufRead>(mut r: vcf::io::Reader<R>, mode: u64) -> Vec<String> {
    let mut ev = vec![];
    let h = match r.read_header() {
        Ok(h) => h,
        Err(e) => return vec![format!("header {}", ev_err(&e))],
    };
    ev.push(format!("header {}", dbg_trunc(&h)));
    if mode % 2 == 0 {
        for x in r.record_bufs(&h) {
            match x {
                Ok(rec) => ev.push(dbg_trunc(&rec)),
                Err(e) => {
                    ev.push(ev_err(&e));
                    break;
                }
            }
        }
    } else {
        let mut rec = vcf::Record::default();
        loop {
            match r.read_record(&mut rec) {
                Ok(0) => break,
                Ok(n) => ev.push(format!("{n} {}", dbg_trunc(&rec))),
                Err(e) => {
                    ev.push(ev_err(&e));
                    break;
                }
            }
        }
    }
    ev.push("end".into());
    ev
}

fn cram_repo() -> fasta::Repository {
    let refs: Vec<fasta::Record> = (0..NREF)
        .map(|k| fasta::Record::new(fasta::record::Definition::new(format!("sq{k}"), None), fasta::record::Sequence::from(ref_seq(k))))
        .collect();
    fasta::Repository::new(refs)
}

fn render_cram(r: Box<dyn Read>, mode: u64) -> Vec<String> {
    let mut ev = vec![];
    let mut r = cram::io::reader::Builder::default().set_reference_sequence_repository(cram_repo()).build_from_reader(r);
    let h = match r.read_header() {
        Ok(h) => h,
        Err(e) => return vec![format!("header {}", ev_err(&e))],
    };
    ev.push(format!("header {}", dbg_trunc(&h)));
    if mode % 2 == 0 {
        for x in r.records(&h) {
            match x {
                Ok(rec) => ev.push(dbg_trunc(&rec)),
                Err(e) => {
                    ev.push(ev_err(&e));
                    break;
                }
            }
        }
    } else {
        let mut c = cram::io::reader::Container::default();
        loop {
            match r.read_container(&mut c) {
                Ok(0) => break,
                Ok(n) => ev.push(format!("container {n} {}", dbg_trunc(c.header()))),
                Err(e) => {
                    ev.push(ev_err(&e));
                    break;
                }
            }
        }
    }
    ev.push("end".into());
    ev
}

fn render_fasta(r: Box<dyn BufRead>, mode: u64) -> Vec<String> {
    let mut ev = vec![];
    let mut r = fasta::io::Reader::new(r);
    if mode % 2 == 0 {
        for x in r.records() {
            match x {
                Ok(rec) => ev.push(dbg_trunc(&rec)),
                Err(e) => {
                    ev.push(ev_err(&e));
                    break;
                }
            }
        }
    } else {
        // low-level API: definition line, then the sequence through the BufRead sequence reader
        loop {
            let mut def = fasta::record::Definition::new("", None);
            match r.read_definition(&mut def) {
                Ok(0) => break,
                Ok(n) => ev.push(format!("def {n} {def:?}")),
                Err(e) => {
                    ev.push(ev_err(&e));
                    break;
                }
            }
            let mut seq = vec![];
            let mut sr = r.sequence_reader();
            match if mode == 1 { sr.read_to_end(&mut seq) } else { read_small(&mut sr, &mut seq) } {
                Ok(n) => ev.push(format!("seq {n}:{:08x}", crc32(&seq))),
                Err(e) => {
                    ev.push(ev_err(&e));
                    break;
                }
            }
        }
    }
    ev.push("end".into());
    ev
}

/// read to the end through `Read::read` with a 5-byte buffer, retrying `Interrupted` as any caller must
fn read_small<R: Read>(r: &mut R, out: &mut Vec<u8>) -> io::Result<usize> {
    let mut buf = [0u8; 5];
    let mut total = 0;
    loop {
        match r.read(&mut buf) {
            Ok(0) => return Ok(total),
            Ok(n) => {
                out.extend_from_slice(&buf[..n]);
                total += n;
            }
            Err(e) if e.kind() == io::ErrorKind::Interrupted => {}
            Err(e) => return Err(e),
        }
    }
}

/// `fasta::io::Reader::query` (seek + `read_sequence_limit`) with the index the indexer builds from
/// the same bytes (delivered plainly): whole sequences and inner sub-ranges
fn render_fasta_query(r: BufReader<Tap>, data: &[u8]) -> Vec<String> {
    let mut ev = vec![];
    let mut ix = fasta::io::Indexer::new(data);
    let mut recs = vec![];
    loop {
        match ix.index_record() {
            Ok(Some(rec)) => recs.push(rec),
            Ok(None) => break,
            Err(_) => {
                ev.push("index: not indexable".into());
                break;
            }
        }
    }
    let mut r = fasta::io::Reader::new(r);
    for rec in &recs {
        let len = rec.length() as usize;
        let name = String::from_utf8_lossy(rec.name()).to_string();
        for (s, e) in [(1, len), (1 + len / 3, (1 + 2 * len / 3).min(len)), (len, len)] {
            if s == 0 || s > e {
                continue;
            }
            let region = noodles_core::Region::new(name.clone(), noodles_core::Position::try_from(s).unwrap()..=noodles_core::Position::try_from(e).unwrap());
            match r.query(&fasta::fai::Index::from(recs.clone()), &region) {
                Ok(x) => ev.push(format!("{name}:{s}-{e} {}:{:08x}", x.sequence().len(), crc32(x.sequence().as_ref()))),
                Err(e) => ev.push(format!("{name}:{s} {}", ev_err(&e))),
            }
        }
    }
    ev.push("end".into());
    ev
}

fn render_fasta_indexer(r: Box<dyn BufRead>) -> Vec<String> {
    let mut ev = vec![];
    let mut ix = fasta::io::Indexer::new(r);
    loop {
        match ix.index_record() {
            Ok(None) => break,
            Ok(Some(rec)) => ev.push(format!("{rec:?}")),
            Err(e) => {
                let e: io::Error = e.into();
                ev.push(ev_err(&e));
                break;
            }
        }
    }
    ev.push("end".into());
    ev
}

fn render_fastq(r: Box<dyn BufRead>, mode: u64) -> Vec<String> {
    let mut ev = vec![];
    let mut r = fastq::io::Reader::new(r);
    if mode % 2 == 0 {
        for x in r.records() {
            match x {
                Ok(rec) => ev.push(dbg_trunc(&rec)),
                Err(e) => {
                    ev.push(ev_err(&e));
                    break;
                }
            }
        }
    } else {
        let mut rec = fastq::Record::default();
        loop {
            match r.read_record(&mut rec) {
                Ok(0) => break,
                Ok(n) => ev.push(format!("{n} {}", dbg_trunc(&rec))),
                Err(e) => {
                    ev.push(ev_err(&e));
                    break;
                }
            }
        }
    }
    ev.push("end".into());
    ev
}

fn render_fastq_indexer(r: Box<dyn BufRead>) -> Vec<String> {
    let mut ev = vec![];
    let mut ix = fastq::io::Indexer::new(r);
    loop {
        match ix.index_record() {
            Ok(None) => break,
            Ok(Some(rec)) => ev.push(format!("{rec:?}")),
            Err(e) => {
                ev.push(ev_err(&e));
                break;
            }
        }
    }
    ev.push("end".into());
    ev
}

fn render_gff(r: Box<dyn BufRead>, mode: u64) -> Vec<String> {
    let mut ev = vec![];
    let mut r = gff::io::Reader::new(r);
    if mode % 2 == 0 {
        for x in r.line_bufs() {
            match x {
                Ok(l) => ev.push(dbg_trunc(&l)),
                Err(e) => {
                    ev.push(ev_err(&e));
                    break;
                }
            }
        }
    } else {
        let mut line = gff::Line::default();
        loop {
            match r.read_line(&mut line) {
                Ok(0) => break,
                Ok(n) => ev.push(format!("{n} {}", dbg_trunc(&line))),
                Err(e) => {
                    ev.push(ev_err(&e));
                    break;
                }
            }
        }
    }
    ev.push("end".into());
    ev
}

fn render_gtf(r: Box<dyn BufRead>, mode: u64) -> Vec<String> {
    let mut ev = vec![];
    let mut r = gtf::io::Reader::new(r);
    if mode % 2 == 0 {
        for x in r.line_bufs() {
            match x {
                Ok(l) => ev.push(dbg_trunc(&l)),
                Err(e) => {
                    ev.push(ev_err(&e));
                    break;
                }
            }
        }
    } else {
        let mut line = gtf::Line::default();
        loop {
            match r.read_line(&mut line) {
                Ok(0) => break,
                Ok(n) => ev.push(format!("{n} {:?}", line.as_ref())),
                Err(e) => {
                    ev.push(ev_err(&e));
                    break;
                }
            }
        }
    }
    ev.push("end".into());
    ev
}

fn render_bed(r: Box<dyn BufRead>, mode: u64) -> Vec<String> {
    let mut ev = vec![];
    macro_rules! go {
        ($n:literal) => {{
            let mut r = bed::io::Reader::<$n, _>::new(r);
            let mut rec = bed::Record::<$n>::default();
            loop {
                match r.read_record(&mut rec) {
                    Ok(0) => break,
                    Ok(n) => ev.push(format!("{n} {}", dbg_trunc(&rec))),
                    Err(e) => {
                        ev.push(ev_err(&e));
                        break;
                    }
                }
                if ev.len() > MAX_EVENTS {
                    break;
                }
            }
        }};
    }
    if mode % 2 == 0 {
        go!(3)
    } else {
        go!(4)
    }
    ev.push("end".into());
    ev
}

fn render_index<T: std::fmt::Debug>(x: io::Result<T>) -> Vec<String> {
    match x {
        Ok(i) => {
            let s = format!("{i:?}");
            vec![format!("index {}:{:016x} {}", s.len(), fnv(s.as_bytes()), &s[..s.len().min(300)])]
        }
        Err(e) => vec![ev_err(&e)],
    }
}

fn render_util_alignment(r: Box<dyn Read>) -> Vec<String> {
    let mut ev = vec![];
    let mut r = match noodles_util::alignment::io::reader::Builder::default().set_reference_sequence_repository(cram_repo()).build_from_reader(r) {
        Ok(r) => r,
        Err(e) => return vec![format!("open {}", ev_err(&e))],
    };
    let h = match r.read_header() {
        Ok(h) => h,
        Err(e) => return vec![format!("header {}", ev_err(&e))],
    };
    ev.push(format!("header {}", dbg_trunc(&h)));
    for x in r.records(&h) {
        match x {
            Ok(rec) => match sam::alignment::RecordBuf::try_from_alignment_record(&h, rec.as_ref()) {
                Ok(b) => ev.push(dbg_trunc(&b)),
                Err(e) => {
                    ev.push(ev_err(&e));
                    break;
                }
            },
            Err(e) => {
                ev.push(ev_err(&e));
                break;
            }
        }
    }
    ev.push("end".into());
    ev
}

fn render_util_variant(r: Box<dyn Read>) -> Vec<String> {
    let mut ev = vec![];
    let mut r = match noodles_util::variant::io::reader::Builder::default().build_from_reader(r) {
        Ok(r) => r,
        Err(e) => return vec![format!("open {}", ev_err(&e))],
    };
    let h = match r.read_header() {
        Ok(h) => h,
        Err(e) => return vec![format!("header {}", ev_err(&e))],
    };
    ev.push(format!("header {}", dbg_trunc(&h)));
    for x in r.records(&h) {
        match x {
            Ok(rec) => match vcf::variant::RecordBuf::try_from_variant_record(&h, rec.as_ref()) {
                Ok(b) => ev.push(dbg_trunc(&b)),
                Err(e) => {
                    ev.push(ev_err(&e));
                    break;
                }
            },
            Err(e) => {
                ev.push(ev_err(&e));
                break;
            }
        }
    }
    ev.push("end".into());
    ev
}

/// One read-through of `data` as format `fmt` under `plan` (None = plain in-memory cursor).
pub fn render(fmt: Fmt, data: &[u8], mode: u64, ops_seed: u64, plan: Option<&Plan>, stat: &Rc<TapStat>) -> Vec<String> {
    let res = guarded(|| match fmt {
        Fmt::Bgzf => render_bgzf(src_read(data, plan, stat), mode, ops_seed),
        Fmt::Bam => render_alignment_reader(bam::io::Reader::new(src_read(data, plan, stat)), mode),
        Fmt::BamRaw => render_alignment_reader(bam::io::Reader::from(src_read(data, plan, stat)), mode),
        Fmt::Bcf => render_variant_reader(bcf::io::Reader::new(src_read(data, plan, stat)), mode),
        Fmt::BcfRaw => render_variant_reader(bcf::io::Reader::from(src_read(data, plan, stat)), mode),
        Fmt::Cram => render_cram(src_read(data, plan, stat), mode),
        Fmt::Sam => render_sam(sam::io::Reader::new(src_bufread(data, plan, stat)), mode),
        Fmt::SamGz => render_sam(sam::io::Reader::new(bgzf::io::Reader::new(src_read(data, plan, stat))), mode),
        Fmt::Vcf => render_vcf(vcf::io::Reader::new(src_bufread(data, plan, stat)), mode),
        Fmt::VcfGz => render_vcf(vcf::io::Reader::new(bgzf::io::Reader::new(src_read(data, plan, stat))), mode),
        Fmt::Fasta if mode == 3 => render_fasta_query(src_bufread_seek(data, plan, stat), data),
        Fmt::Fasta => render_fasta(src_bufread(data, plan, stat), mode),
        Fmt::FastaIdx => render_fasta_indexer(src_bufread(data, plan, stat)),
        Fmt::Fastq => render_fastq(src_bufread(data, plan, stat), mode),
        Fmt::FastqIdx => render_fastq_indexer(src_bufread(data, plan, stat)),
        Fmt::Gff => render_gff(src_bufread(data, plan, stat), mode),
        Fmt::Gtf => render_gtf(src_bufread(data, plan, stat), mode),
        Fmt::Bed => render_bed(src_bufread(data, plan, stat), mode),
        Fmt::Bai => render_index(bam::bai::io::Reader::new(src_read(data, plan, stat)).read_index()),
        Fmt::Csi => render_index(csi::io::Reader::new(src_read(data, plan, stat)).read_index()),
        Fmt::Tbi => render_index(tabix::io::Reader::new(src_read(data, plan, stat)).read_index()),
        Fmt::Gzi => render_index(bgzf::gzi::io::Reader::new(src_read(data, plan, stat)).read_index()),
        Fmt::Fai => render_index(fasta::fai::io::Reader::new(src_bufread(data, plan, stat)).read_index()),
        Fmt::Crai => render_index(cram::crai::io::Reader::new(src_read(data, plan, stat)).read_index()),
        Fmt::UtilAln => render_util_alignment(src_read(data, plan, stat)),
        Fmt::UtilVar => render_util_variant(src_read(data, plan, stat)),
    });
    match res {
        Ok(ev) => ev,
        Err(p) => vec![format!("PANIC {p}")],
    }
}

// ---------- the oracle

fn first_diff(a: &[String], b: &[String]) -> (usize, String, String) {
    let n = a.len().max(b.len());
    for i in 0..n {
        let x = a.get(i).map(|s| s.as_str()).unwrap_or("<nothing>");
        let y = b.get(i).map(|s| s.as_str()).unwrap_or("<nothing>");
        if x != y {
            let cut = |s: &str| if s.len() > 220 { format!("{}…", &s[..s.char_indices().nth(200).map(|(i, _)| i).unwrap_or(s.len())]) } else { s.to_string() };
            return (i, cut(x), cut(y));
        }
    }
    (n, String::new(), String::new())
}

pub fn make_plan(rng: &mut Rng, fmt: Fmt, kind: usize, cap_sel: usize, len: usize, boundaries: &[usize]) -> Plan {
    let (sched, fallback, name) = schedule(rng, kind, len, boundaries);
    // cap_sel: 0..7 = BufReader capacity, 7 = no BufReader (only for readers that take `Read`)
    let cap = if fmt.wants_bufread() { Some(CAPS[cap_sel % 7]) } else if cap_sel % 8 == 7 { None } else { Some(CAPS[cap_sel % 8]) };
    Plan { sched, fallback, name, cap }
}

/// One oracle case: file `sub` of format `fmt`, schedule family `kind`, capacity selector `cap_sel`.
fn format_case(ctx: &mut Ctx, fmt: Fmt, sub: u64, kind: usize, cap_sel: usize) {
    let mut rng = Rng::new(sub);
    // a writer that rejects (or panics on) the generated content is another property's matter
    let Some(g) = guarded(|| gen_file(fmt, &mut rng)).ok().flatten() else {
        ctx.bump(&format!("gen_rejected_by_writer:{}", fmt.name()));
        return;
    };
    format_check(ctx, fmt, &g, sub, kind, cap_sel, format!("fmt {} {sub} {kind} {cap_sel}", fmt.name()), "");
}

/// Compare the plain-cursor run of `g` with its run under schedule family `kind` / capacity selector
/// `cap_sel`. `tag` (normally empty) is appended to the failure class: hand-written MALFORMED inputs
/// report under `…-malformed` so that they cannot be confused with failures on valid files.
fn format_check(ctx: &mut Ctx, fmt: Fmt, g: &GenFile, sub: u64, kind: usize, cap_sel: usize, case: String, tag: &str) {
    let ops_seed = sub ^ 0x5151;
    let stat0 = Rc::new(TapStat::default());
    let plain = render(fmt, &g.bytes, g.mode, ops_seed, None, &stat0);
    let mut prng = Rng::new(sub.wrapping_mul(31).wrapping_add(kind as u64 * 8 + cap_sel as u64));
    let plan = make_plan(&mut prng, fmt, kind, cap_sel, g.bytes.len(), &g.boundaries);
    let stat = Rc::new(TapStat::default());
    let got = render(fmt, &g.bytes, g.mode, ops_seed, Some(&plan), &stat);
    let nontrivial = plain.len() >= 3 && !plain.iter().any(|e| e.starts_with("ERR") || e.starts_with("PANIC"));
    ctx.eval(if nontrivial { Some(fnv(case.as_bytes())) } else { None });
    ctx.bump(&format!("fmt:{}", fmt.name()));
    ctx.bump(&format!("schedule:{}", plan.name));
    ctx.bump(&format!("bufreader_cap:{}", plan.cap.map(|c| c.to_string()).unwrap_or("none".into())));
    ctx.bump(&format!("file_size:{}", match g.bytes.len() { 0..=99 => "<100", 100..=999 => "<1k", 1000..=9999 => "<10k", 10_000..=99_999 => "<100k", _ => ">=100k" }));
    if stat.interrupts.get() > 0 {
        ctx.bump("cases_with_interruptions_delivered");
    }
    if plain.iter().any(|e| e.starts_with("ERR")) {
        ctx.bump(&format!("plain_run_has_error:{}", fmt.name()));
    }
    if plain.iter().any(|e| e.starts_with("PANIC")) {
        // a panic on a plain cursor is C15's matter; reported here only as a histogram entry
        ctx.bump(&format!("plain_run_panics:{}", fmt.name()));
        return;
    }
    if got == plain {
        return;
    }
    let (i, want, have) = first_diff(&plain, &got);
    if dump_mode() {
        eprintln!("--- {case}\nPLAIN: {}\nSCHED: {}", plain.get(i).map(|s| s.as_str()).unwrap_or("-"), got.get(i).map(|s| s.as_str()).unwrap_or("-"));
    }
    let how = format!("schedule={} cap={:?} interruptions_delivered={} reads={}", plan.name, plan.cap, stat.interrupts.get(), stat.reads.get());
    // noodles-util autodetection (`detect_compression_method` / `detect_format`) decides on the first
    // `fill_buf` window only and does not retry an interrupted refill: finding F11, one class.
    let class = if got.iter().any(|e| e.starts_with("PANIC")) {
        "panic-under-schedule"
    } else if matches!(fmt, Fmt::UtilAln | Fmt::UtilVar) {
        "util-autodetect-first-window"
    } else if have.contains("err:interrupted") {
        "interrupted-surfaced"
    } else {
        "chunk-dependent"
    };
    if class == "util-autodetect-first-window" {
        ctx.fail(class, format!("{} reader, {} bytes, mode {}: event {i} differs — plain cursor: [{want}] under {how}: [{have}]", fmt.name(), g.bytes.len(), g.mode), case);
        return;
    }
    ctx.fail(
        &if tag.is_empty() { format!("{class}:{}", fmt.name()) } else { format!("{class}{tag}") },
        format!("{} reader, {} bytes, mode {}: event {i} differs — plain cursor: [{want}] under {how}: [{have}]", fmt.name(), g.bytes.len(), g.mode),
        case,
    );
}

pub fn formats_suite(ctx: &mut Ctx) {
    let files_per_fmt = ctx.n(16, 400);
    for (fi, &fmt) in FMTS.iter().enumerate() {
        for it in 0..files_per_fmt {
            let sub = ctx.seed.wrapping_mul(1_000_003).wrapping_add(fi as u64 * 100_000 + it);
            for kind in 0..7 {
                let cap_sel = ctx.rng.below(8) as usize;
                format_case(ctx, fmt, sub, kind, cap_sel);
            }
        }
    }
}

// ------------------------------------------------------------------------------------------------
// loops suite: the modelled loops, real code vs the Lean model under the same schedule

/// the schedule as the Lean driver reads it; a finite fallback `f` becomes `c<f>` repeated often
/// enough to outlast every read call on `len` bytes
fn fmt_sched(sched: &[Delivery], fallback: usize, len: usize) -> String {
    let mut toks: Vec<String> = vec![];
    let mut i = 0;
    while i < sched.len() {
        let mut j = i;
        while j < sched.len() && sched[j] == sched[i] {
            j += 1;
        }
        let t = match sched[i] {
            Delivery::Chunk(n) => format!("c{}", n.max(1)),
            Delivery::Interrupted => "i".to_string(),
        };
        toks.push(if j - i > 1 { format!("{t}*{}", j - i) } else { t });
        i = j;
    }
    if fallback != usize::MAX {
        toks.push(format!("c{}*{}", fallback, 2 * len + 64));
    }
    if toks.is_empty() { "-".into() } else { toks.join(",") }
}

fn explicit_sched(sched: &[Delivery], fallback: usize, len: usize) -> Vec<Delivery> {
    let mut v = sched.to_vec();
    if fallback != usize::MAX {
        v.extend(std::iter::repeat(Delivery::Chunk(fallback)).take(2 * len + 64));
    }
    v
}

#[derive(Clone, Copy, Debug, PartialEq, Eq)]
enum Loop {
    Bam,
    Frames,
    Fastq,
    Bed,
    SamHdr,
    VcfHdr,
}

const LOOPS: [Loop; 6] = [Loop::Bam, Loop::Frames, Loop::Fastq, Loop::Bed, Loop::SamHdr, Loop::VcfHdr];

impl Loop {
    fn name(self) -> &'static str {
        match self {
            Loop::Bam => "bam",
            Loop::Frames => "frames",
            Loop::Fastq => "fastq",
            Loop::Bed => "bed",
            Loop::SamHdr => "sam-header",
            Loop::VcfHdr => "vcf-header",
        }
    }
    fn parse(s: &str) -> Option<Loop> {
        LOOPS.into_iter().find(|l| l.name() == s)
    }
    fn buffered(self) -> bool {
        matches!(self, Loop::Fastq | Loop::Bed | Loop::SamHdr | Loop::VcfHdr)
    }
}

/// raw BAM record stream (no header) written by the real writer, then possibly damaged
fn gen_bam_records(rng: &mut Rng) -> Option<Vec<u8>> {
    use sam::alignment::io::Write as _;
    let mut text = gen_sam_text(rng, false, true);
    if text.len() > 6000 {
        text = gen_sam_text(&mut Rng::new(rng.next()), false, true);
    }
    let (h, recs) = parse_sam(&text).ok()?;
    let mut w = bam::io::Writer::from(Vec::new());
    for r in recs.iter().take(6) {
        if r.sequence().len() > 400 {
            continue;
        }
        w.write_alignment_record(&h, r).ok()?;
    }
    let mut raw = w.into_inner();
    match rng.below(8) {
        0 if !raw.is_empty() => raw.truncate(rng.below(raw.len() as u64) as usize), // cut anywhere
        1 if raw.len() >= 4 => {
            // a block size of 0 in the middle: read as end of stream
            let at = record_starts(&raw);
            let k = *rng.pick(&at);
            raw[k..k + 4].copy_from_slice(&0u32.to_le_bytes());
        }
        2 if raw.len() >= 4 => {
            // a record shorter than the fixed fields / than its own lengths: `validate` fails
            let at = record_starts(&raw);
            let k = *rng.pick(&at);
            let n = *rng.pick(&[1u32, 31, 32, 33]);
            raw[k..k + 4].copy_from_slice(&n.to_le_bytes());
        }
        3 => raw.extend_from_slice(&[1, 0]), // partial block size at the end
        _ => {}
    }
    Some(raw)
}

fn record_starts(raw: &[u8]) -> Vec<usize> {
    let mut v = vec![];
    let mut at = 0;
    while at + 4 <= raw.len() {
        v.push(at);
        at += 4 + u32::from_le_bytes(raw[at..at + 4].try_into().unwrap()) as usize;
    }
    if v.is_empty() {
        v.push(0);
    }
    v
}

fn gen_frames(rng: &mut Rng) -> Vec<u8> {
    let n = below_either(rng, 1, 3, 3000, 200) as usize;
    let raw = super::c01::gen_payload(rng, n);
    let mut f = bgzip(rng, &raw);
    if rng.chance(1, 4) {
        // a full 64 KiB member (the frame is small: the payload is one repeated byte)
        let mut w = bgzf::io::Writer::new(Vec::new());
        w.write_all(&vec![b'z'; 65_280]).unwrap();
        w.flush().unwrap();
        w.write_all(b"tail").unwrap();
        f.extend_from_slice(&w.finish().unwrap());
    }
    let starts: Vec<usize> = {
        let mut v = vec![];
        let mut at = 0;
        while at + 18 <= f.len() {
            v.push(at);
            at += u16::from_le_bytes([f[at + 16], f[at + 17]]) as usize + 1;
        }
        v
    };
    match rng.below(10) {
        0 => f.truncate(rng.below(f.len() as u64 + 1) as usize), // cut anywhere (partial header = end of stream)
        1 => f.truncate(f.len() - 28),                           // no EOF marker
        2 => {
            let k = *rng.pick(&starts);
            f[k + *rng.pick(&[0usize, 1, 2, 3, 10, 12, 13, 14])] ^= 0x40; // not a BGZF header
        }
        3 => {
            let k = *rng.pick(&starts);
            // BSIZE + 1 < 26: `invalid frame size` (a larger wrong BSIZE would cut the DEFLATE payload,
            // whose decoding is not part of the model)
            let b = *rng.pick(&[0u16, 17, 24]);
            f[k + 16..k + 18].copy_from_slice(&b.to_le_bytes());
            f.truncate(k + 60.min(f.len() - k));
        }
        4 => {
            // ISIZE > 64 KiB in the trailer of the last member
            let n = f.len();
            f[n - 4..].copy_from_slice(&65_537u32.to_le_bytes());
        }
        _ => {}
    }
    f
}

fn gen_fastq_small(rng: &mut Rng) -> Vec<u8> {
    let crlf = rng.chance(1, 2);
    let mut t = gen_fastq_text(rng, crlf);
    if t.len() > 3000 {
        t = gen_fastq_text(&mut Rng::new(rng.next()), crlf);
        t.truncate(3000);
    }
    match rng.below(10) {
        0 if !t.is_empty() => t.truncate(rng.below(t.len() as u64) as usize),
        1 if !t.is_empty() => {
            let k = rng.below(t.len() as u64) as usize;
            t[k] = *rng.pick(&[b'@', b'+', b'\n', b'\r', b' ', b'\t', b'x']);
        }
        _ => {}
    }
    t
}

fn gen_bed_small(rng: &mut Rng) -> Vec<u8> {
    let crlf = rng.chance(1, 2);
    let mut t = gen_bed_text(rng, crlf);
    if t.len() > 3000 {
        t = gen_bed_text(&mut Rng::new(rng.next()), crlf);
        t.truncate(3000);
    }
    match rng.below(10) {
        0 if !t.is_empty() => t.truncate(rng.below(t.len() as u64) as usize),
        1 if !t.is_empty() => {
            let k = rng.below(t.len() as u64) as usize;
            t[k] = *rng.pick(&[b'#', b'\n', b'\r', b'\t', b'x']);
        }
        _ => {}
    }
    t
}

fn gen_loop_data(l: Loop, rng: &mut Rng) -> Option<Vec<u8>> {
    match l {
        Loop::Bam => gen_bam_records(rng),
        Loop::Frames => Some(gen_frames(rng)),
        Loop::Fastq => Some(gen_fastq_small(rng)),
        Loop::Bed => Some(gen_bed_small(rng)),
        Loop::SamHdr | Loop::VcfHdr => {
            let crlf = rng.chance(1, 2);
            let mut t = Vec::new();
            for _ in 0..4 {
                t = if l == Loop::SamHdr { gen_sam_text(rng, crlf, false) } else { gen_vcf_text(rng, crlf, false, true) };
                if t.len() <= 4000 {
                    break;
                }
            }
            t.truncate(4000);
            match rng.below(10) {
                0 if !t.is_empty() => t.truncate(rng.below(t.len() as u64) as usize),
                1 | 2 if !t.is_empty() => {
                    let k = rng.below(t.len().min(400) as u64) as usize;
                    t[k] = *rng.pick(&[b'@', b'#', b'\n', b'\r', b'x']);
                }
                _ => {}
            }
            Some(t)
        }
    }
}

/// the raw header lines through noodles' `header::Reader` (a `BufRead` adaptor), read the way
/// `read_header` reads them: `read_until(b'\n')` + LF / CRLF strip until it returns 0
fn header_lines<R: BufRead>(hr: &mut R) -> Result<Vec<String>, String> {
    let mut lines = vec![];
    loop {
        let mut buf = Vec::new();
        match hr.read_until(b'\n', &mut buf) {
            Ok(0) => return Ok(lines),
            Ok(_) => {
                if buf.ends_with(b"\n") {
                    buf.pop();
                    if buf.ends_with(b"\r") {
                        buf.pop();
                    }
                }
                lines.push(hex(&buf));
            }
            Err(e) => return Err(errclass(&e).to_string()),
        }
    }
}

fn dec(n: usize) -> String {
    hex(n.to_string().as_bytes())
}

/// run the REAL loop over `data` delivered by (`sched`, `cap`); canonical answer line
fn real_loop(l: Loop, data: &[u8], sched: Vec<Delivery>, cap: usize) -> String {
    let src = SchedReader::new(data.to_vec(), sched, usize::MAX);
    let res = guarded(|| match l {
        Loop::Bam => {
            let mut r = bam::io::Reader::from(src);
            let mut rec = bam::Record::default();
            let mut recs = vec![];
            let end;
            loop {
                match r.read_record(&mut rec) {
                    Ok(0) => {
                        end = "eof".to_string();
                        break;
                    }
                    Ok(n) => recs.push(format!("{n}:{}", hex(rec.name().map(|n| n.to_vec()).unwrap_or(b"*".to_vec()).as_slice()))),
                    Err(e) => {
                        end = errclass(&e).to_string();
                        break;
                    }
                }
            }
            format!("recs={} end={end}@{}", if recs.is_empty() { "-".into() } else { recs.join(",") }, r.get_ref().pos)
        }
        Loop::Frames => {
            let mut r = bgzf::io::Reader::new(src);
            let mut blocks = vec![];
            let end;
            loop {
                match r.fill_buf() {
                    Ok(b) => {
                        let n = b.len();
                        blocks.push(format!("{}:{n}", r.position()));
                        if n == 0 {
                            end = "eof".to_string();
                            break;
                        }
                        r.consume(n);
                    }
                    Err(e) => {
                        end = errclass(&e).to_string();
                        break;
                    }
                }
            }
            format!("blocks={} end={end}@{}", if blocks.is_empty() { "-".into() } else { blocks.join(",") }, r.get_ref().pos)
        }
        Loop::Fastq => {
            let mut r = fastq::io::Reader::new(BufReader::with_capacity(cap, src));
            let mut rec = fastq::Record::default();
            let mut recs = vec![];
            let end;
            loop {
                match r.read_record(&mut rec) {
                    Ok(0) => {
                        end = "eof".to_string();
                        break;
                    }
                    Ok(n) => recs.push(format!("{n}:{}:{}:{}:{}", hex(rec.name()), hex(rec.description()), hex(rec.sequence()), hex(rec.quality_scores()))),
                    Err(e) => {
                        end = errclass(&e).to_string();
                        break;
                    }
                }
            }
            let at = r.get_ref().get_ref().pos - r.get_ref().buffer().len();
            format!("recs={} end={end}@{at}", if recs.is_empty() { "-".into() } else { recs.join(",") })
        }
        Loop::Bed => {
            let mut r = bed::io::Reader::<3, _>::new(BufReader::with_capacity(cap, src));
            let mut rec = bed::Record::<3>::default();
            let mut recs = vec![];
            let end;
            loop {
                match r.read_record(&mut rec) {
                    Ok(0) => {
                        end = "eof".to_string();
                        break;
                    }
                    Ok(n) => {
                        let st = rec.feature_start().map(|p| dec(usize::from(p) - 1)).unwrap_or("?".into());
                        let en = match rec.feature_end() {
                            Some(Ok(p)) => dec(usize::from(p)),
                            _ => "?".into(),
                        };
                        let mut f = vec![hex(rec.reference_sequence_name()), st, en];
                        f.extend(rec.other_fields().iter().map(|x| hex(x)));
                        recs.push(format!("{n}:{}", f.join(":")));
                    }
                    Err(e) => {
                        end = errclass(&e).to_string();
                        break;
                    }
                }
            }
            let at = r.get_ref().get_ref().pos - r.get_ref().buffer().len();
            format!("recs={} end={end}@{at}", if recs.is_empty() { "-".into() } else { recs.join(",") })
        }
        Loop::SamHdr => {
            let mut r = sam::io::Reader::new(BufReader::with_capacity(cap, src));
            let res = header_lines(&mut r.header_reader());
            let at = r.get_ref().get_ref().pos - r.get_ref().buffer().len();
            match res {
                Ok(l) => format!("lines={} end=ok@{at}", if l.is_empty() { "-".into() } else { l.join(",") }),
                Err(e) => format!("lines=- end={e}@{at}"),
            }
        }
        Loop::VcfHdr => {
            let mut r = vcf::io::Reader::new(BufReader::with_capacity(cap, src));
            let res = header_lines(&mut r.header_reader());
            let at = r.get_ref().get_ref().pos - r.get_ref().buffer().len();
            match res {
                Ok(l) => format!("lines={} end=ok@{at}", if l.is_empty() { "-".into() } else { l.join(",") }),
                Err(e) => format!("lines=- end={e}@{at}"),
            }
        }
    });
    res.unwrap_or_else(|p| format!("panic:{p}"))
}

/// One loops case: oracle (scheduled run = plain-cursor run, on the real code) and — when the oracle
/// holds — the correspondence request for the Lean model.
fn loop_case(ctx: &mut Ctx, l: Loop, sub: u64, kind: usize, cap_sel: usize, emit_corr: bool) {
    let mut rng = Rng::new(sub);
    let Some(data) = guarded(|| gen_loop_data(l, &mut rng)).ok().flatten() else {
        ctx.bump(&format!("gen_rejected_by_writer:loop-{}", l.name()));
        return;
    };
    let mut prng = Rng::new(sub.wrapping_mul(31).wrapping_add(kind as u64 * 8 + cap_sel as u64));
    let bounds: Vec<usize> = if l == Loop::Frames { bgzf_boundaries(&data) } else if l == Loop::Bam { record_starts(&data).into_iter().flat_map(|x| [x, x + 4]).collect() } else { line_boundaries(&data) };
    let (sched, fallback, sname) = schedule(&mut prng, kind, data.len(), &bounds);
    let cap = if l.buffered() { CAPS[cap_sel % 7] } else { 0 };
    let case = format!("loop {} {sub} {kind} {cap_sel}", l.name());
    loop_check(ctx, l, &data, &sched, fallback, &sname, cap, case, emit_corr);
}

#[allow(clippy::too_many_arguments)]
fn loop_check(ctx: &mut Ctx, l: Loop, data: &[u8], sched: &[Delivery], fallback: usize, sname: &str, cap: usize, case: String, emit_corr: bool) {
    let plain = real_loop(l, data, vec![], data.len().max(1) + 8);
    let got = real_loop(l, data, explicit_sched(sched, fallback, data.len()), cap);
    let nontrivial = plain.contains(',') && !plain.contains("err") && !sched.is_empty();
    ctx.eval(if nontrivial { Some(fnv(case.as_bytes())) } else { None });
    ctx.bump(&format!("loop:{}", l.name()));
    ctx.bump(&format!("loop_schedule:{sname}"));
    ctx.bump(&format!("loop_end:{}", plain.rsplit("end=").next().unwrap_or("?").split('@').next().unwrap_or("?")));
    if plain.starts_with("panic") {
        ctx.bump(&format!("plain_run_panics:loop-{}", l.name()));
        return;
    }
    if got != plain {
        let class = if got.starts_with("panic") {
            "panic-under-schedule"
        } else if got.contains("err:interrupted") {
            "interrupted-surfaced"
        } else {
            "chunk-dependent"
        };
        let cut = |s: &str| if s.len() > 300 { format!("{}…", &s[..300]) } else { s.to_string() };
        ctx.fail(
            &format!("{class}:{}", loop_fmt_name(l)),
            format!("{} loop over {} bytes, schedule={sname} cap={cap}: plain cursor gives [{}], scheduled source gives [{}]", l.name(), data.len(), cut(&plain), cut(&got)),
            case,
        );
        return;
    }
    if emit_corr && got.contains(":?") {
        // a BED start/end column that is not a number: the reader exposes only the parsed value, so the
        // raw field cannot be compared with the model
        ctx.bump("corr_skipped:bed_number_unparseable");
    } else if emit_corr {
        let sc = fmt_sched(sched, fallback, data.len());
        let req = match l {
            Loop::Bam | Loop::Frames => format!("c12 {} {} {sc}", l.name(), hex(data)),
            Loop::Fastq | Loop::Bed => format!("c12 {} 1 {} {sc} {cap}", l.name(), hex(data)),
            Loop::SamHdr => format!("c12 hdr 40 {} {sc} {cap}", hex(data)),
            Loop::VcfHdr => format!("c12 hdr 23 {} {sc} {cap}", hex(data)),
        };
        ctx.sample(|| if req.len() < 380 { req.clone() } else { String::new() });
        ctx.corr(req, got);
    }
}

/// the oracle classes of the loops suite use the same names as the formats suite
fn loop_fmt_name(l: Loop) -> &'static str {
    match l {
        Loop::Bam => "bam-raw",
        Loop::Frames => "bgzf",
        Loop::Fastq => "fastq",
        Loop::Bed => "bed",
        Loop::SamHdr => "sam",
        Loop::VcfHdr => "vcf",
    }
}

pub fn loops_suite(ctx: &mut Ctx) {
    let n = ctx.n(150, 3000);
    for (li, l) in LOOPS.into_iter().enumerate() {
        for it in 0..n {
            let sub = ctx.seed.wrapping_mul(2_000_003).wrapping_add(li as u64 * 1_000_000 + it);
            for kind in 0..7 {
                let cap_sel = ctx.rng.below(7) as usize;
                loop_case(ctx, l, sub, kind, cap_sel, true);
            }
        }
    }
}

/// hand-written boundary cases, always run first (index = replay id)
fn corpus_loops() -> Vec<(Loop, Vec<u8>, Vec<Delivery>, usize, usize)> {
    use Delivery::{Chunk as C, Interrupted as I};
    let eof = super::c01::EOF.to_vec();
    let blk = super::c01::stored_member(b"noodles");
    let mut two = blk.clone();
    two.extend_from_slice(&eof);
    two.extend_from_slice(&super::c01::stored_member(b"bgzf"));
    two.extend_from_slice(&eof);
    // one minimal BAM record: block_size 34, l_read_name 2 ("r\0"), no cigar, no bases
    let mut rec = vec![0u8; 38];
    rec[0] = 34;
    rec[4 + 8] = 2;
    rec[4 + 32] = b'r';
    let mut recs2 = rec.clone();
    recs2.extend_from_slice(&rec);
    vec![
        // FASTQ: CRLF name line split between CR and LF (capacity 1 and a 4-byte first chunk)
        (Loop::Fastq, b"@r0\r\nAC\r\n+\r\nII\r\n".to_vec(), vec![], 1, 1),
        (Loop::Fastq, b"@r0\r\nAC\r\n+\r\nII\r\n".to_vec(), vec![C(4)], usize::MAX, 64),
        // FASTQ: interruption before the first refill of every scanner
        (Loop::Fastq, b"@r0 d\nAC\n+r0\nII\n@r1\nG\n+\nI".to_vec(), vec![I, C(1), I, C(3), I, C(2), I, C(5), I, I, C(4), I], usize::MAX, 3),
        // FASTQ: empty input, lone '@', missing '+', quality line starting with '@'
        (Loop::Fastq, b"".to_vec(), vec![I], usize::MAX, 1),
        (Loop::Fastq, b"@".to_vec(), vec![C(1), I], usize::MAX, 2),
        (Loop::Fastq, b"@r0\nAC\nII\n".to_vec(), vec![], 2, 7),
        (Loop::Fastq, b"@r0\nAC\n+\n@I\n@r1\nA\n+\n+\n".to_vec(), vec![], 1, 2),
        // BED: comment lines, CRLF, other fields, no final newline; interruptions everywhere
        (Loop::Bed, b"#c1\n#c2\r\nsq0\t0\t10\r\nsq1\t5\t7\tname\t0\t+".to_vec(), vec![I, C(2), I, C(1), I, C(7), I, C(1), I], 1, 2),
        (Loop::Bed, b"sq0\t0\t10\n".to_vec(), vec![I], usize::MAX, 64),
        (Loop::Bed, b"sq0\t0\n".to_vec(), vec![], 1, 1),
        (Loop::Bed, b"sq0\t0\t10\t\n\nsq1\t1\t2\n".to_vec(), vec![], 2, 3),
        // BAM: block-size prefix split 1+3 and 3+1 with interruptions; clean EOF; partial prefix; zero size
        (Loop::Bam, recs2.clone(), vec![C(1), I, C(3), C(33), I, C(1), C(3), I, C(1)], usize::MAX, 0),
        (Loop::Bam, recs2.clone(), vec![], 1, 0),
        (Loop::Bam, rec[..3].to_vec(), vec![C(1), I], 1, 0),
        (Loop::Bam, rec[..20].to_vec(), vec![I, C(5)], usize::MAX, 0),
        (Loop::Bam, vec![0, 0, 0, 0, 1, 2, 3], vec![C(2)], usize::MAX, 0),
        (Loop::Bam, vec![], vec![I, I], usize::MAX, 0),
        // BGZF: header split 17+1, frame split inside the trailer, empty member mid-file, partial header at the end
        (Loop::Frames, two.clone(), vec![C(17), I, C(1), C(20), I, C(3)], 1, 0),
        (Loop::Frames, two.clone(), vec![], 7, 0),
        (Loop::Frames, two[..two.len() - 11].to_vec(), vec![C(30)], 2, 0),
        (Loop::Frames, blk[..blk.len() - 1].to_vec(), vec![I], 1, 0),
        (Loop::Frames, vec![], vec![I], usize::MAX, 0),
        // header sub-readers: the end of the header falls on a window boundary; CRLF; no record; '@' / '#' inside a line
        (Loop::SamHdr, b"@HD\tVN:1.6\r\n@CO\tx@y\nr0\t4\t*\n".to_vec(), vec![I, C(3), I, C(9), C(1), I, C(7)], 1, 1),
        (Loop::SamHdr, b"@HD\tVN:1.6\n@CO\tx".to_vec(), vec![], 2, 3),
        (Loop::SamHdr, b"r0\t4\t*\n@HD\n".to_vec(), vec![I], usize::MAX, 64),
        (Loop::SamHdr, b"".to_vec(), vec![I, I], usize::MAX, 2),
        (Loop::VcfHdr, b"##fileformat=VCFv4.3\r\n#CHROM\tPOS\nsq0\t1\t#\n".to_vec(), vec![C(22), I, C(1)], 1, 2),
        (Loop::VcfHdr, b"##a\n\n#b\n".to_vec(), vec![], 1, 1),
    ]
}

/// hand-written MALFORMED text (a `>` or a bare CR inside a FASTA sequence line): the FASTA sequence
/// reader and indexer test `src[0] == b'>'` and strip a trailing CR per `fill_buf` window, so their
/// answer on such input depends on where the windows end. Reported under the class `chunk-dependent-malformed-fasta-line`.
fn corpus_malformed() -> Vec<(Fmt, Vec<u8>, u64)> {
    vec![
        (Fmt::Fasta, b">s\nAC>GT\nAA\n".to_vec(), 0),
        (Fmt::Fasta, b">s\nAC\rGT\nAA\n".to_vec(), 0),
        (Fmt::FastaIdx, b">s\nAC>GT\nAA\n".to_vec(), 0),
        (Fmt::FastaIdx, b">s\nAC\rGT\nAAAAA\n".to_vec(), 0),
    ]
}

fn corpus(ctx: &mut Ctx) {
    for (i, (l, data, sched, fallback, cap)) in corpus_loops().into_iter().enumerate() {
        loop_check(ctx, l, &data, &sched, fallback, "corpus", cap, format!("corpus-loop {i}"), true);
        ctx.bump("corpus_loop_cases");
    }
    for (i, (fmt, bytes, mode)) in corpus_malformed().into_iter().enumerate() {
        let g = GenFile { boundaries: line_boundaries(&bytes), bytes, mode };
        for kind in 0..3 {
            for cap_sel in 0..3 {
                format_check(ctx, fmt, &g, 0, kind, cap_sel, format!("corpus-malformed {i} {kind} {cap_sel}"), "-malformed-fasta-line");
            }
        }
    }
}

pub fn run(ctx: &mut Ctx) {
    if let Some(case) = ctx.replay_only.clone() {
        replay(ctx, &case);
        return;
    }
    corpus(ctx);
    loops_suite(ctx);
    formats_suite(ctx);
    super::c12_more::run(ctx);
    super::c12_comp::run(ctx);
}

fn replay(ctx: &mut Ctx, case: &[String]) {
    if super::c12_more::replay(ctx, case) { return; }
    if super::c12_comp::replay(ctx, case) { return; }
    match case.first().map(|s| s.as_str()) {
        Some("fmt") if case.len() >= 5 => {
            if let (Some(fmt), Ok(sub), Ok(kind), Ok(cap)) = (Fmt::parse(&case[1]), case[2].parse::<u64>(), case[3].parse::<usize>(), case[4].parse::<usize>()) {
                format_case(ctx, fmt, sub, kind, cap);
            }
        }
        Some("corpus-loop") if case.len() >= 2 => {
            if let Ok(i) = case[1].parse::<usize>() {
                if let Some((l, data, sched, fallback, cap)) = corpus_loops().into_iter().nth(i) {
                    loop_check(ctx, l, &data, &sched, fallback, "corpus", cap, format!("corpus-loop {i}"), false);
                }
            }
        }
        Some("corpus-malformed") if case.len() >= 4 => {
            if let (Ok(i), Ok(kind), Ok(cap_sel)) = (case[1].parse::<usize>(), case[2].parse::<usize>(), case[3].parse::<usize>()) {
                if let Some((fmt, bytes, mode)) = corpus_malformed().into_iter().nth(i) {
                    let g = GenFile { boundaries: line_boundaries(&bytes), bytes, mode };
                    format_check(ctx, fmt, &g, 0, kind, cap_sel, format!("corpus-malformed {i} {kind} {cap_sel}"), "-malformed-fasta-line");
                }
            }
        }
        Some("loop") if case.len() >= 5 => {
            if let (Some(l), Ok(sub), Ok(kind), Ok(cap)) = (Loop::parse(&case[1]), case[2].parse::<u64>(), case[3].parse::<usize>(), case[4].parse::<usize>()) {
                loop_case(ctx, l, sub, kind, cap, false);
            }
        }
        // debugging aid: print the plain-cursor event stream of a generated file
        Some("dump") if case.len() >= 3 => {
            if let (Some(fmt), Ok(sub)) = (Fmt::parse(&case[1]), case[2].parse::<u64>()) {
                let mut rng = Rng::new(sub);
                match guarded(|| gen_file(fmt, &mut rng)) {
                    Ok(Some(g)) => {
                        let st = Rc::new(TapStat::default());
                        for e in render(fmt, &g.bytes, g.mode, sub ^ 0x5151, None, &st) {
                            println!("{e}");
                        }
                        if case.len() >= 4 {
                            std::fs::write(&case[3], &g.bytes).unwrap();
                        }
                    }
                    Ok(None) => println!("generator: writer rejected the content"),
                    Err(p) => println!("generator: writer panicked: {p}"),
                }
            }
        }
        _ => {}
    }
}
