//! C12, part "comp": composition of layers.
//!
//! (a) correspondence `c12 comp …` with `lean/Noodles/Io/BgzfSource.lean`:
//!   * `rd`     — the real `bgzf::io::Reader` over `adversary::SchedReader` schedules (optionally behind a
//!                `BufReader`), driven by a script of `read(n)` / `fill_buf` / `consume` / `read_exact` /
//!                `take(n).read_to_end` calls: sizes and digests of what each call returns;
//!   * `bamhdr` — `bam::io::Reader::from(src).read_header()` over a raw scheduled source;
//!   * `bamz`   — `bam::io::Reader::new(src)`: `read_header` + records through BGZF over schedules.
//! (b) oracle (classes `comp-*`): the same script / reader over the plain source and over the scheduled
//!   source give the same answers; every `read(n > 0)` returns 1..=n bytes until the payload is used
//!   up; the bytes are the payload in order; `Interrupted` never surfaces.
use crate::adversary::{schedule, Delivery, SchedReader};
use crate::common::*;
use noodles_bam as bam;
use noodles_bgzf as bgzf;
use noodles_sam as sam;
use std::io::{self, BufRead, BufReader, Read, Write};

const CAPS: [usize; 7] = [1, 2, 3, 7, 64, 4096, 65536];

fn digest(bs: &[u8]) -> u32 {
    bs.iter().fold(0u32, |h, &b| h.wrapping_mul(31).wrapping_add(b as u32))
}
fn show(bs: &[u8]) -> String {
    format!("{}.{}", bs.len(), digest(bs))
}

fn fmt_sched(sched: &[Delivery]) -> String {
    let mut toks: Vec<String> = vec![];
    let mut i = 0;
    while i < sched.len() {
        let mut j = i;
        while j < sched.len() && sched[j] == sched[i] {
            j += 1;
        }
        let t = match sched[i] {
            Delivery::Chunk(n) => format!("c{}", n.max(1)),
            Delivery::Interrupted => "i".to_string(),
        };
        toks.push(if j - i > 1 { format!("{t}*{}", j - i) } else { t });
        i = j;
    }
    if toks.is_empty() { "-".into() } else { toks.join(",") }
}

fn explicit(sched: &[Delivery], fallback: usize, len: usize) -> Vec<Delivery> {
    let mut v = sched.to_vec();
    if fallback != usize::MAX {
        v.extend(std::iter::repeat(Delivery::Chunk(fallback)).take(2 * len + 64));
    }
    v
}

/// the inner reader: the scheduled source, directly or behind a `BufReader`
fn inner(data: &[u8], sched: Vec<Delivery>, cap: Option<usize>) -> Box<dyn Read> {
    let s = SchedReader::new(data.to_vec(), sched, usize::MAX);
    match cap {
        None => Box::new(s),
        Some(c) => Box::new(BufReader::with_capacity(c, s)),
    }
}

// ------------------------------------------------------------------------------------------------
// BGZF files

/// members of a file as `read_frame_into` cuts them (complete frames only)
fn members(file: &[u8]) -> Vec<(usize, usize)> {
    let mut v = vec![];
    let mut at = 0;
    while at + 18 <= file.len() {
        let bsize = u16::from_le_bytes([file[at + 16], file[at + 17]]) as usize + 1;
        if bsize < 26 || at + bsize > file.len() {
            break;
        }
        v.push((at, bsize));
        at += bsize;
    }
    v
}

/// what the real frame decoder (header check, ISIZE, DEFLATE, CRC-32) answers for each member alone
fn ftable(file: &[u8]) -> String {
    let mut seen = std::collections::BTreeSet::new();
    let mut ents = vec![];
    for (at, n) in members(file) {
        let f = &file[at..at + n];
        let key = show(f);
        if !seen.insert(key.clone()) {
            continue;
        }
        let mut r = bgzf::io::Reader::new(f);
        let v = match guarded(|| r.fill_buf().map(|w| w.to_vec())) {
            Ok(Ok(d)) => hex(&d),
            _ => "E".into(),
        };
        ents.push(format!("{key}={v}"));
    }
    if ents.is_empty() { "-".into() } else { ents.join(",") }
}

fn bgzip(rng: &mut Rng, raw: &[u8]) -> Vec<u8> {
    let mut out = vec![];
    let mut at = 0;
    let nseg = 1 + rng.below(3) as usize;
    for seg in 0..nseg {
        let end = if seg + 1 == nseg { raw.len() } else { at + rng.below((raw.len() - at) as u64 + 1) as usize };
        let mut w = bgzf::io::Writer::new(Vec::new());
        while at < end {
            let n = match rng.below(5) {
                0 => 1 + rng.below(20) as usize,
                1 => 1 + rng.below(3000) as usize,
                _ => 1 + rng.below(300) as usize,
            }
            .min(end - at);
            w.write_all(&raw[at..at + n]).unwrap();
            at += n;
            if rng.chance(2, 3) {
                w.flush().unwrap();
            }
        }
        out.extend_from_slice(&w.finish().unwrap());
    }
    out
}

fn starts(f: &[u8]) -> Vec<usize> {
    let mut v: Vec<usize> = members(f).into_iter().map(|m| m.0).collect();
    if v.is_empty() {
        v.push(0);
    }
    v
}

/// damage a BGZF file; returns the name of the damage
fn damage(rng: &mut Rng, f: &mut Vec<u8>) -> &'static str {
    if f.len() < 60 {
        return "none";
    }
    match rng.below(12) {
        0 => {
            f.truncate(rng.below(f.len() as u64 + 1) as usize);
            "cut-anywhere"
        }
        1 => {
            f.truncate(f.len() - 28);
            "no-eof-marker"
        }
        2 => {
            let k = *rng.pick(&starts(f));
            f[k + *rng.pick(&[0usize, 1, 2, 3, 10, 12, 13, 14])] ^= 0x40;
            "bad-header"
        }
        3 => {
            let k = *rng.pick(&starts(f));
            let b = *rng.pick(&[0u16, 17, 24]);
            f[k + 16..k + 18].copy_from_slice(&b.to_le_bytes());
            "bsize-small"
        }
        4 => {
            let ms = members(f);
            let (at, n) = *rng.pick(&ms);
            f[at + n - 4..at + n].copy_from_slice(&65_537u32.to_le_bytes());
            "isize-big"
        }
        5 => {
            // CRC / ISIZE / payload byte changed: refused by the decoder (or not: the table says)
            let ms = members(f);
            let (at, n) = *rng.pick(&ms);
            let off = 18 + rng.below((n - 18) as u64) as usize;
            f[at + off] ^= 1 << rng.below(8);
            "member-byte-flipped"
        }
        6 => {
            // cut inside the header of a member (end of stream) or inside its body (UnexpectedEof)
            let k = *rng.pick(&starts(f));
            let cut = k + *rng.pick(&[1usize, 17, 18, 19, 25]);
            f.truncate(cut.min(f.len()));
            "cut-in-member"
        }
        _ => "none",
    }
}

fn gen_payload(rng: &mut Rng) -> Vec<u8> {
    let n = match rng.below(6) {
        0 => 0,
        1 => 1 + rng.below(10) as usize,
        2 => 2000 + rng.below(6000) as usize,
        _ => 1 + rng.below(900) as usize,
    };
    let mut v = rng.bytes(n);
    if rng.chance(1, 2) {
        for b in v.iter_mut() {
            *b = b"ACGT\n"[(*b % 5) as usize];
        }
    }
    v
}

/// a BGZF file and the name of its shape
fn gen_bgzf(rng: &mut Rng) -> (Vec<u8>, String) {
    let raw = gen_payload(rng);
    let mut f = bgzip(rng, &raw);
    let mut shape = String::from("plain");
    if rng.chance(1, 6) {
        // a full 64 KiB member (the frame is small: the payload is one repeated byte) and a tail
        let mut w = bgzf::io::Writer::new(Vec::new());
        w.write_all(&vec![b'z'; 65_280]).unwrap();
        w.flush().unwrap();
        w.write_all(b"tail").unwrap();
        f.extend_from_slice(&w.finish().unwrap());
        shape = "with-64k-member".into();
    }
    let d = damage(rng, &mut f);
    (f, format!("{shape}/{d}"))
}

fn gen_script(rng: &mut Rng, big: bool) -> Vec<String> {
    let n = 4 + rng.below(24) as usize;
    let mut ops = vec![];
    for _ in 0..n {
        let size = |rng: &mut Rng| -> usize {
            match rng.below(10) {
                0 => 0,
                1 => 1,
                2 => 2 + rng.below(6) as usize,
                3 => 65_536,
                4 => 65_535,
                5 if big => 65_537 + rng.below(70_000) as usize,
                6 => 1000 + rng.below(5000) as usize,
                _ => 1 + rng.below(300) as usize,
            }
        };
        ops.push(match rng.below(12) {
            0 | 1 => "f".to_string(),
            2 => format!("c{}", size(rng)),
            3 => format!("k{}", rng.below(400)),
            4 => format!("x{}", size(rng).min(70_000)),
            5 => format!("t{}", size(rng)),
            _ => format!("r{}", size(rng)),
        });
    }
    // then to the end of the stream
    let m = *rng.pick(&[1usize, 5, 100, 65_536, 100_000]);
    let k = if m < 100 { 30 } else { 8 };
    for _ in 0..k {
        ops.push(format!("r{m}"));
    }
    ops
}

struct RdRun {
    answers: Vec<String>,
    /// per op: (op, bytes handed out or skipped, None for an error)
    trace: Vec<(String, Option<Vec<u8>>, bool)>,
}

/// the real `bgzf::io::Reader` driven by the script
fn real_rd(file: &[u8], sched: Vec<Delivery>, cap: Option<usize>, script: &[String]) -> Result<RdRun, String> {
    guarded(|| {
        let mut rd = bgzf::io::Reader::new(inner(file, sched, cap));
        let mut run = RdRun { answers: vec![], trace: vec![] };
        for op in script {
            let n: usize = op[1..].parse().unwrap_or(0);
            // (answer word, bytes delivered or skipped, was a `read` of n > 0)
            let r: io::Result<(String, Vec<u8>)> = match op.as_bytes()[0] {
                b'r' => {
                    let mut b = vec![0u8; n];
                    rd.read(&mut b).map(|k| (show(&b[..k]), b[..k].to_vec()))
                }
                b'f' => rd.fill_buf().map(|w| (show(w), vec![])),
                b'c' => match rd.fill_buf().map(|w| w.to_vec()) {
                    Ok(w) => {
                        let amt = n.min(w.len());
                        rd.consume(amt);
                        Ok((format!("c{amt}"), w[..amt].to_vec()))
                    }
                    Err(e) => Err(e),
                },
                b'k' => match rd.fill_buf().map(|w| w.to_vec()) {
                    // consume MORE than the window holds: saturates at the end of the block
                    Ok(w) => {
                        rd.consume(w.len() + n);
                        Ok(("k".to_string(), w))
                    }
                    Err(e) => Err(e),
                },
                b'x' => {
                    let mut b = vec![0u8; n];
                    rd.read_exact(&mut b).map(|()| (show(&b), b))
                }
                b't' => {
                    let mut v = vec![];
                    (&mut rd).take(n as u64).read_to_end(&mut v).map(|_| (show(&v), v))
                }
                _ => Ok(("bad-op".into(), vec![])),
            };
            match r {
                Ok((a, bytes)) => {
                    run.answers.push(a);
                    run.trace.push((op.clone(), Some(bytes), op.starts_with('r') && n > 0));
                }
                Err(e) => {
                    run.answers.push(errclass(&e).to_string());
                    run.trace.push((op.clone(), None, false));
                    break;
                }
            }
        }
        run
    })
}

/// payload of the readable members and how the stream ends, by the plain reader
fn plain_payload(file: &[u8]) -> (Vec<u8>, Option<String>) {
    let mut rd = bgzf::io::Reader::new(file);
    let mut out = vec![];
    loop {
        match rd.fill_buf() {
            Ok(w) if w.is_empty() => return (out, None),
            Ok(w) => {
                let n = w.len();
                out.extend_from_slice(w);
                rd.consume(n);
            }
            Err(e) => return (out, Some(errclass(&e).to_string())),
        }
    }
}

fn rd_check(ctx: &mut Ctx, file: &[u8], script: &[String], sched: &[Delivery], fallback: usize, sname: &str, cap: Option<usize>, shape: &str, case: String) {
    let ex = explicit(sched, fallback, file.len());
    let real = real_rd(file, ex.clone(), cap, script);
    let ans = match &real {
        Ok(r) => r.answers.join(" "),
        Err(_) => "panic".to_string(),
    };
    // the model gets the schedule only when the source is not behind a BufReader (its answer does not
    // depend on it: that is the theorem)
    let sc = if cap.is_none() { fmt_sched(&ex) } else { "-".into() };
    ctx.corr(format!("c12 comp rd {} {} {} {}", hex(file), ftable(file), sc, script.join(",")), ans.clone());
    ctx.bump(&format!("comp_rd_shape:{shape}"));
    ctx.bump(&format!("comp_rd_sched:{sname}"));
    ctx.bump(&format!("comp_rd_cap:{}", cap.map(|c| c.to_string()).unwrap_or("none".into())));
    ctx.bump(&format!("comp_rd_members:{}", members(file).len().min(9)));

    // oracle
    let plain = real_rd(file, vec![], None, script);
    let (payload, end) = plain_payload(file);
    ctx.bump(&format!("comp_rd_end:{}", end.clone().unwrap_or("eof".into())));
    ctx.bump(&format!("comp_rd_payload:{}", match payload.len() { 0 => "0", 1..=99 => "1-99", 100..=999 => "100-999", 1000..=65535 => "1000-65535", _ => "64k+" }));
    let key = fnv(format!("{}{}{}", hex(file), script.join(","), fmt_sched(&ex)).as_bytes());
    let (Ok(real), Ok(plain)) = (real, plain) else {
        ctx.eval(None);
        ctx.fail("comp-panic", format!("bgzf reader panicked under script ({shape}, {sname})"), case);
        return;
    };
    ctx.eval(if payload.len() >= 3 && real.trace.len() >= 3 { Some(key) } else { None });
    if real.answers != plain.answers {
        ctx.fail("comp-read-schedule-dependent", format!("{shape} {sname} cap {cap:?}: plain {:?} vs scheduled {:?}", plain.answers, real.answers), case.clone());
    }
    let mut pos = 0usize;
    let mut ended = false;
    for (op, bytes, is_read) in &real.trace {
        ctx.bump(&format!("comp_rd_op:{}", &op[..1]));
        match bytes {
            None => {
                let a = real.answers.last().cloned().unwrap_or_default();
                ctx.bump(&format!("comp_rd_err:{a}"));
                if a == "err:interrupted" {
                    ctx.fail("comp-interrupted-surfaced", format!("{op} returned Interrupted ({shape}, {sname})"), case.clone());
                }
                if end.as_deref() != Some(a.as_str()) && !(op.starts_with('x') && a == "err:eof") {
                    ctx.fail("comp-error-differs", format!("{op} failed with {a}, the stream ends with {end:?}"), case.clone());
                }
            }
            Some(b) => {
                let n: usize = op[1..].parse().unwrap_or(0);
                if pos + b.len() > payload.len() || payload[pos..pos + b.len()] != b[..] {
                    ctx.fail("comp-bytes-differ", format!("{op} at payload offset {pos}: not the payload's bytes ({shape}, {sname})"), case.clone());
                    return;
                }
                pos += b.len();
                if *is_read {
                    if b.len() > n {
                        ctx.fail("comp-read-too-long", format!("{op} returned {} bytes", b.len()), case.clone());
                    }
                    if b.is_empty() {
                        if pos < payload.len() {
                            ctx.fail("comp-zero-before-end", format!("{op} returned 0 at payload offset {pos} of {} ({shape}, {sname})", payload.len()), case.clone());
                        }
                        if end.is_some() {
                            ctx.fail("comp-error-swallowed", format!("{op} returned 0 but the stream ends with {end:?}"), case.clone());
                        }
                        ended = true;
                        ctx.bump("comp_rd_read:zero-at-end");
                    } else {
                        if ended {
                            ctx.fail("comp-data-after-end", format!("{op} returned data after a read returned 0"), case.clone());
                        }
                        ctx.bump(if b.len() == n { "comp_rd_read:full" } else { "comp_rd_read:short" });
                        if n >= 65_536 {
                            ctx.bump("comp_rd_read:ge-64k-request");
                        }
                    }
                }
            }
        }
    }
}

// ------------------------------------------------------------------------------------------------
// BAM header

fn put_u32(v: &mut Vec<u8>, n: u32) {
    v.extend_from_slice(&n.to_le_bytes());
}

/// the header lines as `read_sam_header` cuts them (the harness's own splitter, used only to ask the
/// real SAM header parser; the model has its own: `hdrTextLines`; the request carries this one's lines
/// as the table key and the model answers `parse-table-miss` when its lines are others)
fn split_text(text: &[u8]) -> Vec<Vec<u8>> {
    let mut lines = vec![];
    let mut t = text;
    loop {
        if t.is_empty() || t[0] == 0 {
            return lines;
        }
        match t.iter().position(|&b| b == b'\n') {
            None => {
                lines.push(t.to_vec());
                return lines;
            }
            Some(i) => {
                let mut l = &t[..i];
                if l.ends_with(b"\r") {
                    l = &l[..l.len() - 1];
                }
                lines.push(l.to_vec());
                t = &t[i + 1..];
            }
        }
    }
}

fn header_token(h: &sam::Header) -> String {
    format!("hd{}.rg{}.pg{}.co{}", h.header().is_some() as u8, h.read_groups().len(), h.programs().as_ref().len(), h.comments().len())
}

fn refs_str(h: &sam::Header) -> String {
    let v: Vec<String> = h.reference_sequences().iter().map(|(n, m)| format!("{}:{}", hex(n.as_ref()), usize::from(m.length()))).collect();
    if v.is_empty() { "-".into() } else { v.join(",") }
}

/// `<lines key>=<E | token/refs>`: the real SAM header parser on the lines of the text
fn ptable(payload: &[u8]) -> String {
    let text: &[u8] = if payload.len() >= 8 {
        let l = u32::from_le_bytes(payload[4..8].try_into().unwrap()) as usize;
        &payload[8..(8usize.saturating_add(l)).min(payload.len())]
    } else {
        &[]
    };
    let lines = split_text(text);
    let key = if lines.is_empty() { "-".to_string() } else { lines.iter().map(|l| hex(l)).collect::<Vec<_>>().join(".") };
    let mut p = sam::header::Parser::default();
    for l in &lines {
        if p.parse_partial(l).is_err() {
            return format!("{key}=E");
        }
    }
    let h = p.finish();
    format!("{key}={}/{}", header_token(&h), refs_str(&h))
}

fn bam_record(name: &[u8]) -> Vec<u8> {
    let mut b = vec![];
    b.extend_from_slice(&(-1i32).to_le_bytes());
    b.extend_from_slice(&(-1i32).to_le_bytes());
    b.push(name.len() as u8 + 1);
    b.push(255);
    b.extend_from_slice(&4680u16.to_le_bytes());
    b.extend_from_slice(&0u16.to_le_bytes());
    b.extend_from_slice(&4u16.to_le_bytes());
    b.extend_from_slice(&0u32.to_le_bytes());
    b.extend_from_slice(&(-1i32).to_le_bytes());
    b.extend_from_slice(&(-1i32).to_le_bytes());
    b.extend_from_slice(&0i32.to_le_bytes());
    b.extend_from_slice(name);
    b.push(0);
    let mut r = vec![];
    put_u32(&mut r, b.len() as u32);
    r.extend(b);
    r
}

/// an uncompressed BAM stream (header + a few records) and the branches of the generator taken
fn gen_bam(rng: &mut Rng, hist: &mut Vec<String>) -> Vec<u8> {
    let nref = *rng.pick(&[0usize, 1, 2, 2, 2, 3]);
    let names: Vec<Vec<u8>> = (0..nref).map(|i| if rng.chance(1, 16) { b"sq0".to_vec() } else { format!("sq{i}").into_bytes() }).collect();
    let lens: Vec<u32> = (0..nref).map(|_| 1 + rng.below(100_000) as u32).collect();
    let crlf = rng.chance(1, 4);
    let eol: &[u8] = if crlf { b"\r\n" } else { b"\n" };
    let mut text = vec![];
    if rng.chance(3, 4) {
        text.extend_from_slice(b"@HD\tVN:1.6");
        text.extend_from_slice(eol);
    }
    let sq = *rng.pick(&[0u64, 0, 0, 0, 0, 0, 0, 0, 3, 3, 3, 3, 3, 5, 6, 7]);
    hist.push(format!("sq:{}", ["all", "all", "all", "none", "none", "one-missing", "length-differs", "name-differs"][sq as usize]));
    for i in 0..nref {
        let (mut n, mut l) = (names[i].clone(), lens[i]);
        match sq {
            3 | 4 => continue,
            5 if i + 1 == nref => continue,
            6 if i + 1 == nref => l += 1,
            7 if i == 0 => n = b"other".to_vec(),
            _ => {}
        }
        text.extend_from_slice(b"@SQ\tSN:");
        text.extend_from_slice(&n);
        text.extend_from_slice(format!("\tLN:{l}").as_bytes());
        text.extend_from_slice(eol);
    }
    if rng.chance(1, 3) {
        text.extend_from_slice(b"@RG\tID:g1");
        text.extend_from_slice(eol);
    }
    for _ in 0..rng.below(3) {
        text.extend_from_slice(b"@CO\t");
        let n = if rng.chance(1, 6) { 9000 } else { rng.below(30) as usize };
        text.extend(std::iter::repeat(b'c').take(n));
        text.extend_from_slice(eol);
    }
    let tail = rng.below(20) % 14 % 10;
    hist.push(format!("text_tail:{}", ["lf", "lf", "lf", "no-final-eol", "nul-padding", "nul-padding", "nul-then-text", "nul-inside-line", "empty-line", "bad-line"][tail as usize]));
    match tail {
        3 => {
            let k = eol.len().min(text.len());
            text.truncate(text.len() - k);
        }
        4 | 5 => {
            let m = if rng.chance(1, 4) { 20_000 } else { 40 };
            text.extend(std::iter::repeat(0u8).take(1 + rng.below(m) as usize));
        }
        6 => {
            text.extend_from_slice(b"\0\0@CO\tafter the NUL\n");
        }
        7 => text.extend_from_slice(b"@CO\ta\0b\n\0\0"),
        8 => text.extend_from_slice(b"\n@CO\tx\n"),
        9 => text.extend_from_slice(b"@XX\n"),
        _ => {}
    }
    if rng.chance(1, 12) {
        text.clear();
        hist.push("text:empty".into());
    }
    let mut raw = b"BAM\x01".to_vec();
    put_u32(&mut raw, text.len() as u32);
    raw.extend_from_slice(&text);
    let refs_at = raw.len();
    put_u32(&mut raw, nref as u32);
    let mut entry_at = vec![];
    for i in 0..nref {
        entry_at.push(raw.len());
        put_u32(&mut raw, names[i].len() as u32 + 1);
        raw.extend_from_slice(&names[i]);
        raw.push(0);
        put_u32(&mut raw, lens[i]);
    }
    let recs_at = raw.len();
    for i in 0..rng.below(4) {
        raw.extend(bam_record(format!("r{i}").as_bytes()));
    }
    let dmg = rng.below(36);
    let d = match dmg {
        0 => {
            raw[rng.below(4) as usize] ^= 0x20;
            "bad-magic"
        }
        1 => {
            raw.truncate(rng.below(raw.len() as u64 + 1) as usize);
            "cut-anywhere"
        }
        2 if nref > 0 => {
            // l_name = 0
            let at = *rng.pick(&entry_at);
            raw[at..at + 4].copy_from_slice(&0u32.to_le_bytes());
            "l-name-0"
        }
        3 if nref > 0 => {
            // the terminating NUL replaced
            let at = *rng.pick(&entry_at);
            let l = u32::from_le_bytes(raw[at..at + 4].try_into().unwrap()) as usize;
            raw[at + 4 + l - 1] = b'x';
            "name-no-nul"
        }
        4 if nref > 0 => {
            let at = *rng.pick(&entry_at);
            raw[at + 5] = 0;
            "name-interior-nul"
        }
        5 if nref > 0 => {
            let at = *rng.pick(&entry_at);
            let l = u32::from_le_bytes(raw[at..at + 4].try_into().unwrap()) as usize;
            raw[at + 4 + l..at + 8 + l].copy_from_slice(&0u32.to_le_bytes());
            "l-ref-0"
        }
        6 => {
            let n = nref as u32 + 1 + rng.below(3) as u32;
            raw[refs_at..refs_at + 4].copy_from_slice(&n.to_le_bytes());
            "n-ref-too-big"
        }
        7 => {
            let l = text.len() as u32 + *rng.pick(&[1u32, 4, 100, 1 << 20]);
            raw[4..8].copy_from_slice(&l.to_le_bytes());
            "l-text-too-big"
        }
        8 if nref > 0 => {
            raw[refs_at..refs_at + 4].copy_from_slice(&(nref as u32 - 1).to_le_bytes());
            "n-ref-too-small"
        }
        9 => {
            raw.truncate(recs_at.min(raw.len()));
            raw.truncate(raw.len() - rng.below(6).min(raw.len() as u64) as usize);
            "cut-in-refs"
        }
        _ => "none",
    };
    hist.push(format!("damage:{d}"));
    hist.push(format!("nref:{nref}"));
    raw
}

fn rec_loop<R: Read>(r: &mut bam::io::Reader<R>) -> String {
    let mut rec = bam::Record::default();
    let mut recs = vec![];
    let end;
    loop {
        match r.read_record(&mut rec) {
            Ok(0) => {
                end = "eof".to_string();
                break;
            }
            Ok(n) => recs.push(format!("{n}:{}", hex(rec.name().map(|n| n.to_vec()).unwrap_or(b"*".to_vec()).as_slice()))),
            Err(e) => {
                end = errclass(&e).to_string();
                break;
            }
        }
        if recs.len() > 10_000 {
            end = "runaway".into();
            break;
        }
    }
    format!("recs={} end={end}", if recs.is_empty() { "-".into() } else { recs.join(",") })
}

fn real_bamhdr(payload: &[u8], sched: Vec<Delivery>) -> String {
    guarded(|| {
        let mut r = bam::io::Reader::from(SchedReader::new(payload.to_vec(), sched, usize::MAX));
        match r.read_header() {
            Ok(h) => format!("ok {} refs={} @{}", header_token(&h), refs_str(&h), r.get_ref().pos),
            Err(e) => errclass(&e).to_string(),
        }
    })
    .unwrap_or("panic".into())
}

fn real_bamz(file: &[u8], sched: Vec<Delivery>, cap: Option<usize>) -> String {
    guarded(|| {
        let mut r = bam::io::Reader::new(inner(file, sched, cap));
        match r.read_header() {
            Ok(h) => format!("hdr=ok {} refs={} {}", header_token(&h), refs_str(&h), rec_loop(&mut r)),
            Err(e) => format!("hdr={}", errclass(&e)),
        }
    })
    .unwrap_or("panic".into())
}

fn bam_check(ctx: &mut Ctx, payload: &[u8], file: Option<&[u8]>, sched: &[Delivery], fallback: usize, sname: &str, cap: Option<usize>, case: String) {
    match file {
        None => {
            let ex = explicit(sched, fallback, payload.len());
            let ans = real_bamhdr(payload, ex.clone());
            ctx.corr(format!("c12 comp bamhdr {} {} {}", hex(payload), ptable(payload), fmt_sched(&ex)), ans.clone());
            let plain = real_bamhdr(payload, vec![]);
            ctx.eval(if plain.starts_with("ok") { Some(fnv(format!("{}{}", hex(payload), fmt_sched(&ex)).as_bytes())) } else { None });
            ctx.bump(&format!("comp_bamhdr_result:{}", ans.split(' ').next().unwrap_or("")));
            ctx.bump(&format!("comp_bamhdr_sched:{sname}"));
            if plain != ans {
                ctx.fail("comp-bamhdr-schedule-dependent", format!("{sname}: plain {plain} vs scheduled {ans}"), case);
            }
        }
        Some(f) => {
            let ex = explicit(sched, fallback, f.len());
            let ans = real_bamz(f, ex.clone(), cap);
            let sc = if cap.is_none() { fmt_sched(&ex) } else { "-".into() };
            // the parser table is for the text the reader really sees (a damaged file ends early)
            ctx.corr(format!("c12 comp bamz {} {} {} {}", hex(f), ftable(f), ptable(&plain_payload(f).0), sc), ans.clone());
            let plain = real_bamz(f, vec![], None);
            ctx.eval(if plain.starts_with("hdr=ok") { Some(fnv(format!("{}{}", hex(f), fmt_sched(&ex)).as_bytes())) } else { None });
            ctx.bump(&format!("comp_bamz_result:{}", ans.split(' ').next().unwrap_or("")));
            ctx.bump(&format!("comp_bamz_end:{}", ans.rsplit("end=").next().filter(|_| ans.contains("end=")).unwrap_or("-")));
            ctx.bump(&format!("comp_bamz_sched:{sname}"));
            ctx.bump(&format!("comp_bamz_cap:{}", cap.map(|c| c.to_string()).unwrap_or("none".into())));
            ctx.bump(&format!("comp_bamz_members:{}", members(f).len().min(9)));
            if plain != ans {
                ctx.fail("comp-bamz-schedule-dependent", format!("{sname} cap {cap:?}: plain {plain} vs scheduled {ans}"), case.clone());
            }
            // the header through BGZF = the header of the payload read directly (when the file is sound)
            let (pl, end) = plain_payload(f);
            if end.is_none() && pl == payload {
                let direct = real_bamhdr(payload, vec![]);
                let d = direct.rsplit_once(" @").map(|x| x.0.to_string()).unwrap_or(direct);
                let through = ans.strip_prefix("hdr=").unwrap_or(&ans);
                let through = through.split(" recs=").next().unwrap_or(through);
                if d != through {
                    ctx.fail("comp-bamz-differs-from-payload", format!("payload directly: {d}; through BGZF: {through}"), case);
                }
            }
        }
    }
}

// ------------------------------------------------------------------------------------------------
// cases

fn rd_case(ctx: &mut Ctx, sub: u64, kind: usize, cap_sel: usize) {
    let mut rng = Rng::new(sub ^ 0xC0_4D50);
    let (file, shape) = gen_bgzf(&mut rng);
    let script = gen_script(&mut rng, shape.starts_with("with-64k"));
    let mut prng = Rng::new(sub.wrapping_mul(31).wrapping_add(kind as u64 * 8 + cap_sel as u64));
    let bounds: Vec<usize> = members(&file).iter().flat_map(|&(a, n)| [a + 12, a + 18, a + n]).collect();
    let (sched, fallback, sname) = schedule(&mut prng, kind, file.len(), &bounds);
    let cap = if cap_sel % 3 == 2 { Some(CAPS[(cap_sel / 3) % 7]) } else { None };
    rd_check(ctx, &file, &script, &sched, fallback, &sname, cap, &shape, format!("comp-rd {sub} {kind} {cap_sel}"));
}

fn bam_case(ctx: &mut Ctx, sub: u64, kind: usize, cap_sel: usize) {
    let mut rng = Rng::new(sub ^ 0xBA_4D48);
    let mut hist = vec![];
    let payload = gen_bam(&mut rng, &mut hist);
    for h in &hist {
        ctx.bump(&format!("comp_bam_gen:{h}"));
    }
    let mut prng = Rng::new(sub.wrapping_mul(31).wrapping_add(kind as u64 * 8 + cap_sel as u64));
    if cap_sel % 2 == 0 {
        let (sched, fallback, sname) = schedule(&mut prng, kind, payload.len(), &[4, 8, 12]);
        bam_check(ctx, &payload, None, &sched, fallback, &sname, None, format!("comp-bam {sub} {kind} {cap_sel}"));
    } else {
        let mut file = bgzip(&mut rng, &payload);
        // a damaged member together with a refused header line is outside the model (it reads the
        // whole text before it parses): damage only files whose text parses
        if rng.chance(1, 4) && !ptable(&payload).ends_with("=E") {
            let d = damage(&mut rng, &mut file);
            ctx.bump(&format!("comp_bamz_damage:{d}"));
        }
        let bounds: Vec<usize> = members(&file).iter().flat_map(|&(a, n)| [a + 12, a + 18, a + n]).collect();
        let (sched, fallback, sname) = schedule(&mut prng, kind, file.len(), &bounds);
        let cap = if cap_sel % 4 == 3 { Some(CAPS[(cap_sel / 4) % 7]) } else { None };
        bam_check(ctx, &payload, Some(&file), &sched, fallback, &sname, cap, format!("comp-bam {sub} {kind} {cap_sel}"));
    }
}

/// hand-written boundary cases, run first
fn corpus_cases() -> Vec<(Vec<u8>, Vec<String>, Vec<Delivery>, usize, Option<usize>)> {
    let member = |data: &[u8]| -> Vec<u8> {
        let mut w = bgzf::io::Writer::new(Vec::new());
        w.write_all(data).unwrap();
        let mut f = w.finish().unwrap();
        if !data.is_empty() {
            f.truncate(f.len() - 28);
        }
        f
    };
    let eof = member(b"");
    let ops = |s: &str| -> Vec<String> { s.split(',').map(|x| x.to_string()).collect() };
    let cat = |parts: &[&[u8]]| -> Vec<u8> { parts.concat() };
    let a = member(b"noodles");
    let b = member(b"bgzf");
    let big = member(&vec![b'z'; 65_280]);
    let i = Delivery::Interrupted;
    let c = Delivery::Chunk;
    vec![
        // empty file; only an EOF marker; a partial header
        (vec![], ops("r1,f,r65536,x0,x1"), vec![], usize::MAX, None),
        (eof.clone(), ops("r1,f,r65536,t5,x1"), vec![], 1, None),
        (eof[..17].to_vec(), ops("f,r1"), vec![i, c(1), i], usize::MAX, None),
        // empty members in the middle and at the start are skipped by ONE read
        (cat(&[&eof, &a, &eof, &eof, &b, &eof]), ops("r3,r100,r100,r100,r100"), vec![i, c(1), i, c(2)], 7, None),
        (cat(&[&eof, &a, &eof, &eof, &b, &eof]), ops("r65536,r65536,r65536"), vec![], 1, None),
        // read(0): fill_buf still reads a block
        (cat(&[&a, &eof]), ops("r0,f,c3,f,k100,f,r1"), vec![], 2, None),
        // read_exact inside the block, across blocks, beyond the end
        (cat(&[&a, &b, &eof]), ops("x3,x6,x1,x2"), vec![i, i, i], 1, None),
        (cat(&[&a, &b, &eof]), ops("x12"), vec![], 3, Some(1)),
        // take(n).read_to_end across blocks, limit 0, limit beyond the end
        (cat(&[&a, &b, &eof]), ops("t0,t9,t100,r1"), vec![c(5), i, c(40)], usize::MAX, None),
        // 64 KiB member: the direct path (request >= 65536 on an exhausted block) and the buffered path
        (cat(&[&big, &b, &eof]), ops("r65536,r65536,r65536"), vec![], 4096, None),
        (cat(&[&big, &b, &eof]), ops("r1,r65536,r65535,r70000,r70000"), vec![i, c(100)], usize::MAX, Some(7)),
        (cat(&[&a, &big, &eof]), ops("r7,r100000,r100000,r100000"), vec![], 7, None),
        // errors: the bytes before the damaged member are delivered, then the error
        (cat(&[&a, &b[..20]]), ops("r100,r100,r100"), vec![], 1, None),
        (cat(&[&a, &[0x1f, 0x8b, 0x08, 0x04, 0, 0, 0, 0, 0, 0xff, 6, 0, 0x42, 0x43, 2, 0, 17, 0, 0, 0]]), ops("r100,r100"), vec![], 1, None),
        (cat(&[&a, &{ let mut x = b.clone(); x[0] = 0; x }, &eof]), ops("r2,r65536,r65536,r1"), vec![i], 2, None),
        (cat(&[&a, &{ let mut x = b.clone(); let n = x.len(); x[n - 8] ^= 1; x }, &eof]), ops("x7,x1"), vec![], 1, None),
        (cat(&[&a, &{ let mut x = b.clone(); let n = x.len(); x[n - 8] ^= 1; x }, &eof]), ops("t100"), vec![], 1, None),
    ]
}

fn corpus_bam() -> Vec<(Vec<u8>, bool)> {
    let build = |text: &[u8], refs: &[(&[u8], u32)], nref: Option<u32>| -> Vec<u8> {
        let mut raw = b"BAM\x01".to_vec();
        put_u32(&mut raw, text.len() as u32);
        raw.extend_from_slice(text);
        put_u32(&mut raw, nref.unwrap_or(refs.len() as u32));
        for (n, l) in refs {
            put_u32(&mut raw, n.len() as u32);
            raw.extend_from_slice(n);
            put_u32(&mut raw, *l);
        }
        raw.extend(bam_record(b"r0"));
        raw
    };
    let two: &[(&[u8], u32)] = &[(b"sq0\0", 8), (b"sq1\0", 13)];
    vec![
        (build(b"@HD\tVN:1.6\n@SQ\tSN:sq0\tLN:8\n@SQ\tSN:sq1\tLN:13\n", two, None), true),
        (build(b"@HD\tVN:1.6\n", two, None), true),
        (build(b"", two, None), false),
        (build(b"@SQ\tSN:sq0\tLN:8\n@SQ\tSN:sq1\tLN:13\n\0\0\0\0", two, None), true),
        (build(b"@SQ\tSN:sq0\tLN:8\r\n@SQ\tSN:sq1\tLN:13", two, None), false),
        (build(b"@SQ\tSN:sq0\tLN:8\n@SQ\tSN:sq1\tLN:14\n", two, None), false),
        (build(b"@SQ\tSN:sq0\tLN:8\n", two, None), true),
        (build(b"@SQ\tSN:sq1\tLN:13\n@SQ\tSN:sq0\tLN:8\n", two, None), false),
        (build(b"\0@SQ\tSN:zz\tLN:1\n", two, None), false),
        (build(b"@CO\tx\0y\n\0", two, None), true),
        (build(b"@CO\tx\n\n", two, None), false),
        // duplicate names in the binary dictionary: the IndexMap keeps one entry, the last length
        (build(b"", &[(b"sq0\0", 8), (b"sq0\0", 9)], None), true),
        (build(b"@SQ\tSN:sq0\tLN:9\n", &[(b"sq0\0", 8), (b"sq0\0", 9)], None), false),
        (build(b"", &[(b"\0", 8)], None), false),
        (build(b"", &[(b"", 8)], None), false),
        (build(b"", &[(b"a\0b\0", 8)], None), true),
        (build(b"", &[(b"ab", 8)], None), false),
        (build(b"", &[(b"sq0\0", 0)], None), false),
        (build(b"", two, Some(3)), true),
        (build(b"", two, Some(1)), false),
        (build(b"", &[], Some(0xffff_ffff)), false),
        (b"BAM\x02\0\0\0\0\0\0\0\0".to_vec(), false),
        (b"BAM".to_vec(), true),
        (b"BAM\x01\x05\0\0\0@C".to_vec(), false),
    ]
}

fn corpus(ctx: &mut Ctx) {
    for (i, (file, script, sched, fb, cap)) in corpus_cases().into_iter().enumerate() {
        rd_check(ctx, &file, &script, &sched, fb, "corpus", cap, "corpus", format!("comp-corpus-rd {i}"));
    }
    for (i, (payload, z)) in corpus_bam().into_iter().enumerate() {
        bam_check(ctx, &payload, None, &[Delivery::Interrupted, Delivery::Chunk(3), Delivery::Interrupted], 1 + i % 3, "corpus", None, format!("comp-corpus-bam {i}"));
        bam_check(ctx, &payload, None, &[], usize::MAX, "corpus-plain", None, format!("comp-corpus-bam {i}"));
        if z {
            let mut rng = Rng::new(i as u64);
            let f = bgzip(&mut rng, &payload);
            bam_check(ctx, &payload, Some(&f), &[Delivery::Interrupted, Delivery::Chunk(5)], 1 + i % 2, "corpus", None, format!("comp-corpus-bam {i}"));
        }
    }
}

pub fn run(ctx: &mut Ctx) {
    corpus(ctx);
    let n = ctx.n(260, 9000);
    for c in 0..n {
        let sub = ctx.seed.wrapping_mul(0x9E37_79B9).wrapping_add(c);
        rd_case(ctx, sub, c as usize % 7, (c / 7) as usize % 21);
    }
    let n = ctx.n(320, 9000);
    for c in 0..n {
        let sub = ctx.seed.wrapping_mul(0x85EB_CA6B).wrapping_add(c);
        bam_case(ctx, sub, c as usize % 7, (c / 7) as usize % 28);
    }
}

pub fn replay(ctx: &mut Ctx, case: &[String]) -> bool {
    let num = |i: usize| case.get(i).and_then(|s| s.parse::<u64>().ok());
    match case.first().map(|s| s.as_str()) {
        Some("comp-rd") => {
            if let (Some(sub), Some(kind), Some(cap)) = (num(1), num(2), num(3)) {
                rd_case(ctx, sub, kind as usize, cap as usize);
            }
            true
        }
        Some("comp-bam") => {
            if let (Some(sub), Some(kind), Some(cap)) = (num(1), num(2), num(3)) {
                bam_case(ctx, sub, kind as usize, cap as usize);
            }
            true
        }
        Some("comp-corpus-rd") | Some("comp-corpus-bam") => {
            corpus(ctx);
            true
        }
        _ => false,
    }
}
